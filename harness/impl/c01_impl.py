"""C01 -- drives the REAL EdgeQL parser / printer of the repo (argv[1]) under the vrt
substrate, one case per stdin line, one JSON result per stdout line.

    c01_impl.py <repo> explore     case = {"e": entry, "t": text}
    c01_impl.py <repo> core        case = {"k": "pp", "x": <term of the Coq model>} | {"k": "parse", "t": text}
    c01_impl.py <repo> lexpairs    case = {"a": text, "b": text}        (adjacency sweep on the real lexer)
    c01_impl.py <repo> grammar     (no stdin) dumps the productions of the repo grammar as JSON

explore:  text --parse--> T1 --print(mode)--> S1 --parse--> T2 --print(mode)--> S2   for every
          printer mode applicable to the entry point; monitors (evaluated on the real code only):
            reparse   S1 is accepted by the same entry point
            same-ast  canon(T2) == canon(T1)     (spans / source-derived text ignored, nothing else)
            idem      S2 == S1 byte for byte
          plus cross-mode token equality of S1 (pretty vs compact differ in whitespace only,
          uppercase differs in keyword case only) as a monitor of the printer modes.
"""
from __future__ import annotations

import enum
import hashlib
import json
import os
import sys

REPO = sys.argv[1] if len(sys.argv) > 1 else os.environ.get('VERIF_REPO', '/repo')
MODE = sys.argv[2] if len(sys.argv) > 2 else 'explore'

HERE = os.path.dirname(os.path.abspath(__file__))
sys.path.insert(0, os.path.join(os.path.dirname(HERE), 'rt'))
os.environ.setdefault('VRT_REPO', REPO)
sys.setrecursionlimit(20000)

import vrt  # noqa: E402

vrt.install()
import edb  # noqa: E402

assert os.path.realpath(edb.__path__[0]).startswith(os.path.realpath(REPO)), (edb.__path__, REPO)

from edb import errors  # noqa: E402
from edb.common import ast as cast  # noqa: E402
from edb.edgeql import ast as qlast  # noqa: E402
from edb.edgeql import codegen as qlcodegen  # noqa: E402
from edb.edgeql import parser as qlparser  # noqa: E402
from edb.edgeql import tokenizer as qltokenizer  # noqa: E402
from edb.edgeql.parser.grammar import tokens as gtokens  # noqa: E402
import edb._edgeql_parser as rust_parser  # noqa: E402

# ------------------------------------------------------------------ production recording

_PRODS: set = set()
_orig_parse = rust_parser.parse


_EDGES: set = set()
_EDGE_POS = None            # {(production id, rhs position)} whose child production is recorded (C01_EDGE_FILE)


def _edge_positions():
    global _EDGE_POS
    if _EDGE_POS is None:
        _EDGE_POS = set()
        f = os.environ.get('C01_EDGE_FILE')
        if f and os.path.exists(f):
            try:
                _EDGE_POS = {(int(a), int(b)) for a, b in json.load(open(f))}
            except Exception:  # noqa: BLE001
                _EDGE_POS = set()
    return _EDGE_POS


def _walk_cst(node, acc):
    stack = [node]
    epos = _edge_positions()
    while stack:
        n = stack.pop()
        p = getattr(n, 'production', None)
        if p is not None:
            acc.add(p.id)
            for i in (getattr(p, '_inlined_ids', None) or ()):
                acc.add(i)
            if epos:
                for i, a in enumerate(p.args):
                    if (p.id, i) in epos:
                        c = getattr(a, 'production', None)
                        if c is not None:
                            inl = getattr(c, '_inlined_ids', None)
                            _EDGES.add((p.id, i, inl[-1] if inl else c.id))
            stack.extend(p.args)


def _recording_parse(start_token_name, tokens):
    res, prods = _orig_parse(start_token_name, tokens)
    try:
        if not res.errors and res.out is not None:
            _walk_cst(res.out, _PRODS)
    except Exception:
        pass
    return res, prods


rust_parser.parse = _recording_parse
qlparser.rust_parser.parse = _recording_parse

ENTRY = {
    'fragment': gtokens.T_STARTFRAGMENT,
    'block': gtokens.T_STARTBLOCK,
    'sdl': gtokens.T_STARTSDLDOCUMENT,
    'migration': gtokens.T_STARTMIGRATION,
    'extension': gtokens.T_STARTEXTENSION,
}

# ------------------------------------------------------------------ canonical AST

SKIP_FIELDS = {'span', 'system_comment'}
# NestedQLBlock.text is the *source text* of the block (cut out by span): derived from the
# input, not part of the program; its commands are compared.
SKIP_BY_CLASS = {'NestedQLBlock': {'text'}}


def canon(x):
    if isinstance(x, cast.AST):
        name = type(x).__name__
        skip = SKIP_BY_CLASS.get(name, ())
        out = [name]
        for f in x._fields:
            if f in SKIP_FIELDS or f in skip:
                continue
            v = getattr(x, f, None)
            c = canon(v)
            if c is None or c == [] or c == {}:
                # unset / empty: a field that is None vs [] is not a difference of the program
                # the printer could ever express; recorded as absent.
                continue
            out.append([f, c])
        return out
    if isinstance(x, (list, tuple)) and not hasattr(x, '_fields'):
        return [canon(v) for v in x]
    if isinstance(x, tuple):  # NamedTuple (migration / extension bodies)
        return [type(x).__name__] + [[f, canon(getattr(x, f))] for f in x._fields]
    if isinstance(x, dict):
        return {'__dict__': [{'k': canon(k), 'v': canon(v)} for k, v in x.items()]}
    if isinstance(x, (set, frozenset)):
        return {'__set__': sorted(json.dumps(canon(v), sort_keys=True) for v in x)}
    if isinstance(x, enum.Enum):
        return f'{type(x).__name__}.{x.name}'
    if isinstance(x, bytes):
        return {'__bytes__': x.hex()}
    if isinstance(x, (str, int, bool, float)) or x is None:
        return x
    return {'__repr__': repr(x)}


# ------------------------------------------------------------------ documented normalisations
# Each rule identifies two parser outputs that denote the same program *by construction of the
# grammar / by upstream's own expectation*; nothing else is identified.
#  N1  `CREATE <ptr|global|alias> n { USING (e) }`  ==  `CREATE ... n := e`: the block form stores e in
#      .target AND as the single command SetField(expr); the `:=` form only in .target.  The command is
#      dropped only when its value is identical to .target.
#  N2  a Shape with no elements == its subject  (upstream test_edgeql_syntax_shape_64 expects `Foo{}` -> `Foo`);
#      N2': the path that results is flattened the way the grammar flattens it: `(a.b {}).c` == `a.b.c`, `(.a {}).c` == `.a.c`;
#      N2'': the sign is folded the way the grammar folds it: `-(1 {})` == `-1`;
#      N2-3: indirections are flattened the way the grammar flattens them: `x[1] {}[2]` == `x[1][2]`
#  N3  CreateMigration.parent ObjectRef('initial')  ==  no parent (edb/schema/migrations.py treats them alike)
#  N4  trigger / rewrite / access-policy kind lists are sets (printed sorted, duplicates merged)
#  N5  (inside an SDL Schema node, printer not `unsorted`) the order of declarations / commands in a body is
#      not significant: SDL is declarative and the printer sorts SDL bodies by design.
#  N6  the name of a rewrite is derived by the grammar from its kinds ('/'.join(kinds)); kinds are a set (N4)

SETLIKE = {'kinds', 'access_kinds'}


def normalise(n, sort_schema=False, in_schema=False):
    if _is_node(n):
        name = n[0]
        inside = in_schema or name == 'Schema'
        fields = [[k, normalise(v, sort_schema, inside)] for k, v in n[1:]]
        d = dict((k, v) for k, v in fields)
        if name == 'Shape' and 'elements' not in d and 'expr' in d:
            return d['expr']                                                    # N2
        if name == 'Indirection' and _is_node(d.get('arg')) and d['arg'][0] == 'Indirection' \
                and isinstance(d.get('indirection'), list) and isinstance(nfields(d['arg']).get('indirection'), list):
            # N2-3 (never produced by the parser itself: reduce_Expr_IndirectionEl appends to an Indirection operand, also
            # through parentheses; only N2 exposes it): `x[1] {}[2]` == `x[1][2]`
            inner = nfields(d['arg'])
            fields = [[k, inner['arg'] if k == 'arg' else (inner['indirection'] + v if k == 'indirection' else v)] for k, v in fields]
            d = dict((k, v) for k, v in fields)
        if name == 'UnaryOp' and d.get('op') == '-' and _is_node(d.get('operand')) and d['operand'][0] == 'Constant' \
                and nfields(d['operand']).get('kind') in NUMKINDS and isinstance(nfields(d['operand']).get('value'), str):
            # N2'' (never produced by the parser itself: reduce_MINUS_Expr folds the sign into every numeric constant;
            # only N2 exposes it): `-(1 {})` == `-1`
            return nrepl(d['operand'], 'value', '-' + nfields(d['operand'])['value'])
        if name == 'Path' and isinstance(d.get('steps'), list) and d['steps'] and _is_node(d['steps'][0]) \
                and d['steps'][0][0] == 'Path' and len(d['steps']) > 1 \
                and not (d.get('partial') and nfields(d['steps'][0]).get('partial')):
            # N2' (never produced by the parser itself, only by N2): `(a.b {}).c` == `a.b.c`, and with a partial
            # subject `(.a {}).c` == `.a.c` (the printer writes `(.a).c`, which the grammar reads as one partial path)
            innerd = nfields(d['steps'][0])
            inner = innerd.get('steps') or []
            fields = [[k, (inner + v[1:]) if k == 'steps' else v] for k, v in fields]
            if innerd.get('partial'):
                if any(k == 'partial' for k, _ in fields):
                    fields = [[k, True if k == 'partial' else v] for k, v in fields]
                else:
                    fields = fields + [['partial', True]]
            d = dict((k, v) for k, v in fields)
        if 'commands' in d and 'target' in d and isinstance(d['commands'], list) and len(d['commands']) == 1:
            c = d['commands'][0]
            if _is_node(c) and c[0] == 'SetField':
                cd = dict((k, v) for k, v in c[1:])
                if cd.get('name') == 'expr' and cd.get('value') == d['target']:
                    fields = [[k, v] for k, v in fields if k != 'commands']      # N1
        if name == 'CreateMigration' and _is_node(d.get('parent')) and d['parent'][0] == 'ObjectRef':
            pd = dict((k, v) for k, v in d['parent'][1:])
            if isinstance(pd.get('name'), str) and pd['name'].lower() == 'initial' and 'module' not in pd:
                fields = [[k, v] for k, v in fields if k != 'parent']            # N3
        if name in ('CreateRewrite', 'AlterRewrite', 'DropRewrite') and 'kinds' in d:
            fields = [[k, v] for k, v in fields if k != 'name']                  # N6
        out = [name]
        for k, v in fields:
            if k in SETLIKE and isinstance(v, list):
                v = sorted(set(json.dumps(z) for z in v))                       # N4
            if sort_schema and inside and k in ('commands', 'declarations') and isinstance(v, list):
                v = sorted(v, key=lambda z: json.dumps(z, sort_keys=True))      # N5
            out.append([k, v])
        return out
    if isinstance(n, list):
        return [normalise(v, sort_schema, in_schema) for v in n]
    if isinstance(n, dict):
        return {k: normalise(v, sort_schema, in_schema) for k, v in n.items()}
    return n


def sig_of_path(p):
    import re as _re
    p = _re.sub(r'\[\d+\]', '[]', p)
    parts = [x for x in p.split('/') if x]
    return '/'.join(parts[-2:]) if parts else ''


# ------------------------------------------------------------------ structural classification
# of an AST difference (a = from the input, b = from the re-parsed print).  Used only to
# recognise *listed* known findings precisely; an unclassified difference is a plain violation.

SPINE = {'UnaryOp': 'operand', 'TypeCast': 'expr', 'DetachedExpr': 'expr', 'Introspect': 'type',
         'TypeOf': 'expr'}
NUMKINDS = {'ConstantKind.INTEGER', 'ConstantKind.FLOAT', 'ConstantKind.BIGINT', 'ConstantKind.DECIMAL'}


def nfields(n):
    return dict((k, v) for k, v in n[1:])


def nrepl(n, key, val):
    out = [n[0]]
    done = False
    for k, v in n[1:]:
        if k == key:
            out.append([k, val])
            done = True
        else:
            out.append([k, v])
    if not done:
        out.append([key, val])
    return out


def same_node(a, b):
    """equality up to field order"""
    if _is_node(a) and _is_node(b):
        if a[0] != b[0]:
            return False
        da, db = nfields(a), nfields(b)
        if set(da) != set(db):
            return False
        return all(same_node(da[k], db[k]) for k in da)
    if isinstance(a, list) and isinstance(b, list):
        return len(a) == len(b) and all(same_node(x, y) for x, y in zip(a, b))
    return a == b


def spine_wraps(L, wrap, depth=0):
    """all trees obtained from L by replacing a proper right-spine descendant x by wrap(x)"""
    if depth > 40 or not _is_node(L):
        return
    cls = L[0]
    if cls in SPINE:
        d = nfields(L)
        child = d.get(SPINE[cls])
        if child is not None:
            yield nrepl(L, SPINE[cls], wrap(child))
            for v in spine_wraps(child, wrap, depth + 1):
                yield nrepl(L, SPINE[cls], v)
    elif cls == 'Constant':
        d = nfields(L)
        v = d.get('value')
        if d.get('kind') in NUMKINDS and isinstance(v, str) and v.startswith('-'):
            k = len(v) - len(v.lstrip('-'))
            inner = wrap(nrepl(L, 'value', v[k:]))
            for _ in range(k):
                inner = ['UnaryOp', ['op', '-'], ['operand', inner]]
            yield inner


def subject_head(n, depth=0):
    while _is_node(n) and depth < 60:
        d = nfields(n)
        if n[0] == 'Path' and isinstance(d.get('steps'), list) and d['steps']:
            n = d['steps'][0]
        elif n[0] == 'Indirection' and 'arg' in d:
            n = d['arg']
        elif n[0] == 'Shape' and 'expr' in d:
            n = d['expr']
        else:
            return n
        depth += 1
    return n


LEFT_EDGE = {'BinOp': 'left', 'IsOp': 'left', 'TypeOp': 'left', 'Shape': 'expr'}


def left_edge_variants(a):
    """a = C[L] with L at the left edge (through BinOp/IsOp/TypeOp.left, Shape.expr, python-style
    IfElse.if_expr); yields (kind of the node holding L, tree) for every tree S1[C[S2-rest]] obtained
    by hoisting a right-spine prefix form of L over the context C."""
    path = []          # [(node, field)]
    cur = a
    for _ in range(40):
        if not _is_node(cur):
            break
        cls = cur[0]
        fld = LEFT_EDGE.get(cls)
        if cls == 'IfElse' and nfields(cur).get('python_style'):
            fld = 'if_expr'
        if fld is None or fld not in nfields(cur):
            break
        path.append((cur, fld))
        L = nfields(cur)[fld]

        def rebuild(x, path=list(path)):
            for node, f in reversed(path):
                x = nrepl(node, f, x)
            return x
        for v in spine_wraps(L, rebuild):
            yield cls, v
        cur = L


def subject_chain(n):
    out = []
    depth = 0
    while _is_node(n) and depth < 60:
        out.append(n)
        d = nfields(n)
        if n[0] == 'Path' and isinstance(d.get('steps'), list) and d['steps']:
            if len(d['steps']) > 1:
                out.append(nrepl(n, 'steps', d['steps'][:1]))     # the bare head as a one-step path
            n = d['steps'][0]
        elif n[0] == 'Indirection' and 'arg' in d:
            n = d['arg']
        elif n[0] == 'Shape' and 'expr' in d:
            n = d['expr']
        else:
            break
        depth += 1
    return out


def strip_detached(n):
    k = 0
    while _is_node(n) and n[0] == 'DetachedExpr' and 'expr' in nfields(n):
        n = nfields(n)['expr']
        k += 1
    return k, n


def diff_tag1(a, b):
    if not (_is_node(a) and _is_node(b)):
        return None
    for cls, v in left_edge_variants(a):
        if same_node(v, b):
            return 'shape-on-prefix' if cls == 'Shape' else 'prefix-left-operand'
    ha = a if a[0] == 'DetachedExpr' else subject_head(a)
    if _is_node(ha) and ha[0] == 'DetachedExpr':
        ka, q = strip_detached(ha)
        if _is_node(q) and q[0] in ('Path', 'Indirection', 'Shape'):
            hb = b if b[0] == 'DetachedExpr' else subject_head(b)
            h = hb
            for _ in range(ka):                       # strip exactly ka DETACHED levels
                if _is_node(h) and h[0] == 'DetachedExpr' and 'expr' in nfields(h):
                    h = nfields(h)['expr']
                else:
                    h = None
                    break
            if h is not None and any(same_node(h, z) for z in subject_chain(q)[1:]):
                return 'detached-postfix'
    return None


def scrub(n):
    """erase what other, independently recorded findings lose (so that a combination of two known
    defects is still recognised): `<required T>` prints as `<T>`"""
    if _is_node(n):
        out = [n[0]]
        for k, v in n[1:]:
            if n[0] == 'TypeCast' and k == 'cardinality_mod' and v == 'CardinalityModifier.Required':
                continue
            out.append([k, scrub(v)])
        return out
    if isinstance(n, list):
        return [scrub(v) for v in n]
    if isinstance(n, dict):
        return {k: scrub(v) for k, v in n.items()}
    return n


def diff_tag(chain):
    """classify the difference at the innermost ancestor pair where a known structural defect
    explains it exactly"""
    try:
        for a, b in reversed(chain[-8:]):
            t = diff_tag1(a, b)
            if t:
                return t
        for a, b in reversed(chain[-8:]):
            sa, sb = scrub(a), scrub(b)
            if sa != a or sb != b:
                t = diff_tag1(sa, sb)
                if t:
                    return t
    except RecursionError:
        return None
    return None


QUERY_NODES = {'SelectQuery', 'InsertQuery', 'UpdateQuery', 'DeleteQuery', 'ForQuery', 'GroupQuery',
               'InternalGroupQuery'}


def _is_stmt(n):
    return _is_node(n) and n[0] in QUERY_NODES and not (n[0] == 'SelectQuery' and nfields(n).get('implicit'))


def ast_features(c):
    """facts about the input AST that known-finding predicates refer to"""
    feats = set()

    def go(n, depth, tctx):
        if depth > 400:
            return
        if _is_node(n):
            d = nfields(n)
            cls = n[0]
            if cls == 'UnaryOp' and d.get('op') == '+' and _is_node(d.get('operand')) \
                    and d['operand'][0] == 'UnaryOp' and nfields(d['operand']).get('op') == '+':
                feats.add('nested-unary-plus')
            if cls == 'TypeCast' and d.get('cardinality_mod') == 'CardinalityModifier.Required':
                feats.add('typecast-required')
            if cls == 'BytesConstant' and isinstance(d.get('value'), dict):
                hx = d['value'].get('__bytes__', '')
                if '5c' in [hx[i:i + 2] for i in range(0, len(hx), 2)]:
                    feats.add('bytes-backslash')
            if cls == 'Parameter' and isinstance(d.get('name'), str) and d['name'].startswith('`'):
                feats.add('param-backtick')
            if cls.startswith('Alter') and 'commands' not in d:
                feats.add('alter-empty')
            if cls == 'NestedQLBlock':
                feats.add('nested-ql-block')
            if cls == 'Shape' and 'expr' not in d and isinstance(d.get('elements'), list):
                for el in d['elements']:
                    if _is_node(el) and _is_node(nfields(el).get('expr')):
                        st = nfields(nfields(el)['expr']).get('steps')
                        if isinstance(st, list) and st and _is_node(st[0]) and \
                                str(nfields(st[0]).get('name', '')).lower() in ('union', 'except', 'intersect'):
                            feats.add('free-shape-partial-reserved')
            for kf in SETLIKE:
                if isinstance(d.get(kf), list) and len(set(json.dumps(z) for z in d[kf])) != len(d[kf]):
                    feats.add('kinds-duplicate')
            if cls.startswith('CreateConcrete') and d.get('declared_overloaded') is True and _is_node(d.get('target')) \
                    and not d['target'][0].startswith('Type'):
                feats.add('sdl-overloaded-computed')
            if cls == 'CreateLink' and isinstance(d.get('commands'), list) and any(
                    _is_node(z) and z[0] == 'CreateConcreteUnknownPointer' and _is_node(nfields(z).get('target'))
                    and not nfields(z)['target'][0].startswith('Type') for z in d['commands']):
                feats.add('link-unknown-pointer-computed')
            if cls == 'CreateOperator' and 'commands' in d and _is_node(d.get('returning')) and d['returning'][0] == 'TypeOf':
                feats.add('operator-returning-typeof-block')
            if cls == 'CreateTrigger' and _is_node(d.get('name')) and 'module' in nfields(d['name']):
                feats.add('trigger-qualified-name')
            if cls == 'CreateIndex' and isinstance(d.get('kwargs'), dict) and any(
                    _is_stmt(z.get('v')) for z in d['kwargs'].get('__dict__', []) if isinstance(z, dict)):
                feats.add('abstract-index-kwarg-statement')
            if cls == 'CreateOperator' and 'commands' not in d and _is_node(d.get('code')):
                cd_ = nfields(d['code'])
                if sum(1 for z in ('from_operator', 'from_function', 'code') if z in cd_) >= 2:
                    feats.add('operator-multi-using-bare')
            if cls in ('CreateFunction', 'AlterFunction') and _is_node(d.get('code')):
                cd_ = nfields(d['code'])
                if 'from_function' in cd_ and ('code' in cd_ or 'nativecode' in d):
                    feats.add('function-from-function-plus-body')
                if cd_.get('from_expr') is True and ('code' in cd_ or 'nativecode' in d):
                    feats.add('function-from-expr-plus-body')
                if isinstance(cd_.get('code'), str) and 'nativecode' not in d and str(cd_.get('language', '')).lower().endswith('edgeql') \
                        and 'from_function' not in cd_ and cd_.get('from_expr') is not True:
                    feats.add('function-edgeql-code-text')
            if cls == 'Shape' and 'elements' not in d:
                feats.add('empty-shape')
            if cls == 'UpdateQuery' and 'shape' not in d:
                feats.add('update-empty-set')
            if cls == 'Splat' and ('intersection' in d or (_is_node(d.get('type')) and not (
                    d['type'][0] == 'TypeName' and 'subtypes' not in nfields(d['type'])
                    and _is_node(nfields(d['type']).get('maintype')) and nfields(d['type'])['maintype'][0] == 'ObjectRef'))):
                feats.add('splat-typed')
            if cls == 'InternalGroupQuery':
                feats.add('internal-group')
            if cls == 'TypeOf' and tctx:
                feats.add('typeof-in-type-context')
            if cls in ('CreateAnnotationValue', 'AlterAnnotationValue') and _is_stmt(d.get('value')):
                feats.add('ddl-arg-statement')
            if 'Constraint' in cls and isinstance(d.get('args'), list) and any(_is_stmt(z) for z in d['args']):
                feats.add('ddl-arg-statement')
            if 'Index' in cls and isinstance(d.get('kwargs'), dict) and any(
                    _is_stmt(z.get('v')) for z in d['kwargs'].get('__dict__', []) if isinstance(z, dict)):
                feats.add('ddl-arg-statement')
            for k2, v2 in n[1:]:
                if isinstance(v2, str) and k2 in ('value', 'code', 'from_function', 'from_expr'):
                    if cls != 'Constant' or d.get('kind') == 'ConstantKind.STRING':
                        if v2.endswith('$'):
                            feats.add('string-dollar-tail')
                        if any(0x202a <= ord(ch) <= 0x202e or 0x2066 <= ord(ch) <= 0x2069 for ch in v2):
                            feats.add('string-bidi')
                        if any(0x80 <= ord(ch) <= 0x9f for ch in v2):
                            feats.add('string-c1')
            for k, v in n[1:]:
                t2 = tctx
                if (cls == 'TypeCast' and k == 'type') or k in ('target', 'subtypes', 'bases'):
                    t2 = True
                if cls == 'TypeOf':
                    t2 = False
                go(v, depth + 1, t2)
        elif isinstance(n, list):
            for v in n:
                go(v, depth + 1, tctx)
        elif isinstance(n, dict):
            for v in n.values():
                go(v, depth + 1, tctx)
    go(c, 0, False)
    return sorted(feats)


def head_of(x):
    if _is_node(x):
        h = x[0]
        d = dict((k, v) for k, v in x[1:])
        if h in ('BinOp', 'UnaryOp', 'IsOp', 'TypeOp') and isinstance(d.get('op'), str):
            h += '(' + d['op'] + ')'
        return h
    if x is None:
        return 'None'
    if isinstance(x, list):
        return 'list'
    if isinstance(x, bool):
        return str(x)
    return type(x).__name__


def _is_node(n):
    return isinstance(n, list) and bool(n) and isinstance(n[0], str) and \
        all(isinstance(z, list) and len(z) == 2 and isinstance(z[0], str) for z in n[1:])


def chash(c):
    return hashlib.sha256(json.dumps(c, sort_keys=True, default=str).encode()).hexdigest()[:16]


def first_diff(a, b, path='', chain=None):
    """smallest path at which two canonical trees differ -> (path, a, b); `chain` (if a list)
    collects the (a, b) node pairs from the root down to the difference"""
    if chain is not None and _is_node(a) and _is_node(b):
        chain.append((a, b))
    if type(a) is not type(b):
        return path, a, b
    if isinstance(a, list):
        if _is_node(a) and _is_node(b):
            if a[0] != b[0]:
                return path, a, b
            da, db = dict((k, v) for k, v in a[1:]), dict((k, v) for k, v in b[1:])
            for k in list(da) + [k for k in db if k not in da]:
                if k not in da or k not in db:
                    return f'{path}/{a[0]}.{k}', da.get(k), db.get(k)
                if da[k] != db[k]:
                    return first_diff(da[k], db[k], f'{path}/{a[0]}.{k}', chain)
            return path, a, b
        if len(a) != len(b):
            return path + '[len]', a, b
        for i, (x, y) in enumerate(zip(a, b)):
            if x != y:
                return first_diff(x, y, f'{path}[{i}]', chain)
        return path, a, b
    if isinstance(a, dict):
        for k in a:
            if k not in b or a[k] != b[k]:
                return first_diff(a[k], b.get(k), f'{path}{{{k}}}', chain)
    return path, a, b


def short(x, n=400):
    s = x if isinstance(x, str) else json.dumps(x, default=str)
    return s if len(s) <= n else s[:n] + '...'


# ------------------------------------------------------------------ structure statistics

OPNODES = ('BinOp', 'UnaryOp', 'IsOp', 'TypeOp', 'IfElse', 'TypeCast', 'DetachedExpr', 'Indirection',
           'Shape', 'Path', 'Introspect', 'GlobalExpr', 'TypeOf')


def oplabel(c):
    name = c[0]
    d = dict((k, v) for k, v in c[1:] if isinstance(k, str))
    if name in ('BinOp', 'UnaryOp', 'IsOp', 'TypeOp'):
        return f'{name}:{d.get("op")}'
    if name == 'IfElse':
        return 'IfElse:py' if d.get('python_style') else 'IfElse:new'
    if name == 'Constant':
        v = d.get('value')
        if isinstance(v, str) and v.startswith('-') and d.get('kind') != 'ConstantKind.STRING':
            return 'NegConst'
    return name


def stats(c, acc):
    """collect node classes, operator pairs (parent op, field, child op), depth"""
    def go(n, depth):
        if isinstance(n, list):
            if n and isinstance(n[0], str) and all(isinstance(z, list) and len(z) == 2 for z in n[1:]):
                name = n[0]
                acc['nodes'].add(name)
                acc['depth'] = max(acc['depth'], depth)
                lab = oplabel(n) if (name in OPNODES or name == 'Constant') else None
                if name in OPNODES:
                    acc['nops'] += 1
                for k, v in n[1:]:
                    if lab is not None and name in OPNODES and isinstance(v, list) and v and isinstance(v[0], str):
                        cl = oplabel(v) if (v[0] in OPNODES or v[0] == 'Constant') else None
                        if cl is not None and (v[0] in OPNODES or cl == 'NegConst'):
                            acc['pairs'].add(f'{lab}|{k}|{cl}')
                    go(v, depth + 1)
            else:
                for v in n:
                    go(v, depth)
        elif isinstance(n, dict):
            for v in n.values():
                go(v, depth)
    go(c, 0)


# ------------------------------------------------------------------ explore

def parse_entry(entry, text):
    if entry == 'migration':
        return qlparser.parse_migration_body_block(text)
    if entry == 'extension':
        return qlparser.parse_extension_package_body_block(text)
    return qlparser.parse(ENTRY[entry], text)


def printable(entry, tree):
    """what is handed to generate_source for a parse result of this entry point"""
    if entry in ('migration', 'extension'):
        body, fields = tree
        return list(fields) + list(body.commands)
    return tree


def reparse_entry(entry, text):
    return parse_entry(entry, text)


def modes_for(entry):
    """printer modes exercised per entry point.  Modes whose name starts with `info:` are measured
    but never alarm: descmode without sdlmode is DESCRIBE ... AS TEXT output for humans (prints
    `using extension x` for CREATE EXTENSION by design) and is not meant to be parsed as DDL."""
    ms = [('pretty', dict(pretty=True)), ('compact', dict(pretty=False)),
          ('upper', dict(pretty=True, uppercase=True)), ('upper-compact', dict(pretty=False, uppercase=True))]
    if entry == 'sdl':
        ms += [('unsorted', dict(pretty=True, unsorted=True)),
               ('unsorted-compact', dict(pretty=False, unsorted=True)),
               ('sdl-desc', dict(pretty=True, sdlmode=True, descmode=True)),
               ('sdl-desc-unsorted', dict(pretty=True, sdlmode=True, descmode=True, unsorted=True))]
    else:
        ms += [('info:descmode', dict(pretty=True, descmode=True))]
    return ms


def lex_kinds(text):
    r = rust_parser.tokenize(text)
    if r.errors:
        return None
    return [(t.kind, t.text) for t in r.out]


def norm_tokens(toks):
    """token stream up to letter case outside string / bytes literals (cross-mode monitor)"""
    out = []
    for kind, text in toks:
        if kind.startswith('Str') or kind == 'BinStr':
            out.append((kind, text))
        else:
            out.append((kind, text.lower()))
    return out


def msg_sig(e):
    import re as _re
    m = _re.sub(r"0x[0-9a-fA-F]+", '0x', str(e))
    m = _re.sub(r"\d+", '#', m)
    return type(e).__name__ + ':' + m[:60]


def tb_site(e):
    import traceback
    tb = traceback.extract_tb(e.__traceback__)
    for fr in reversed(tb):
        if fr.filename.endswith('codegen.py'):
            return fr.name
    return tb[-1].name if tb else '?'


class Reject(Exception):
    pass


def explore_one(entry, text):
    res = {'acc': 0}
    _PRODS.clear()
    _EDGES.clear()
    try:
        t1 = parse_entry(entry, text)
    except errors.EdgeQLSyntaxError as e:
        res['rej'] = short(str(e), 160)
        return res
    except errors.EdgeDBError as e:
        res['rej'] = type(e).__name__ + ': ' + short(str(e), 160)
        return res
    except RecursionError:
        res['rej'] = 'RecursionError'
        return res
    except Exception as e:   # parser crashed: not "accepted"; reported separately
        res['crash'] = type(e).__name__ + ': ' + short(str(e), 200)
        return res
    res['acc'] = 1
    res['prods'] = sorted(_PRODS)
    if _EDGES:
        res['edges'] = sorted(_EDGES)
    c1raw = canon(t1)
    c1 = normalise(c1raw)
    c1s = None
    res['h'] = chash(c1)
    acc = {'nodes': set(), 'pairs': set(), 'depth': 0, 'nops': 0}
    stats(c1raw, acc)
    res['feats'] = ast_features(c1raw)
    res['nodes'] = sorted(acc['nodes'])
    res['pairs'] = sorted(acc['pairs'])
    res['depth'] = acc['depth']
    res['nops'] = acc['nops']
    fails = []
    outs = {}
    for mname, kw in modes_for(entry):
        try:
            s1 = qlcodegen.generate_source(printable(entry, t1), **kw)
        except RecursionError:
            continue
        except Exception as e:
            fails.append({'mode': mname, 'kind': 'print-error', 'sig': msg_sig(e) + '@' + tb_site(e),
                          'detail': type(e).__name__ + ': ' + short(str(e), 200)})
            continue
        outs[mname] = s1
        try:
            t2 = reparse_entry(entry, s1)
        except (errors.EdgeDBError,) as e:
            fails.append({'mode': mname, 'kind': 'reparse', 'printed': short(s1, 1500),
                          'sig': msg_sig(e),
                          'detail': type(e).__name__ + ': ' + short(str(e), 200)})
            continue
        except RecursionError:
            continue
        except Exception as e:
            fails.append({'mode': mname, 'kind': 'reparse', 'printed': short(s1, 1500),
                          'detail': 'CRASH ' + type(e).__name__ + ': ' + short(str(e), 200)})
            continue
        c2raw = canon(t2)
        sorts = not kw.get('unsorted')
        if sorts:
            if c1s is None:
                c1s = normalise(c1raw, True)
            ca, cb = c1s, normalise(c2raw, True)
        else:
            ca, cb = c1, normalise(c2raw)
        if ca != cb:
            chain = []
            p, a, b = first_diff(ca, cb, '', chain)
            fails.append({'mode': mname, 'kind': 'same-ast', 'printed': short(s1, 1500),
                          'sig': sig_of_path(p) + '|' + head_of(a) + '>' + head_of(b),
                          'tag': diff_tag(chain),
                          'a': short(a, 200), 'b': short(b, 200),
                          'detail': f'at {p}: {short(a, 300)}  -->  {short(b, 300)}'})
            continue
        try:
            s2 = qlcodegen.generate_source(printable(entry, t2), **kw)
        except Exception as e:
            fails.append({'mode': mname, 'kind': 'print-error', 'detail': 'second print: ' + type(e).__name__})
            continue
        if s2 != s1 and ('empty-shape' in res['feats'] or 'kinds-duplicate' in res['feats']):
            # (N4/N6: a kind list with duplicates -- `rewrite insert, update, update` -- gives the rewrite a different derived
            # name, hence a different place in a sorted SDL body, than the list the parser reads back)
            # N2/N2' changed the tree (`(.a {}).b` is printed `(.a).b`, which the grammar reads as the one partial path
            # `.a.b`): the first print is made from a tree the parser never builds again, so byte stability is asked
            # of the NEXT round instead: print(parse(S2)) == S2 and the same (normalised) tree.
            try:
                t3 = reparse_entry(entry, s2)
                s3 = qlcodegen.generate_source(printable(entry, t3), **kw)
                if s3 == s2 and normalise(canon(t3), sorts) == cb:
                    res['n2_second_round'] = res.get('n2_second_round', 0) + 1
                    continue
            except Exception:  # noqa: BLE001
                pass
        if s2 != s1:
            ws = lex_kinds(s1) == lex_kinds(s2)
            fails.append({'mode': mname, 'kind': 'idem', 'sig': 'ws-only' if ws else 'tokens-differ',
                          'printed': short(s1, 800), 'detail': short(s2, 800)})
    # cross-mode: pretty vs compact vs uppercase print the same token stream
    for basename, others in (('pretty', ('compact', 'upper', 'upper-compact')), ('unsorted', ('unsorted-compact',))):
        base = outs.get(basename)
        if base is None:
            continue
        bt = lex_kinds(base)
        if bt is None:
            continue
        nb = norm_tokens(bt)
        for other in others:
            if other in outs:
                ot = lex_kinds(outs[other])
                if ot is not None and norm_tokens(ot) != nb:
                    fails.append({'mode': other, 'kind': 'mode-tokens', 'sig': basename,
                                  'printed': short(outs[other], 800), 'detail': short(base, 800)})
    if fails:
        res['fail'] = fails
    res['out'] = short(outs.get('compact', ''), 300)
    return res


def main_explore():
    for line in sys.stdin:
        line = line.rstrip('\n')
        if not line:
            print('{}')
            continue
        case = json.loads(line)
        try:
            r = explore_one(case['e'], case['t'])
        except RecursionError:
            r = {'acc': 0, 'rej': 'RecursionError'}
        sys.stdout.write(json.dumps(r) + '\n')


def main_grammar():
    from edb.common import parsing as edb_parsing
    import importlib
    mod = importlib.import_module('edb.edgeql.parser.grammar.start')
    spec = edb_parsing.load_parser_spec(mod)
    prods = []
    for p in spec._productions:
        prods.append({'lhs': p.lhs.name, 'rhs': [s.name for s in p.rhs],
                      'term': [isinstance(s, type(spec._eoi)) for s in p.rhs],
                      'method': getattr(p.method, '__name__', str(p.method)),
                      'qual': list(str(getattr(p, 'qualified', '')).split('.')[-2:]),
                      'inline': getattr(p.method, 'inline_index', None),
                      'prec': p.prec.name if p.prec is not None else None})
    toks = {n: (t.prec.name if t.prec is not None else None) for n, t in spec._tokens.items()}
    precs = {n: {'assoc': p.assoc, 'rel': {k: v for k, v in p.relationships.items()}}
             for n, p in spec._precedences.items()}
    # production ids as used by the driver (index into production_names)
    rspec, _ = rust_parser._get_spec() if rust_parser._SPEC is not None else (None, None)
    if rspec is None:
        qlparser.preload_spec()
        rspec, _ = rust_parser._get_spec()
    from edb.edgeql.parser.grammar import keywords as gkw
    from edb.common import parsing as _ep
    lextok = {}
    for lt, cls in _ep.Token.token_map.items():
        nm = cls.__name__[2:] if cls.__name__.startswith('T_') else cls.__name__
        lextok[nm] = lt
    kwtext = {tn: kw for kw, (tn, _typ) in gkw.edgeql_keywords.items()}
    kwtype = {tn: _typ for kw, (tn, _typ) in gkw.edgeql_keywords.items()}
    json.dump({'productions': prods, 'tokens': toks, 'precedences': precs,
               'lextoken': lextok, 'kwtext': kwtext, 'kwtype': kwtype,
               'production_names': [list(x) for x in rspec.production_names],
               'start': spec._userStartSym.name if spec._userStartSym else None}, sys.stdout)


# ------------------------------------------------------------------ core correspondence
# Terms of coq/theories/C01/Model.v in prefix notation (see ocaml/c01_main.ml):
#   C k nneg v | P i | R m n k step* | Q k step* | X e k step* | U op e | B oid l r | I neg l type |
#   F py c a b | S T|A|S k e* | N k (n e)* | K m f ka e* kk (n e)* | T 0|1|2 type e | D k e (sl a? b?)* |
#   A e | G m n | H e k (n e?)*        step: p bw n | a n | i type     type: n m n | c m n k type*
# Leaves are indexes into the tables below (the model treats them as opaque numbers).

NAMES = ['x', 'y', 'z', 'Foo', 'bar', 'a1', 'std', 'T', 'U', 'my_mod', 'f', 'g', 'w', 'my name', 'select', 'é',
         'if', 'a`b', 'Name', 'p', 'q', 'k', '1st', 'array', 'tuple', 'int64', 'str', 'dflt', 'else', 'in']
INTS = ['0', '1', '2', '5', '42', '700', '9223372036854775807']
FLOATS = ['1.5', '0.0', '1e10', '2.5e-3']
BIGINTS = ['1n', '0n', '123456789012345678901234567890n']
DECIMALS = ['1.5n', '2.5e-3n', '0.0n']
STRS = ['abc', '', "it's", 'say "hi"', 'a\\b', 'both \' and "', 'multi\nline', '$$', 'tab\there', 'ünï', 'x$']
BYTESV = [b'ab', b'', b'\x00\xff', b"q'q", b'a\\b', b'\n']
PARAMS = ['x', '0', '1', 'abc', '_', 'p1']
NUMTAB = {'i': INTS, 'f': FLOATS, 'n': BIGINTS, 'd': DECIMALS}
NUMKIND = {'i': 'INTEGER', 'f': 'FLOAT', 'n': 'BIGINT', 'd': 'DECIMAL'}
UNOPS = {'+': '+', '-': '-', 'N': 'NOT', 'E': 'EXISTS', 'D': 'DISTINCT'}

_MAN = None


def manifest():
    global _MAN
    if _MAN is None:
        p = os.path.join(os.path.dirname(os.path.dirname(HERE)), 'coq', 'theories', 'C01', 'Gen_Grammar.manifest.json')
        _MAN = json.load(open(p))
        _MAN['text2sym'] = {t.lower(): _MAN['symbols'][n] for n, t in _MAN['symbol_text'].items()}
    return _MAN


class Unsupported(Exception):
    pass


class TermReader:
    def __init__(self, toks):
        self.t = toks
        self.i = 0

    def nxt(self):
        v = self.t[self.i]
        self.i += 1
        return v

    def opt_name(self):
        v = self.nxt()
        return None if v == '-' else NAMES[int(v)]

    def typ(self):
        from edb.edgeql import ast as q
        k = self.nxt()
        m = self.opt_name()
        n = NAMES[int(self.nxt())]
        ref = q.ObjectRef(name=n, module=m)
        if k == 'n':
            return q.TypeName(maintype=ref)
        cnt = int(self.nxt())
        return q.TypeName(maintype=ref, subtypes=[self.typ() for _ in range(cnt)])

    def step(self):
        from edb.schema import pointers as s_pointers
        k = self.nxt()
        if k == 'p':
            bw = self.nxt() == '1'
            return qlast.Ptr(name=NAMES[int(self.nxt())],
                             direction=s_pointers.PointerDirection.Inbound if bw else s_pointers.PointerDirection.Outbound)
        if k == 'a':
            return qlast.Ptr(name=NAMES[int(self.nxt())], direction=s_pointers.PointerDirection.Outbound, type='property')
        return qlast.TypeIntersection(type=self.typ())

    def opt(self):
        if self.t[self.i] == '_':
            self.i += 1
            return None
        return self.expr()

    def expr(self):
        q = qlast
        k = self.nxt()
        if k == 'C':
            kind, nneg, v = self.nxt(), int(self.nxt()), int(self.nxt())
            if kind == 's':
                return q.Constant.string(STRS[v])
            if kind == 'b':
                return q.BytesConstant(value=BYTESV[v])
            if kind == 't':
                return q.Constant.boolean(v != 0)
            return q.Constant(value='-' * nneg + NUMTAB[kind][v], kind=getattr(q.ConstantKind, NUMKIND[kind]))
        if k == 'P':
            return q.Parameter(name=PARAMS[int(self.nxt())])
        if k == 'R':
            m = self.opt_name()
            n = NAMES[int(self.nxt())]
            cnt = int(self.nxt())
            return q.Path(steps=[q.ObjectRef(name=n, module=m)] + [self.step() for _ in range(cnt)])
        if k == 'Q':
            cnt = int(self.nxt())
            return q.Path(steps=[self.step() for _ in range(cnt)], partial=True)
        if k == 'X':
            e = self.expr()
            cnt = int(self.nxt())
            return q.Path(steps=[e] + [self.step() for _ in range(cnt)])
        if k == 'U':
            op = UNOPS[self.nxt()]
            return q.UnaryOp(op=op, operand=self.expr())
        if k == 'B':
            op = manifest()['operators'][int(self.nxt())]
            l = self.expr()
            r = self.expr()
            return q.BinOp(left=l, op=op, right=r)
        if k == 'I':
            neg = self.nxt() == '1'
            l = self.expr()
            return q.IsOp(left=l, op='IS NOT' if neg else 'IS', right=self.typ())
        if k == 'F':
            py = self.nxt() == '1'
            c, a, b = self.expr(), self.expr(), self.expr()
            return q.IfElse(condition=c, if_expr=a, else_expr=b, python_style=py)
        if k == 'S':
            kind, cnt = self.nxt(), int(self.nxt())
            es = [self.expr() for _ in range(cnt)]
            return {'T': q.Tuple, 'A': q.Array, 'S': q.Set}[kind](elements=es)
        if k == 'N':
            cnt = int(self.nxt())
            els = []
            for _ in range(cnt):
                n = NAMES[int(self.nxt())]
                els.append(q.TupleElement(name=q.Ptr(name=n), val=self.expr()))
            return q.NamedTuple(elements=els)
        if k == 'K':
            m = self.opt_name()
            f = NAMES[int(self.nxt())]
            ka = int(self.nxt())
            args = [self.expr() for _ in range(ka)]
            kk = int(self.nxt())
            kw = {}
            for _ in range(kk):
                n = NAMES[int(self.nxt())]
                kw[n] = self.expr()
            return q.FunctionCall(func=(m, f) if m is not None else f, args=args, kwargs=kw)
        if k == 'T':
            cm = {'0': None, '1': q.CardinalityModifier.Optional, '2': q.CardinalityModifier.Required}[self.nxt()]
            t = self.typ()
            return q.TypeCast(type=t, expr=self.expr(), cardinality_mod=cm)
        if k == 'D':
            cnt = int(self.nxt())
            e = self.expr()
            ixs = []
            for _ in range(cnt):
                sl = self.nxt() == '1'
                a, b = self.opt(), self.opt()
                ixs.append(q.Slice(start=a, stop=b) if sl else q.Index(index=a))
            return q.Indirection(arg=e, indirection=ixs)
        if k == 'A':
            return q.DetachedExpr(expr=self.expr())
        if k == 'G':
            m = self.opt_name()
            return q.GlobalExpr(name=q.ObjectRef(name=NAMES[int(self.nxt())], module=m))
        if k == 'H':
            from edb.schema import pointers as s_pointers
            e = self.expr()
            cnt = int(self.nxt())
            els = []
            for _ in range(cnt):
                n = NAMES[int(self.nxt())]
                c = self.opt()
                path = q.Path(steps=[q.Ptr(name=n, direction=s_pointers.PointerDirection.Outbound)])
                if c is None:
                    els.append(q.ShapeElement(expr=path))
                else:
                    els.append(q.ShapeElement(expr=path, compexpr=c,
                                              operation=q.ShapeOperation(op=q.ShapeOp.ASSIGN)))
            return q.Shape(expr=e, elements=els)
        raise ValueError('bad term tag ' + k)


def _idx(tab, v):
    try:
        return tab.index(v)
    except ValueError:
        raise Unsupported(f'leaf {v!r}')


def _only(node, allowed):
    """all fields outside `allowed` must have their default / empty value"""
    for f, fld in node._fields.items():
        if f in allowed or f in SKIP_FIELDS:
            continue
        v = getattr(node, f, None)
        if v is None or v == [] or v == {} or v is False:
            continue
        if fld.default is not None and v == fld.default:
            continue
        raise Unsupported(f'{type(node).__name__}.{f}')


def t_name(m, n):
    return ('-' if m is None else str(_idx(NAMES, m))) + ' ' + str(_idx(NAMES, n))


def t_type(t):
    q = qlast
    if type(t) is not q.TypeName or type(t.maintype) is not q.ObjectRef:
        raise Unsupported('type ' + type(t).__name__)
    _only(t, {'maintype', 'subtypes'})
    _only(t.maintype, {'name', 'module'})
    if t.subtypes is None:
        return 'n ' + t_name(t.maintype.module, t.maintype.name)
    return 'c ' + t_name(t.maintype.module, t.maintype.name) + f' {len(t.subtypes)} ' + ' '.join(t_type(x) for x in t.subtypes)


def t_step(s):
    q = qlast
    if type(s) is q.Ptr:
        if s.type == 'property':
            return 'a ' + str(_idx(NAMES, s.name))
        if s.type is not None:
            raise Unsupported('ptr type')
        d = str(s.direction) if s.direction is not None else '>'
        return 'p ' + ('1' if d == '<' else '0') + ' ' + str(_idx(NAMES, s.name))
    if type(s) is q.TypeIntersection:
        return 'i ' + t_type(s.type)
    raise Unsupported('step ' + type(s).__name__)


def t_opt(e):
    return '_' if e is None else to_term(e)


def to_term(e):
    q = qlast
    ty = type(e)
    if ty is q.Constant:
        k = str(e.kind)
        if k == 'STRING':
            return f'C s 0 {_idx(STRS, e.value)}'
        if k == 'BOOLEAN':
            return f'C t 0 {1 if e.value == "true" else 0}'
        code = {v: kk for kk, v in NUMKIND.items()}[k]
        body = e.value.lstrip('-')
        return f'C {code} {len(e.value) - len(body)} {_idx(NUMTAB[code], body)}'
    if ty is q.BytesConstant:
        return f'C b 0 {_idx(BYTESV, e.value)}'
    if ty is q.Parameter:
        return f'P {_idx(PARAMS, e.name)}'
    if ty is q.Path:
        _only(e, {'steps', 'partial'})
        st = e.steps
        if e.partial:
            return f'Q {len(st)} ' + ' '.join(t_step(s) for s in st)
        h = st[0]
        rest = ' '.join(t_step(s) for s in st[1:])
        if type(h) is q.ObjectRef:
            _only(h, {'name', 'module'})
            return (f'R {t_name(h.module, h.name)} {len(st) - 1} ' + rest).strip()
        return (f'X {to_term(h)} {len(st) - 1} ' + rest).strip()
    if ty is q.UnaryOp:
        inv = {v: k for k, v in UNOPS.items()}
        if e.op not in inv:
            raise Unsupported('unop ' + e.op)
        return f'U {inv[e.op]} {to_term(e.operand)}'
    if ty is q.BinOp:
        _only(e, {'left', 'op', 'right'})
        ops = manifest()['operators']
        if e.op not in ops:
            raise Unsupported('binop ' + e.op)
        return f'B {ops.index(e.op)} {to_term(e.left)} {to_term(e.right)}'
    if ty is q.IsOp:
        return f'I {1 if e.op == "IS NOT" else 0} {to_term(e.left)} {t_type(e.right)}'
    if ty is q.IfElse:
        return f'F {1 if e.python_style else 0} {to_term(e.condition)} {to_term(e.if_expr)} {to_term(e.else_expr)}'
    if ty in (q.Tuple, q.Array, q.Set):
        k = {q.Tuple: 'T', q.Array: 'A', q.Set: 'S'}[ty]
        return (f'S {k} {len(e.elements)} ' + ' '.join(to_term(x) for x in e.elements)).strip()
    if ty is q.NamedTuple:
        return (f'N {len(e.elements)} ' + ' '.join(f'{_idx(NAMES, x.name.name)} {to_term(x.val)}' for x in e.elements)).strip()
    if ty is q.FunctionCall:
        _only(e, {'func', 'args', 'kwargs'})
        m, f = (e.func if isinstance(e.func, tuple) else (None, e.func))
        a = ' '.join(to_term(x) for x in e.args)
        kw = ' '.join(f'{_idx(NAMES, n)} {to_term(x)}' for n, x in e.kwargs.items())
        return ' '.join(z for z in [f'K {t_name(m, f)} {len(e.args)}', a, str(len(e.kwargs)), kw] if z != '')
    if ty is q.TypeCast:
        cm = {None: 0, q.CardinalityModifier.Optional: 1, q.CardinalityModifier.Required: 2}[e.cardinality_mod]
        return f'T {cm} {t_type(e.type)} {to_term(e.expr)}'
    if ty is q.Indirection:
        out = [f'D {len(e.indirection)} {to_term(e.arg)}']
        for ix in e.indirection:
            if type(ix) is q.Index:
                out.append(f'0 {to_term(ix.index)} _')
            elif type(ix) is q.Slice:
                out.append(f'1 {t_opt(ix.start)} {t_opt(ix.stop)}')
            else:
                raise Unsupported('indirection')
        return ' '.join(out)
    if ty is q.DetachedExpr:
        _only(e, {'expr'})
        return f'A {to_term(e.expr)}'
    if ty is q.GlobalExpr:
        if type(e.name) is not q.ObjectRef:
            raise Unsupported('global name')
        return f'G {t_name(e.name.module, e.name.name)}'
    if ty is q.Shape:
        if e.expr is None:
            raise Unsupported('free shape')
        out = [f'H {to_term(e.expr)} {len(e.elements)}']
        for el in e.elements:
            _only(el, {'expr', 'compexpr', 'operation', 'origin'})
            if len(el.expr.steps) != 1 or type(el.expr.steps[0]) is not q.Ptr or el.expr.steps[0].type is not None \
                    or str(el.expr.steps[0].direction or '>') != '>' or el.expr.partial:
                raise Unsupported('shape element path')
            if el.compexpr is not None and el.operation.op is not q.ShapeOp.ASSIGN:
                raise Unsupported('shape op')
            out.append(f'{_idx(NAMES, el.expr.steps[0].name)} {t_opt(el.compexpr)}')
        return ' '.join(out)
    raise Unsupported(ty.__name__)


def model_tokens(text):
    """real lexer -> (items string in the driver's notation, error)"""
    r = rust_parser.tokenize(text)
    if r.errors:
        return None, 'LEXERR ' + short(str(r.errors[0][0]), 80)
    t2s = manifest()['text2sym']
    out = []
    prev_end = None
    for t in r.out:
        kind = t.kind
        if kind == 'EOI':
            continue
        start = t.span_start() if hasattr(t, 'span_start') else getattr(t, 'start', None)
        if prev_end is not None and start is not None and start > prev_end:
            out.append('_')
        prev_end = t.span_end() if hasattr(t, 'span_end') else getattr(t, 'end', None)
        txt = t.text
        if kind == 'Ident':
            v = t.value if isinstance(t.value, str) else txt
            out.append(f'i{NAMES.index(v)}' if v in NAMES else f'?i:{v}')
        elif kind == 'IntConst':
            out.append(f'ni{INTS.index(txt)}' if txt in INTS else f'?n:{txt}')
        elif kind == 'FloatConst':
            out.append(f'nf{FLOATS.index(txt)}' if txt in FLOATS else f'?n:{txt}')
        elif kind == 'BigIntConst':
            out.append(f'nn{BIGINTS.index(txt)}' if txt in BIGINTS else f'?n:{txt}')
        elif kind == 'DecimalConst':
            out.append(f'nd{DECIMALS.index(txt)}' if txt in DECIMALS else f'?n:{txt}')
        elif kind == 'Str':
            v = t.value
            out.append(f's{STRS.index(v)}' if v in STRS else f'?s:{v!r}')
        elif kind == 'BinStr':
            v = bytes(t.value) if not isinstance(t.value, bytes) else t.value
            out.append(f'b{BYTESV.index(v)}' if v in BYTESV else f'?b:{v!r}')
        elif kind == 'Parameter':
            v = txt[1:]
            out.append(f'p{PARAMS.index(v)}' if v in PARAMS else f'?p:{v}')
        else:
            k = txt.lower()
            out.append(f'y{t2s[k]}' if k in t2s else f'?y:{txt}')
    return ' '.join(out), None


def real_parse_term(text):
    try:
        tree = qlparser.parse_fragment(text)
    except errors.EdgeDBError as e:
        return 'FAIL'
    except AssertionError:
        return 'FAIL'
    try:
        return to_term(tree)
    except Unsupported as e:
        return 'UNSUPPORTED ' + str(e)


def core_one(case):
    if case['k'] == 'pp':
        node = TermReader(case['x'].split()).expr()
        res = {}
        try:
            sc = qlcodegen.generate_source(node, pretty=False)
            sp = qlcodegen.generate_source(node, pretty=True)
        except Exception as e:
            return {'err': 'print: ' + type(e).__name__ + ': ' + short(str(e), 120)}
        res['text'] = sc
        items, err = model_tokens(sc)
        res['items'] = items if err is None else err
        itp, errp = model_tokens(sp)
        res['pretty_same_tokens'] = (err is None and errp is None
                                     and [x for x in items.split() if x != '_'] == [x for x in itp.split() if x != '_'])
        res['pretty_same_spacing'] = (err is None and errp is None and items == itp)
        res['back'] = real_parse_term(sc)
        res['back_pretty'] = real_parse_term(sp)
        return res
    text = case['t']
    items, err = model_tokens(text)
    return {'items': items if err is None else err, 'back': real_parse_term(text)}


def main_lexpairs():
    """case = {"a": text, "b": text}: does the real lexer read a immediately followed by b as exactly
    the tokens of a followed by the tokens of b?  -> {"ok": bool}"""
    def lx(t):
        r = rust_parser.tokenize(t)
        if r.errors:
            return None
        return [(x.kind, x.text) for x in r.out if x.kind != 'EOI']
    for line in sys.stdin:
        line = line.rstrip('\n')
        if not line:
            print('{}')
            continue
        c = json.loads(line)
        a, b, ab = lx(c['a']), lx(c['b']), lx(c['a'] + c['b'])
        sys.stdout.write(json.dumps({'ok': a is not None and b is not None and ab is not None and ab == a + b}) + '\n')


def main_core():
    for line in sys.stdin:
        line = line.rstrip('\n')
        if not line:
            print('{}')
            continue
        try:
            r = core_one(json.loads(line))
        except RecursionError:
            r = {'err': 'RecursionError'}
        sys.stdout.write(json.dumps(r) + '\n')


if __name__ == '__main__':
    if MODE == 'explore':
        main_explore()
    elif MODE == 'grammar':
        main_grammar()
    elif MODE == 'core':
        main_core()
    elif MODE == 'lexpairs':
        main_lexpairs()
    else:
        raise SystemExit('unknown mode ' + MODE)
