"""C06 -- drives the REAL EdgeQL compiler (cardinality / multiplicity inference) and the repo's
reference evaluator edb/tools/toy_eval_model.py, one case per stdin line, one JSON per line.

    c06_impl.py <repo> [core|text]

core  case = `<schema> <expr> <db>*` (props/c06_gen.py).  The expression is rendered to EdgeQL,
      compiled by edb.edgeql.compiler.compile_ast_to_ir against the SDL-loaded schema
      (vrt.load_sdl = BaseSchemaTest.load_schema path), evaluated by toy_eval_model on each
      database, and the C06 monitors are evaluated on the compiler's answer:
          card-upper / card-lower   |result| outside the bounds of ir.cardinality
          dup                       ir.multiplicity == UNIQUE but the result has duplicates
          empty                     ir.multiplicity == EMPTY but the result is not empty
          shape-upper / shape-lower / shape-dup   same for every computed shape element
                                    (ptrref.out_cardinality; computed links must be distinct)
text  case = JSON {"sdl":..., "q":..., "db": [...objects...]}  (exploration stream: free-form
      EdgeQL with implicit path factoring, upstream corpus); same monitors, no model.

Output: {"c": card, "m": mult, "sh": [[name, card, is_link]...], "err": kind|null,
         "r": [result per db | "X:..." | "A:..."], "mon": [failure...], "q": text}
"""
from __future__ import annotations

import hashlib
import json
import os
import pickle
import sys

REPO = sys.argv[1] if len(sys.argv) > 1 else os.environ.get('VERIF_REPO', '/repo')
MODE = sys.argv[2] if len(sys.argv) > 2 else 'core'

HERE = os.path.dirname(os.path.abspath(__file__))
HARNESS = os.path.dirname(HERE)
sys.path.insert(0, os.path.join(HARNESS, 'rt'))
sys.path.insert(0, HARNESS)
os.environ.setdefault('VRT_REPO', REPO)
sys.setrecursionlimit(20000)

import vrt  # noqa: E402

vrt.install()
import edb  # noqa: E402

assert os.path.realpath(edb.__path__[0]).startswith(os.path.realpath(REPO)), (edb.__path__, REPO)

from edb import errors  # noqa: E402
from edb.ir import ast as irast  # noqa: E402
from edb.tools import toy_eval_model as M  # noqa: E402
from edb.edgeql import qltypes as ft  # noqa: E402

from props import c06_gen as G  # noqa: E402

CACHE = os.environ.get('VRT_CACHE_DIR') or os.path.join(os.path.dirname(HARNESS), 'cache')

# ------------------------------------------------------------------ oracle extensions
# toy_eval_model lacks a few std functions of the calculus; they are added HERE (harness,
# trusted base), with the semantics of the std documentation.  An assertion that fails
# aborts the query (no result => nothing to check).


class AssertFailed(Exception):
    pass


def _assert_single(x):
    if len(x) > 1:
        raise AssertFailed('single')
    return x


def _assert_exists(x):
    if not x:
        raise AssertFailed('exists')
    return x


def _assert_distinct(x):
    if len(M.dedup(x)) != len(x):
        raise AssertFailed('distinct')
    return x


def _array_get(arrs, idxs):
    return [a[i] for a in arrs for i in idxs if 0 <= i < len(a)]


def _opt_insts(xs):
    return [[x] for x in xs] if xs else [[]]


def _opt_eq(x, y):
    # std::?= (l: OPTIONAL anytype, r: OPTIONAL anytype): one call per combination of elements,
    # an empty operand is passed once as the empty set; {} ?= {} is true, {} ?= v is false
    return [(not a and not b) if (not a or not b) else a[0] == b[0] for a in _opt_insts(x) for b in _opt_insts(y)]


def _opt_ne(x, y):
    return [(bool(a) != bool(b)) if (not a or not b) else a[0] != b[0] for a in _opt_insts(x) for b in _opt_insts(y)]


# inheritance: toy_eval_model matches `__type__` literally; the harness makes the object lookup and
# the type intersection inheritance-aware with the descendants taken from the REAL schema
_DESC: dict = {}


def _eval_objref(name, ctx):
    if name == 'FreeObject':
        return [M.mk_free_object()]
    ok = {name} | _DESC.get(name, set())
    return [M.Obj(obj["id"]) for obj in ctx.db.data.values() if obj["__type__"] in ok]


def _eval_intersect(base, ptr, ctx):
    typ = ctx.db.data[base.id]["__type__"]
    return [base] if typ == ptr.typ or typ in _DESC.get(ptr.typ, set()) else []


M.eval_objref = _eval_objref
M.eval_intersect = _eval_intersect


def set_hierarchy(schema):
    from edb.schema import objtypes as s_objtypes
    _DESC.clear()
    try:
        for t in schema.get_objects(type=s_objtypes.ObjectType):
            nm = t.get_name(schema)
            if getattr(nm, 'module', None) != 'default':
                continue
            ds = {d.get_name(schema).name for d in t.descendants(schema)
                  if getattr(d.get_name(schema), 'module', None) == 'default'}
            if ds:
                _DESC[nm.name] = ds
    except Exception:   # noqa
        _DESC.clear()


M.BASIS.update({'assert_single': [M.SET_OF], 'assert_exists': [M.SET_OF], 'assert_distinct': [M.SET_OF]})
M.BASIS_IMPLS.update({
    ('func', 'assert_single'): _assert_single,
    ('func', 'assert_exists'): _assert_exists,
    ('func', 'assert_distinct'): _assert_distinct,
    ('func', 'min'): lambda x: [min(x)] if x else [],
    ('func', 'max'): lambda x: [max(x)] if x else [],
    ('func', 'array_get'): _array_get,
    ('binop', '?='): _opt_eq,
    ('binop', '?!='): _opt_ne,
})

# ------------------------------------------------------------------ late shape re-inference (observer)
# viewgen.late_compile_view_shapes re-applies the shape of a view type where that type is exposed
# again without a SELECT to push it into (result of assert_*/DISTINCT/enumerate/tuple
# indirection, an aliased FILTER subject, a FOR iterator reused as the body ...).  The re-applied
# elements INLINE the computed pointers (irast.Pointer.expr set, is_definition False) and are
# inferred a second time in the OUTER scope, where a FOR variable bound between the two places is
# no longer visible and counts with the cardinality / multiplicity of its iterator set.  The only
# thing this second inference can add to the first is a rejection.  Model.v does not model it, so
# the driver tells the comparison when a rejection was raised from inside such a re-applied shape.
_LATE_DEPTH = [0]


def _is_late_shape(ir):
    for el, _op in (getattr(ir, 'shape', None) or ()):
        p = getattr(el, 'expr', None)
        if isinstance(p, irast.Pointer) and p.expr is not None and not p.is_definition:
            return True
    return False


def _observe_late_shapes(mod):
    orig = mod._infer_shape

    def _infer_shape(ir, **kw):
        late = _is_late_shape(ir)
        if late:
            _LATE_DEPTH[0] += 1
        try:
            return orig(ir, **kw)
        except errors.EdgeDBError as e:
            if _LATE_DEPTH[0] > 0:
                e._c06_late_shape = True
            raise
        finally:
            if late:
                _LATE_DEPTH[0] -= 1
    _infer_shape.__wrapped__ = orig
    mod._infer_shape = _infer_shape


from edb.edgeql.compiler.inference import cardinality as _inf_card  # noqa: E402
from edb.edgeql.compiler.inference import multiplicity as _inf_mult  # noqa: E402

_observe_late_shapes(_inf_card)
_observe_late_shapes(_inf_mult)

# ------------------------------------------------------------------ schema cache

_SCHEMAS: dict = {}
_STD = None
_STD_ERR = None      # the std schema could not be bootstrapped on this tree: remember, do not retry per case


def std_schema():
    global _STD, _STD_ERR
    if _STD_ERR is not None:
        raise _STD_ERR
    if _STD is None:
        try:
            _STD = vrt.std_schema()
        except Exception as e:   # noqa
            _STD_ERR = RuntimeError(f'std schema bootstrap failed: {type(e).__name__}: {str(e)[:200]}')
            raise _STD_ERR
    return _STD


def load_schema(sdl):
    h = hashlib.sha256(sdl.encode()).hexdigest()[:24]
    if h in _SCHEMAS:
        return _SCHEMAS[h]
    key = vrt.std_schema_key()[:16]
    path = os.path.join(CACHE, f'c06-schema-{key}-{h}.pickle')
    sch = None
    if os.path.exists(path):
        try:
            std_schema()
            with open(path, 'rb') as f:
                sch = pickle.load(f)
        except Exception:
            sch = None
    if sch is None:
        sch = vrt.load_sdl(std_schema(), sdl)
        try:
            tmp = path + f'.{os.getpid()}.tmp'
            with open(tmp, 'wb') as f:
                pickle.dump(sch, f)
            os.replace(tmp, path)
        except Exception:
            pass
    _SCHEMAS[h] = sch
    return sch


# ------------------------------------------------------------------ compile

def classify_error(e):
    msg = str(e)
    if isinstance(e, errors.QueryError):
        if 'only singletons are allowed' in msg:
            return 'E:singleton'
        if 'possibly not a distinct set' in msg:
            return 'E:distinct'
        if "declared as 'required'" in msg:
            return 'E:required'
        if "declared as 'single'" in msg:
            return 'E:single'
        if 'cross product of volatile' in msg:
            return 'E:volatile'
    return f'E:other:{type(e).__name__}:{msg[:120]}'


def find_shape_set(s):
    for _ in range(20):
        if s.shape:
            return s
        e = s.expr
        if isinstance(e, irast.SelectStmt) and e.where is None and e.limit is None and e.offset is None \
                and e.iterator_stmt is None:
            s = e.result
        else:
            return None
    return None


def compile_q(schema, text):
    _LATE_DEPTH[0] = 0
    try:
        ir = vrt.compile_query(schema, text)
    except errors.EdgeDBError as e:
        return {'err': classify_error(e), 'late': bool(getattr(e, '_c06_late_shape', False))}
    except (AssertionError, KeyError, AttributeError, ValueError, TypeError, IndexError, RecursionError) as e:
        return {'err': f'E:internal:{type(e).__name__}:{str(e)[:100]}'}
    out = {'err': None, 'c': str(ir.cardinality.value), 'm': str(ir.multiplicity.value), 'sh': []}
    s = find_shape_set(ir.expr) if isinstance(ir.expr, irast.Set) else None
    if s is not None:
        for el, _op in s.shape:
            p = el.expr
            if not isinstance(p, irast.Pointer) or p.expr is None:
                continue
            name = str(p.ptrref.shortname.name)
            is_link = bool(p.ptrref.out_target.collection is None and not p.ptrref.out_target.is_scalar)
            out['sh'].append([name, str(p.ptrref.out_cardinality.value), is_link])
    return out


# ------------------------------------------------------------------ toy databases and values

def toy_val(v):
    if v in ('true', 'false'):
        return v == 'true'
    if v.startswith('#'):
        return M.Obj(M.bsid(int(v[1:])))
    if v.startswith('s'):
        return v
    return int(v)


def toy_db(schema_sx, db_sx):
    sch = G.Schema(schema_sx)
    data = []
    for r in db_sx[1:]:
        tid, oid = int(r[1]), int(r[2])
        d = {'id': M.bsid(oid), '__type__': f'T{tid}'}
        vals = {int(e[0]): e[1:] for e in r[3:]}
        for pid in sch.types[tid]:
            vs = [toy_val(v) for v in vals.get(pid, [])]
            if sch.ptrs[pid]['multi']:
                d[f'p{pid}'] = vs
            elif vs:
                d[f'p{pid}'] = vs[0]
        data.append(d)
    return M.mk_db(data, {})


def canon(v, shapes=False):
    if isinstance(v, bool):
        return 'true' if v else 'false'
    if isinstance(v, int):
        return str(v)
    if isinstance(v, str):
        return v
    if isinstance(v, M.Obj):
        n = int(v.id.hex[-12:], 16)
        if shapes and v.shape is not None and set(v.shape) != {'id'}:
            inner = ';'.join(f'{k}=[{" ".join(canon(x) for x in vs)}]' for k, vs in v.shape.items() if k != 'id')
            return f'#{n}{{{inner}}}'
        return f'#{n}'
    if isinstance(v, tuple):
        return '(' + ' '.join(canon(x) for x in v) + ')'
    if isinstance(v, list):
        return '[' + ' '.join(canon(x) for x in v) + ']'
    if isinstance(v, float):
        return f'f{v}'
    return f'?{type(v).__name__}'


def has_dups(vals):
    return len(M.dedup(vals)) != len(vals)


def toy_run(qtree, db):
    try:
        return M.toplevel_query(qtree, db), None
    except AssertFailed as e:
        return None, f'A:{e}'
    except RecursionError:
        return None, 'X:RecursionError'
    except Exception as e:   # noqa: the toy model has no error checking; anything it cannot do is "unsupported"
        return None, f'X:{type(e).__name__}:{str(e)[:60]}'


BOUNDS = {'ONE': (1, 1), 'AT_MOST_ONE': (0, 1), 'AT_LEAST_ONE': (1, None), 'MANY': (0, None)}


def monitors(comp, res, tag):
    """res = toy result (list of values) for one database"""
    bad = []
    lo, hi = BOUNDS[comp['c']]
    n = len(res)
    if hi is not None and n > hi:
        bad.append(f'card-upper:{tag}')
    if n < lo:
        bad.append(f'card-lower:{tag}')
    if comp['m'] == 'UNIQUE' and has_dups(res):
        bad.append(f'dup:{tag}')
    if comp['m'] == 'EMPTY' and n:
        bad.append(f'empty:{tag}')
    if comp['sh']:
        for v in res:
            if not isinstance(v, M.Obj) or v.shape is None:
                continue
            for name, card, is_link in comp['sh']:
                if name not in v.shape:
                    continue
                vs = v.shape[name]
                lo, hi = BOUNDS[card]
                if hi is not None and len(vs) > hi:
                    bad.append(f'shape-upper:{name}:{tag}')
                if len(vs) < lo:
                    bad.append(f'shape-lower:{name}:{tag}')
                if is_link and has_dups(vs):
                    bad.append(f'shape-dup:{name}:{tag}')
    return bad


# ------------------------------------------------------------------ modes

def run_core(line):
    schema_sx, expr, dbs = G.dec_case(line)
    try:
        text = G.render_query(expr)
    except (ValueError, KeyError, IndexError) as e:
        return {'err': f'E:render:{e}', 'r': [], 'mon': [], 'q': None}
    sdl = G.render_sdl(schema_sx)
    schema = load_schema(sdl)
    _DESC.clear()
    comp = compile_q(schema, text)
    out = dict(comp)
    out['q'] = text
    out['r'] = []
    out['mon'] = []
    if comp['err'] is None and dbs:
        try:
            qtree = M.parse(text)
        except Exception as e:   # noqa
            qtree = None
            out['r'] = [f'X:parse:{type(e).__name__}'] * len(dbs)
        if qtree is not None:
            for i, d in enumerate(dbs):
                if not G.db_conforms(schema_sx, d):
                    out['r'].append('X:nonconforming')
                    continue
                res, fail = toy_run(qtree, toy_db(schema_sx, d))
                if res is None:
                    out['r'].append(fail)
                    continue
                out['r'].append(' '.join(canon(v) for v in res))
                out['mon'] += monitors(comp, res, f'db{i}')
    return out


_SDL_FILES: dict = {}


def run_expect(line):
    """upstream pinned expectation: tests/test_edgeql_ir_{card,mult}_inference.py on the cards schema"""
    case = json.loads(line)
    path = os.path.join(REPO, case['schema_file'])
    if path not in _SDL_FILES:
        _SDL_FILES[path] = open(path, encoding='utf-8').read()
    schema = load_schema(_SDL_FILES[path])
    try:
        ir = vrt.compile_query(schema, case['q'])
    except errors.EdgeDBError as e:
        return {'got': 'ERR:' + type(e).__name__, 'msg': str(e)[:160]}
    except Exception as e:   # noqa
        return {'got': 'ERR:internal:' + type(e).__name__, 'msg': str(e)[:160]}
    if case['kind'] == 'mult':
        return {'got': str(ir.multiplicity.value)}
    field = case.get('field')
    if field is None:
        return {'got': str(ir.cardinality.value)}
    try:
        shape = ir.expr.expr.result.shape
        for el, _ in shape:
            if str(el.path_id.rptr_name()).endswith(field):
                return {'got': str(el.expr.ptrref.out_cardinality.value)}
    except Exception as e:   # noqa
        return {'got': 'ERR:shape:' + type(e).__name__}
    return {'got': 'ERR:field-not-found'}


def run_text(line):
    case = json.loads(line)
    if 'schema' in case:
        schema_sx = G.sx_parse_all(case['schema'])[0]
        case['sdl'] = G.render_sdl(schema_sx)
    schema = load_schema(case['sdl'])
    comp = compile_q(schema, case['q'])
    out = dict(comp)
    out['q'] = case['q']
    out['r'] = []
    out['mon'] = []
    set_hierarchy(schema)
    if comp['err'] is None:
        try:
            # q_eval: the text the reference evaluator runs (parameters replaced by their values)
            qtree = M.parse(case.get('q_eval') or case['q'])
        except Exception as e:   # noqa
            return out
        for i, dbj in enumerate(case.get('dbs', [])):
            if isinstance(dbj, str):
                dsx = G.sx_parse_all(dbj)[0]
                res, fail = toy_run(qtree, toy_db(schema_sx, dsx))
                if res is None:
                    out['r'].append(fail)
                    continue
                out['r'].append(' '.join(canon(v) for v in res))
                out['mon'] += monitors(comp, res, f'db{i}')
                continue
            data = []
            for o in dbj:
                d = {}
                for k, v in o.items():
                    if k == 'id':
                        d[k] = M.bsid(v)
                    elif k == '__type__':
                        d[k] = v
                    else:
                        conv = lambda x: M.Obj(M.bsid(x['#'])) if isinstance(x, dict) else x
                        d[k] = [conv(x) for x in v] if isinstance(v, list) else conv(v)
                data.append(d)
            res, fail = toy_run(qtree, M.mk_db(data, {}))
            if res is None:
                out['r'].append(fail)
                continue
            out['r'].append(' '.join(canon(v) for v in res))
            out['mon'] += monitors(comp, res, f'db{i}')
    return out


def main():
    fn = {'core': run_core, 'text': run_text, 'expect': run_expect}[MODE]
    w = sys.stdout.write
    for line in sys.stdin:
        line = line.rstrip('\n')
        if not line:
            continue
        try:
            out = fn(line)
        except Exception as e:   # noqa: a harness failure must not be mistaken for a verdict
            import traceback
            out = {'err': f'E:harness:{type(e).__name__}:{str(e)[:200]}', 'r': [], 'mon': [], 'q': None,
                   'tb': traceback.format_exc()[-600:]}
        w(json.dumps(out) + '\n')
    sys.stdout.flush()


main()
