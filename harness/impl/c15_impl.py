"""C15 / C16 implementation side: drives the REAL edb.server.connpool.pool.Pool
(from the repo given in argv[1]) on a deterministic event loop.

One schedule per input line, one JSON result per output line.

  input :  <max>,<gc_ms>,<drain 0|1>;<op> <op> ...
           ops (indices are taken modulo the number of enabled choices; an op with no
           enabled choice is skipped):
             a<d>   create_task(pool.acquire(db d))
             r<i>   holder i releases its connection        R<i>  ... with discard=True
             o<i>   i-th in-flight connect completes        f<i>  fails    F<i> fails with 3D000
             d<i>   i-th in-flight disconnect completes     e<i>  fails (raises)
             t      advance the clock to the earliest timer and fire it (tick / gc / log)
             w<n>   advance the clock by n ms (never past the earliest timer)
             p<d>   create_task(pool.prune_inactive_connections(db d))
             c<i>   cancel the i-th acquire() task that has not returned yet (Task.cancel())
             x      run ONE callback of the loop's FIFO ready queue     q  run until it is empty
             bu / bf<i> / bd<d>   malformed releases: unknown database / a connection of
                                  another block / a connection that is idle in the stack
  output:  {"trace": concrete event trace with oracle values (input of the extracted model),
            "dig": [state digest after every concrete event], "mon": [monitor failures],
            "c16": fair-drain result, "stats": {...}}

What is REAL: everything in pool.py (Block, BasePool, Pool), rolavg.py, config.py, and
CPython's asyncio Task/Future machinery.  What is HARNESS: the event loop (FIFO ready queue,
explicit timers), the clock (`pool.time` shim), the fake backend (connect / disconnect return
harness-owned futures; GHOST TRUTH = set of open connections, in-flight opens / closes,
who holds what).

Monitors (independent of the Coq model), evaluated after every event:
  M1 cap      |open \\ handed-back-broken| + |connect calls in flight| <= max
  M2 usage    pool.current_capacity >= |open| + |opening| always, == when the loop is quiescent
  M3 lend     a connection returned by acquire() is open, not being closed, not lent to
              anybody else, and was opened for the requested database
  M4 close    disconnect is only called on open, not-lent, not-already-closing connections
  C16 drain   after the schedule a fair scheduler (all ready callbacks, all connects /
              disconnects complete OK, all holders release, timers fire) must complete every
              acquire(); an acquire() may fail only with the error of a connect failure that
              exhausted the retries of its block.
"""
import sys
import os
import json
import asyncio
import collections
from asyncio import events as _aio_events

REPO = sys.argv[1] if len(sys.argv) > 1 else os.environ.get('VERIF_REPO', '/repo')
sys.path.insert(0, REPO)
_here = os.path.dirname(os.path.abspath(__file__))
os.environ.setdefault('VRT_REPO', REPO)
try:
    sys.path.insert(0, os.path.join(_here, '..', 'rt'))
    import vrt  # noqa
    vrt.install()
except Exception:  # minimal local stub installer (only what connpool needs)
    import types
    import importlib.abc
    import importlib.machinery

    class _Stub(importlib.abc.MetaPathFinder, importlib.abc.Loader):
        NAMES = ('edb.server._rust_native', 'uvloop', 'setproctitle', 'graphql', 'parsing',
                 'edb._edgeql_parser', 'edb.common.turbo_uuid', 'edb.pgsql.parser.parser')

        def find_spec(self, name, path=None, target=None):
            if any(name == n or name.startswith(n + '.') for n in self.NAMES):
                return importlib.machinery.ModuleSpec(name, self, is_package=True)

        def create_module(self, spec):
            m = types.ModuleType(spec.name)
            m.__path__ = []
            m.__getattr__ = lambda a: type(a, (), {})
            return m

        def exec_module(self, m):
            pass
    sys.meta_path.append(_Stub())

import edb  # noqa
assert os.path.realpath(edb.__path__[0]).startswith(os.path.realpath(REPO)), edb.__path__
from edb.server.connpool import pool as pm  # noqa
from edb.server.connpool import config as pcfg  # noqa
import logging  # noqa
logging.getLogger('edb.server').disabled = True


class Clock:
    def __init__(self):
        self.t = 1000.0

    def monotonic(self):
        return self.t


class DetLoop(asyncio.AbstractEventLoop):
    """FIFO ready queue + explicit timers; nothing runs unless the harness says so."""

    def __init__(self, clk):
        self._ready = collections.deque()
        self._timers = []
        self._clk = clk
        self.unhandled = []

    def time(self):
        return self._clk.t

    def call_soon(self, cb, *args, context=None):
        h = asyncio.Handle(cb, args, self, context)
        self._ready.append(h)
        return h

    def call_later(self, delay, cb, *args, context=None):
        return self.call_at(self._clk.t + delay, cb, *args, context=context)

    def call_at(self, when, cb, *args, context=None):
        h = asyncio.TimerHandle(when, cb, args, self, context)
        self._timers.append(h)
        return h

    def _timer_handle_cancelled(self, h):
        pass

    def create_future(self):
        return asyncio.Future(loop=self)

    def create_task(self, coro, *, name=None, context=None):
        return asyncio.Task(coro, loop=self, name=name, context=context)

    def get_debug(self):
        return False

    def is_running(self):
        return True

    def is_closed(self):
        return False

    def call_exception_handler(self, ctx):
        self.unhandled.append(ctx)

    def enter(self):
        # every invocation of pool code is bracketed by enter()/leave(): bound its duration
        _aio_events._set_running_loop(self)
        import signal
        signal.setitimer(signal.ITIMER_REAL, SECTION_SECONDS[0])

    def leave(self):
        import signal
        signal.setitimer(signal.ITIMER_REAL, 0)
        _aio_events._set_running_loop(None)


class Conn:
    __slots__ = ('id', 'db')

    def __init__(self, i, db):
        self.id = i
        self.db = db

    def __repr__(self):
        return f'c{self.id}'


class ConnectError(Exception):
    def __init__(self, nodb):
        super().__init__('connect failed')
        self.fields = {'C': '3D000'} if nodb else {'C': '08006'}


class DisconnectError(Exception):
    pass


class Sim:
    def __init__(self, maxc, gc_ms):
        self.clk = Clock()
        pm.time = self.clk
        self.loop = DetLoop(self.clk)
        self.maxc = maxc
        self.pool = pm.Pool(connect=self._connect, disconnect=self._disconnect,
                            max_capacity=maxc, min_idle_time_before_gc=gc_ms / 1000.0)
        orig_rebalance = self.pool._maybe_rebalance

        def _rebalance_probe():
            p = self.pool
            self.rebalance_stats['calls'] += 1
            if not p._is_starving and p._cur_capacity == p._max_capacity - 1 and any(
                    b.quota - b.count_conns() >= 2 for b in p._blocks.values()):
                self.rebalance_stats['two_under_at_max_minus_1'] += 1
            room = p._max_capacity - p._cur_capacity
            short = [b.quota - b.count_conns() for b in p._blocks.values()
                     if b.quota - b.count_conns() > 0]
            if not p._is_starving and room > 0 and len(short) >= 2 and sum(short) > room:
                self.rebalance_stats['several_under_sharing_room'] += 1
            return orig_rebalance()
        self.pool._maybe_rebalance = _rebalance_probe
        self.n_conn = 0          # connection ids
        self.n_cid = 0           # connect call ids
        self.n_did = 0           # disconnect call ids
        self.n_task = 0
        self.conn_calls = collections.OrderedDict()   # cid -> (db, fut)
        self.disc_calls = collections.OrderedDict()   # did -> (conn, fut)
        self.fut_cid = {}        # id(fut) -> cid    (kept for ready-queue labelling)
        self.cid_db = {}
        self.fut_task = {}       # id(waiter future) -> task id (remembered: a cancelled task forgets its waiter)
        self.cancelled = set()   # tasks the harness cancelled
        self.late_cancel_dbs = set()
        self.rebalance_stats = {'calls': 0, 'two_under_at_max_minus_1': 0, 'several_under_sharing_room': 0}
        self.fut_did = {}
        self.keep = []           # keep futures alive (ids stay unique)
        self.tasks = collections.OrderedDict()        # t -> (kind, db, task)
        # ghost truth
        self.open = {}           # conn id -> Conn
        self.closing = set()     # conn ids with a disconnect call in flight
        self.broken = set()      # conn ids handed back with discard=True and still open
        self.holder = {}         # conn id -> t
        self.held_by = collections.OrderedDict()      # t -> (db, Conn)
        self.connect_fail_seen = set()                # dbs on which a connect failure was delivered
        self.trace = []
        self.dig = []
        self.mon = []
        self.outs = []
        self.nontrivial = {'dbs': set(), 'cap_reached': False, 'waiter': False,
                           'transfer': False, 'tick_modes': set(), 'steal': False}
        self.kinds = collections.Counter()
        self.last_tick_crash = None

    # ------------------------------------------------------------ fake backend
    def _connect(self, db):
        self.n_cid += 1
        f = self.loop.create_future()
        self.conn_calls[self.n_cid] = (db, f)
        self.cid_db[self.n_cid] = db
        self.fut_cid[id(f)] = self.n_cid
        self.keep.append(f)
        self.outs.append(f'conn{self.n_cid}:{db}')
        return f

    def _disconnect(self, conn):
        self.n_did += 1
        f = self.loop.create_future()
        self.disc_calls[self.n_did] = (conn, f)
        self.fut_did[id(f)] = self.n_did
        self.keep.append(f)
        self.outs.append(f'disc{self.n_did}:{conn.id}')
        # M4
        if conn.id not in self.open:
            self.mon.append(('M4', f'disconnect called on {conn} which is not open'))
        elif conn.id in self.closing:
            self.mon.append(('M4', f'disconnect called twice on {conn}'))
        if conn.id in self.holder:
            self.mon.append(('M4', f'disconnect called on {conn} while lent to task {self.holder[conn.id]}'))
        self.closing.add(conn.id)
        self.nontrivial['transfer'] = True
        return f

    # ------------------------------------------------------------ labelling
    def _task_label(self, task):
        for t, (kind, db, tk) in self.tasks.items():
            if tk is task:
                return kind, t
        return None, None

    def _ready_labels(self):
        return [self._label(h) for h in self.loop._ready]

    def _label(self, h):
        out = []
        for h in (h,):
                if h._cancelled:
                    out.append('cancelled')
                    continue
                cb = h._callback
                owner = getattr(cb, '__self__', None)
                if isinstance(owner, asyncio.Task):
                    kind, t = self._task_label(owner)
                    if type(cb).__name__ == 'TaskStepMethWrapper' or not h._args:
                        qn = owner.get_coro().__qualname__
                        fr = owner.get_coro().cr_frame
                        loc = fr.f_locals if fr is not None else {}
                        if kind == 'A':
                            out.append(f'Ac{t}' if t in self.cancelled else f'As{t}')
                        elif kind == 'P':
                            out.append(f'Ps{t}')
                        elif qn.endswith('._connect'):
                            out.append(f'Cs{loc["block"].dbname}')
                        elif qn.endswith('._transfer'):
                            out.append(f'Ts{loc["from_conn"].id}')
                        elif qn.endswith('._discard_conn'):
                            out.append(f'Ds{loc["conn"].id}')
                        else:
                            out.append('S?' + qn)
                    else:
                        fut = h._args[0]
                        if id(fut) in self.fut_cid:
                            out.append(f'Cw{self.fut_cid[id(fut)]}')
                        elif id(fut) in self.fut_did:
                            out.append(f'Dw{self.fut_did[id(fut)]}')
                        elif kind == 'A':
                            if t in self.cancelled or fut.cancelled():
                                out.append(f'Ac{t}')
                            else:
                                out.append(f'Aw{t}' + ('-' if fut.exception() is not None else '+'))
                        elif kind == 'P':
                            if isinstance(fut, asyncio.Future) and type(fut).__name__ == '_GatheringFuture':
                                out.append(f'Pf{t}')
                            else:
                                out.append(f'Pw{t}' + ('-' if fut.exception() is not None else '+'))
                        else:
                            out.append('W?')
                elif getattr(cb, '__name__', '') == '_done_callback':
                    out.append('Gc')
                else:
                    out.append('?' + repr(cb)[:40])
        return out[0]

    def _learn_waiters(self):
        for t, (kind, db, tk) in self.tasks.items():
            f = getattr(tk, '_fut_waiter', None)
            if f is not None and id(f) not in self.fut_task:
                self.fut_task[id(f)] = t
                self.keep.append(f)

    def _waiter_ids(self, block):
        self._learn_waiters()
        res = []
        for f in block.conn_waiters:
            t = self.fut_task.get(id(f))
            lab = '?' if t is None else str(t)
            if f.done():
                lab += '!'
            res.append(lab)
        return res

    def _live(self, block):
        return self.pool._blocks.get(block.dbname) is block

    def digest(self):
        p = self.pool
        gt = sum(1 for h in self.loop._timers
                 if not h._cancelled and getattr(h._callback, '__name__', '') == '_run_gc')
        head = (f'{p._cur_capacity},{int(p._is_starving)},{int(p._htick is not None)},'
                f'{p._gc_requests},{gt},{p._nacquires}')
        bl = []
        for b in p._blocks.values():
            conns = ''.join(f'{c.id}{"+" if s.in_use else "-"}' for c, s in b.conns.items())
            bl.append(f'{b.dbname}:{conns}:{",".join(str(c.id) for c in b.conn_stack)}:'
                      f'{",".join(self._waiter_ids(b))}:{b.pending_conns},{b.conn_acquired_num},'
                      f'{b.conn_waiters_num},{b.quota},{int(b.suppressed)},{b.connect_failures_num}')
        wl = ','.join(b.dbname if self._live(b) else '~' for b in p._new_blocks_waitlist)
        oq = ','.join(b.dbname if self._live(b) else '~' for b in p._blocks_over_quota)
        return (f'{head}|{",".join(self._ready_labels())}|{"/".join(bl)}|{wl}|{oq}|'
                f'{",".join(self.outs)}')

    # ------------------------------------------------------------ oracle
    def _recent(self):
        p = self.pool
        thr = max(p._conntime_avg.avg(), pcfg.MIN_CONN_TIME_THRESHOLD)
        return [b.dbname for b in p._blocks.values()
                if (self.clk.t - b.last_connect_timestamp) < thr]

    # ------------------------------------------------------------ monitors
    def check(self, where):
        p = self.pool
        opening = len(self.conn_calls)
        live_nonbroken = len([c for c in self.open if c not in self.broken])
        if live_nonbroken + opening > self.maxc:
            self.mon.append(('M1', f'after {where}: open(not handed back broken)={live_nonbroken} '
                                   f'+ opening={opening} > max={self.maxc}'))
        truth = len(self.open) + opening
        cur = p.current_capacity
        if cur < truth:
            self.mon.append(('M2', f'after {where}: current_capacity={cur} < open+opening={truth}'))
        if not self.loop._ready and cur != truth:
            self.mon.append(('M2', f'after {where} (loop quiescent): current_capacity={cur} != '
                                   f'open({len(self.open)}, of which closing {len(self.closing)}) + opening({opening})'))
        if cur >= self.maxc:
            self.nontrivial['cap_reached'] = True
        for b in p._blocks.values():
            if b.conn_waiters:
                self.nontrivial['waiter'] = True
        self.nontrivial['dbs'] |= set(p._blocks.keys())

    def emit(self, ev, where=None):
        if ALARMED[0] is not None:      # the alarm went off inside a Task step (asyncio swallowed it)
            raise Runaway('an atomic section of the pool did not return within the time limit (in ' + ALARMED[0] + ')')
        if len(self.trace) > MAX_EVENTS:
            raise Runaway('the schedule produced more than %d events (the pool keeps generating work)' % MAX_EVENTS)
        self.trace.append(ev)
        self.check(where or ev)
        self.dig.append(self.digest())
        self.outs = []
        self.kinds[ev.split(' ')[0]] += 1

    def _harvest(self):
        """look at harness-owned tasks that finished in the last step"""
        for t, (kind, db, tk) in list(self.tasks.items()):
            if not tk.done() or t in self.done_tasks:
                continue
            self.done_tasks.add(t)
            if tk.cancelled():
                self.outs.append(f'acanc{t}')
                if t not in self.cancelled:
                    self.mon.append(('M3', f'task {t} ended cancelled although nobody cancelled it'))
                continue
            exc = tk.exception()
            if kind == 'A':
                if exc is None:
                    c = tk.result()
                    self.outs.append(f'acq{t}:{c.id}')
                    # M3
                    if c.id not in self.open:
                        self.mon.append(('M3', f'acquire({db}) task {t} got {c} which is not open'))
                    if c.id in self.closing:
                        self.mon.append(('M3', f'acquire({db}) task {t} got {c} which is being closed'))
                    if c.id in self.holder:
                        self.mon.append(('M3', f'acquire({db}) task {t} got {c} already lent to task {self.holder[c.id]}'))
                    if c.db != db:
                        self.mon.append(('M3', f'acquire({db}) task {t} got {c} opened for database {c.db}'))
                    self.holder[c.id] = t
                    self.held_by[t] = (db, c)
                else:
                    self.outs.append(f'afail{t}')
                    self.failed_acq[t] = (db, repr(exc))
                    if not isinstance(exc, ConnectError):
                        self.mon.append(('M3', f'acquire({db}) task {t} raised {exc!r}'))
            else:
                self.outs.append(f'pdone{t}' if exc is None else f'pfail{t}')

    done_tasks = None

    # ------------------------------------------------------------ events
    def ev_acquire(self, d):
        self.n_task += 1
        t = self.n_task
        self.loop.enter()
        try:
            tk = self.loop.create_task(self.pool.acquire(f'd{d}'))
        finally:
            self.loop.leave()
        self.tasks[t] = ('A', f'd{d}', tk)
        self.emit(f'A {t} d{d}')

    def ev_prune(self, d):
        self.n_task += 1
        t = self.n_task
        self.loop.enter()
        try:
            tk = self.loop.create_task(self.pool.prune_inactive_connections(f'd{d}'))
        finally:
            self.loop.leave()
        self.tasks[t] = ('P', f'd{d}', tk)
        self.emit(f'P {t} d{d}')

    def ev_cancel(self, t):
        kind, db, tk = self.tasks[t]
        self._learn_waiters()
        f = getattr(tk, '_fut_waiter', None)
        if f is not None and f.done() and not f.cancelled() and f.exception() is None:
            self.late_cancel_dbs.add(db)     # woken by release()/_connect(), not resumed yet
        self.loop.enter()
        try:
            tk.cancel()
        finally:
            self.loop.leave()
        self.cancelled.add(t)
        self.emit(f'K {t}')

    def ev_run(self):
        if not self.loop._ready:
            return False
        rec = self._recent()
        h = self.loop._ready.popleft()
        lab = self._label(h)
        failed_connect = None
        if lab.startswith('Cw') and h._args and h._args[0].exception() is not None:
            failed_connect = self.cid_db.get(int(lab[2:]))
        if not h._cancelled:
            self.loop.enter()
            try:
                h._run()
            finally:
                self.loop.leave()
        if failed_connect is not None:
            # C16, second clause: a connect failure that exhausts its retries is reported to the
            # waiting requests instead of leaving them blocked
            b = self.pool._blocks.get(failed_connect)
            if b is not None and b.connect_failures_num > pcfg.CONNECT_FAILURE_RETRIES and len(b.conn_waiters) > 0:
                self.mon.append(('L2', f'connect failure #{b.connect_failures_num} on {failed_connect} exhausted the '
                                       f'retries but {len(b.conn_waiters)} request(s) stay blocked in acquire()'))
            elif b is not None and b.connect_failures_num <= pcfg.CONNECT_FAILURE_RETRIES and b.pending_conns == 0 \
                    and len(b.conn_waiters) > 0 and not b.conns:
                self.mon.append(('L2', f'connect failure #{b.connect_failures_num} on {failed_connect}: no retry '
                                       f'scheduled and {len(b.conn_waiters)} request(s) stay blocked'))
        self._harvest()
        self.emit('X' + self._orc(recent=rec))
        return True

    def _orc(self, **kw):
        parts = []
        for k, v in kw.items():
            if v:
                parts.append(f'{k}=' + ','.join(str(x) for x in v))
        return ('|' + '|'.join(parts)) if parts else ''

    def ev_release(self, db, conn, discard, why='R'):
        rec = self._recent()
        err = None
        t = self.holder.get(conn.id)
        legit = t is not None and self.held_by.get(t, (None, None))[0] == db
        self.loop.enter()
        try:
            try:
                self.pool.release(db, conn, discard=discard)
            except RuntimeError as e:
                msg = str(e)
                err = ('db' if 'not known' in msg else 'nc' if 'does not belong' in msg
                       else 'nu' if 'never acquired' in msg else 'other')
        finally:
            self.loop.leave()
        if err is None:
            if legit:
                del self.holder[conn.id]
                del self.held_by[t]
            if discard and conn.id in self.open and conn.id not in self.closing:
                self.broken.add(conn.id)
        else:
            self.outs.append(f'rerr:{err}')
            if legit:
                self.mon.append(('M3', f'release({db},{conn}) by its holder {t} raised: {err}'))
        self.emit(f'R {db} {conn.id} {int(discard)}' + self._orc(recent=rec))

    def ev_conn_ok(self, cid):
        db, f = self.conn_calls.pop(cid)
        self.n_conn += 1
        c = Conn(self.n_conn, db)
        self.open[c.id] = c
        f.set_result(c)
        self.emit(f'CO {cid}')

    def ev_conn_fail(self, cid, nodb):
        db, f = self.conn_calls.pop(cid)
        f.set_exception(ConnectError(nodb))
        self.connect_fail_seen.add(db)
        self.emit(f'CF {cid} {int(nodb)}')

    def ev_disc(self, did, ok):
        conn, f = self.disc_calls.pop(did)
        self.open.pop(conn.id, None)
        self.closing.discard(conn.id)
        self.broken.discard(conn.id)
        if ok:
            f.set_result(None)
        else:
            f.set_exception(DisconnectError('disconnect failed'))
        self.emit(('DO' if ok else 'DF') + f' {did}')

    def next_timer(self):
        ts = [h for h in self.loop._timers if not h._cancelled]
        if not ts:
            return None
        return min(ts, key=lambda h: h._when)       # min() keeps the first of equal keys

    def ev_timer(self):
        h = self.next_timer()
        if h is None:
            return False
        self.loop._timers.remove(h)
        if h._when > self.clk.t:
            self.clk.t = h._when
        name = getattr(h._callback, '__name__', '')
        p = self.pool
        rec = self._recent()
        gcn = []
        if name == '_run_gc':
            thr = self.clk.t - p._gc_interval
            for b in p._blocks.values():
                k = 0
                for c in b.conn_stack:
                    if b.conns[c].in_stack_since > thr:
                        break
                    k += 1
                if k:
                    gcn.append(f'{b.dbname}:{k}')
        pre = None
        if name == '_tick':
            nb = len(p._blocks)
            tot = sum(b.count_waiters() + b.conn_acquired_num for b in p._blocks.values())
            pre = (nb, tot, p._cur_capacity)
        crashed = None
        self.loop.enter()
        try:
            try:
                h._callback(*h._args)
            except Exception as e:  # a timer callback that raises is logged by asyncio and dropped
                crashed = e
        finally:
            self.loop.leave()
        if name == '_tick':
            self.last_tick_crash = (None if crashed is None else
                                    __import__('traceback').extract_tb(crashed.__traceback__)[-1].name)
            avgnz = [b.dbname for b in p._blocks.values() if b.nwaiters_avg.avg()]
            cq = [f'{b.dbname}:{b.quota}' for b in p._blocks.values()]
            capcrash = []
            if crashed is not None:
                import traceback
                tb = traceback.extract_tb(crashed.__traceback__)
                self.outs.append('crash:tick')
                if tb and tb[-1].name == '_tick':
                    capcrash = [1]
                elif not (tb and tb[-1].name == '_drop_block'):
                    self.mon.append(('TICK', f'_tick raised {crashed!r} at {tb[-1].name if tb else "?"}'))
            nb, tot, cur = pre
            mode = ('A' if nb <= 1 else 'idle' if tot == 0 else
                    ('B' if cur < self.maxc else 'C-') if tot < self.maxc else
                    'D' if p._is_starving else 'C')
            self.nontrivial['tick_modes'].add(mode)
            self.emit('T' + self._orc(recent=rec, avgnz=avgnz, cq=cq, capcrash=capcrash))
        elif name == '_run_gc':
            if crashed is not None:
                self.mon.append(('GC', f'_run_gc raised {crashed!r}'))
            self.emit('G' + self._orc(gcn=gcn))
        else:
            pass        # log batching timer: no pool state
        return True

    def ev_advance(self, ms):
        h = self.next_timer()
        t = self.clk.t + ms / 1000.0
        if h is not None and t > h._when:
            t = max(self.clk.t, h._when)
        self.clk.t = t

    # ------------------------------------------------------------ schedule interpreter
    def run_schedule(self, ops):
        self.done_tasks = set()
        self.failed_acq = {}
        for op in ops:
            k, arg = op[0], op[1:]
            n = int(arg) if arg and arg.lstrip('-').isdigit() else 0
            if k == 'a':
                self.ev_acquire(n)
            elif k in 'rR':
                hs = list(self.held_by.items())
                if hs:
                    t, (db, c) = hs[n % len(hs)]
                    self.ev_release(db, c, k == 'R')
            elif k in 'ofF':
                ids = list(self.conn_calls)
                if ids:
                    cid = ids[n % len(ids)]
                    if k == 'o':
                        self.ev_conn_ok(cid)
                    else:
                        self.ev_conn_fail(cid, k == 'F')
            elif k in 'de':
                ids = list(self.disc_calls)
                if ids:
                    self.ev_disc(ids[n % len(ids)], k == 'd')
            elif k == 't':
                self.ev_timer()
            elif k == 'w':
                self.ev_advance(n)
            elif k == 'p':
                self.ev_prune(n)
            elif k == 'c':
                pa = [t for t in self.pending_acquires() if t not in self.cancelled]
                if pa:
                    self.ev_cancel(pa[n % len(pa)])
            elif k == 'x':
                self.ev_run()
            elif k == 'q':
                while self.ev_run():
                    pass
            elif k == 'b':
                self.bad_release(op[1:2], int(op[2:]) if op[2:].isdigit() else 0)

    def bad_release(self, kind, n):
        p = self.pool
        if kind == 'u':
            c = next(iter(self.open.values()), Conn(9999, 'zz'))
            self.ev_release('d999999', c, False)
        elif kind == 'f':
            # a connection that lives in another block
            blocks = list(p._blocks.values())
            cands = [(b, c) for b in blocks for c in b.conns]
            if cands and len(blocks) > 1:
                b, c = cands[n % len(cands)]
                other = [x for x in blocks if x is not b][n % (len(blocks) - 1)]
                self.ev_release(other.dbname, c, False)
        elif kind == 'd':
            cands = [(b, c) for b in p._blocks.values() for c in b.conn_stack]
            if cands:
                b, c = cands[n % len(cands)]
                self.ev_release(b.dbname, c, bool(n & 1))

    # ------------------------------------------------------------ C16: fair drain
    def pending_acquires(self):
        return [t for t, (kind, db, tk) in self.tasks.items() if kind == 'A' and not tk.done()]

    def drain(self, max_rounds=1500, idle_limit=12):
        """fair scheduler: everything that can complete completes successfully, every holder
        releases, the clock moves, due timers fire.  Runs as long as anything progresses (an
        acquire returns, a connect / disconnect completes, a holder releases, a callback other
        than a timer runs); stops after `idle_limit` consecutive rounds in which only timers
        fired and nothing is in flight, lent or ready."""
        idle = 0
        rounds = 0
        while rounds < max_rounds:
            rounds += 1
            progress = 0
            while self.ev_run():
                progress += 1
            for cid in list(self.conn_calls):
                self.ev_conn_ok(cid)
                progress += 1
            for did in list(self.disc_calls):
                self.ev_disc(did, True)
                progress += 1
            while self.ev_run():
                progress += 1
            for t, (db, c) in list(self.held_by.items()):
                self.ev_release(db, c, False)
                progress += 1
            while self.ev_run():
                progress += 1
            # let time pass: 50 ms per round, firing every timer that becomes due (ticks are
            # due every ~10 ms while somebody waits)
            target = self.clk.t + 0.05
            fired = 0
            while fired < 8:
                h = self.next_timer()
                if h is None or h._when > target:
                    break
                self.ev_timer()
                fired += 1
                while self.ev_run():
                    progress += 1
            if self.clk.t < target:
                self.clk.t = target
            busy = bool(self.conn_calls or self.disc_calls or self.held_by or self.loop._ready)
            if not self.pending_acquires() and not busy:
                break
            if progress == 0 and not busy:
                idle += 1
                if idle >= idle_limit:
                    break
            else:
                idle = 0
        starved = []
        p = self.pool
        for t in self.pending_acquires():
            kind, db, tk = self.tasks[t]
            b = p._blocks.get(db)
            st = {'task': t, 'db': db}
            if b is not None:
                st.update({'pending_conns': b.pending_conns, 'nconns': len(b.conns),
                           'stack': len(b.conn_stack), 'suppressed': b.suppressed,
                           'orphans': len([c for c, cs in b.conns.items()
                                           if not cs.in_use and c not in b.conn_stack]),
                           'cur': p._cur_capacity, 'max': p._max_capacity,
                           'nblocks': len(p._blocks), 'starving': p._is_starving,
                           'late_cancel': db in self.late_cancel_dbs,
                           'idle_elsewhere': any(len(b2.conn_stack) > 0 for b2 in p._blocks.values()
                                                 if b2 is not b)})
            st['tick_crashing'] = self.last_tick_crash
            st['tick_armed'] = p._htick is not None
            starved.append(st)
        bad_fail = []
        for t, (db, exc) in self.failed_acq.items():
            if db not in self.connect_fail_seen:
                bad_fail.append({'task': t, 'db': db, 'exc': exc})
        return {'rounds': rounds, 'exhausted': rounds >= max_rounds, 'starved': starved, 'unexpected_failures': bad_fail,
                'final': self.dig[-1] if self.dig else ''}


class Runaway(BaseException):
    pass


ALARMED = [None]


def _alarm(signum, frame):
    import traceback
    ALARMED[0] = ' <- '.join(f.name for f in traceback.extract_stack(frame)[-6:])
    raise Runaway('an atomic section of the pool did not return within the time limit')


CASE_SECONDS = float(os.environ.get('C15_CASE_SECONDS', '5'))     # per atomic section of pool code
SECTION_SECONDS = [CASE_SECONDS]
MAX_EVENTS = 60000


N_RUNAWAY = 0


def run_case(line):
    # a broken pool may loop for ever inside one atomic section: bound every case, and do not
    # spend minutes when (almost) every case of this process runs away
    global N_RUNAWAY
    import signal
    if N_RUNAWAY >= 8:
        return {'trace': '', 'dig': [], 'mon': [], 'skipped': 'too many runaway cases in this process'}
    ALARMED[0] = None
    signal.signal(signal.SIGALRM, _alarm)
    SECTION_SECONDS[0] = CASE_SECONDS if N_RUNAWAY < 2 else 1.5
    try:
        r = _run_case(line)
    finally:
        signal.setitimer(signal.ITIMER_REAL, 0)
    if r.get('runaway'):
        N_RUNAWAY += 1
        import gc
        gc.collect()
    return r


def _run_case(line):
    head, _, body = line.partition(';')
    hp = head.split(',')
    maxc, gc_ms = int(hp[0]), int(hp[1])
    drain = len(hp) > 2 and hp[2] == '1'
    sim = Sim(maxc, gc_ms)
    ops = [o for o in body.strip().split(' ') if o]
    res = {}
    try:
        sim.run_schedule(ops)
        nsched = len(sim.trace)
        if drain:
            res['c16'] = sim.drain()
    except Runaway as e:
        import traceback
        res['runaway'] = str(e) + ' :: ' + ' <- '.join(
            f.name for f in traceback.extract_tb(e.__traceback__)[-6:])
        nsched = len(sim.trace)
    except MemoryError as e:
        res['runaway'] = 'an atomic section of the pool allocated without bound (MemoryError under the 3 GB limit)'
        nsched = len(sim.trace)
    except Exception as e:  # harness failure: reported, never silently dropped
        import traceback
        res['harness_error'] = traceback.format_exc()[-1500:]
        nsched = len(sim.trace)
    nt = sim.nontrivial
    res.update({
        'trace': f'{maxc};' + ';'.join(sim.trace),
        'dig': sim.dig,
        'mon': sim.mon,
        'nsched': nsched,
        'unhandled': [str(c.get('message')) + ':' + repr(c.get('exception')) for c in sim.loop.unhandled],
        'stats': {'ndb': len(nt['dbs']), 'cap': nt['cap_reached'], 'waiter': nt['waiter'],
                  'closes': nt['transfer'], 'modes': sorted(nt['tick_modes']),
                  'kinds': dict(sim.kinds), 'nacq': sum(1 for v in sim.tasks.values() if v[0] == 'A'),
                  'afail': len(sim.failed_acq), 'cancelled': len(sim.cancelled),
                  'rebalance': sim.rebalance_stats},
    })
    return res


def main():
    try:
        import resource
        resource.setrlimit(resource.RLIMIT_AS, (3 << 30, 3 << 30))
    except Exception:
        pass
    for line in sys.stdin:
        line = line.rstrip('\n')
        if not line:
            print('{}')
            continue
        print(json.dumps(run_case(line), separators=(',', ':')))
    sys.stdout.flush()


if __name__ == '__main__':
    main()
