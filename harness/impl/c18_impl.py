"""Runs the REAL quoting code of the repo (argv[1]) on one case per input line, feeds the result to
the REAL Rust EdgeQL lexer (qllex binary built from the repo's tokenizer sources) and evaluates
the C18 monitors.  One output line per case:

    <out>\t<lex>\t<flags>

  out   = hex(utf-8 of the produced text)  |  X:<ExceptionType>  |  -  (nothing produced)
  lex   = canonical result of the real lexer on  out + k  (first token only):
              ok:<K>:<hex value>:<code points left after the token> | err | unm | -
          K: S Str, B BinStr, I Ident, K Keyword, P Parameter, N IntConst; everything else unm
  flags = comma separated monitor failures (the property's own predicate evaluated on the real
          behaviour, independent of the Coq model) or '-'

Case line:  <fn>\t<hex arg>\t<hex continuation k>\t<flags/int>
  E escape_string            L quote_literal          D dollar_quote_literal
  C visit_Constant(STRING) through codegen.generate_source
  B visit_BytesConstant through codegen.generate_source        (arg = raw bytes)
  I quote_ident  (flags bit0 force, bit1 allow_reserved, bit2 allow_num, bit3 allow_partial_reserved=False)
  P Parameter through codegen.generate_source (param_to_str)
  T ident_to_str (flags bit0 allow_num, bit1 allow_partial_reserved=True)  -- monitor only
  l pgsql quote_literal == dbops.encode_value == pgsql codegen StringConstant
  i pgsql quote_ident (bit0 force, bit1 column)
  b pgsql quote_bytea_literal == pgsql codegen ByteaConstant    (arg = raw bytes)
  q pgsql qname (arg = parts joined by U+001F; bit1 column)
  t pgsql quote_type (arg = parts joined by U+001F)             -- output only
  X raw EdgeQL text for the lexer (lexer-model correspondence; no Python function)
  Y raw SQL text (model only)
"""
import sys
import os

REPO = sys.argv[1]
HERE = os.path.dirname(os.path.abspath(__file__))
sys.path.insert(0, os.path.join(os.path.dirname(HERE), 'rt'))

import vrt  # noqa: E402
vrt.install()
import edb  # noqa: E402
assert os.path.realpath(edb.__path__[0]).startswith(os.path.realpath(REPO)), (edb.__path__, REPO)

import qllex  # noqa: E402
from edb.edgeql import quote as Q, codegen as CG, ast as qlast  # noqa: E402
from edb.pgsql import common as PC, codegen as PGC, ast as pgast  # noqa: E402
from edb.pgsql.dbops import base as DB  # noqa: E402

KIND = {'Str': 'S', 'BinStr': 'B', 'Ident': 'I', 'Parameter': 'P', 'IntConst': 'N'}
BIDI = set(range(0x202A, 0x202F)) | set(range(0x2066, 0x206A))


def lex_first(text):
    """first token of the real lexer on `text`: (canon string, kind, value, consumed exactly?)"""
    if text == '' or text[0] in ' \t\r\n#﻿':
        return 'unm', None, None, None, None
    try:
        r = qllex.tokenize(text)
    except UnicodeEncodeError:
        return 'unm', None, None, None, None
    toks = r.get('ok') if 'ok' in r else r.get('partial', [])
    if not toks or toks[0]['kind'] == 'EOI':
        return ('err' if 'err' in r else 'unm'), None, None, None, None
    t = toks[0]
    kind = t['kind']
    if kind.startswith('Keyword'):
        k = 'K'
    else:
        k = KIND.get(kind)
    if k is None:
        return 'unm', None, None, None, None
    raw = text.encode('utf-8')
    rest = raw[t['end']:].decode('utf-8')
    v = t['value']
    ttext = bytes.fromhex(t['text']).decode('utf-8')
    if k == 'B':
        val = bytes.fromhex(v['v'])
        vh = val.hex()
    elif k == 'N':
        val = int(v['v']) % (1 << 64)
        vh = str(val).encode().hex()
    else:
        val = bytes.fromhex(v['v']).decode('utf-8')
        vh = val.encode('utf-8').hex()
    return f'ok:{k}:{vh}:{len(rest)}', k, val, rest, ttext


def hx(s):
    return s.encode('utf-8').hex()


def dunder(s):
    return s.startswith('__') and s.endswith('__')


def ident_expressible(s, param=False):
    """names the lexer can express at all (bare or back-quoted)"""
    if not s or s[0] == '@' or '::' in s or dunder(s):
        return False
    if not param and s[0] == '$':
        return False
    return not any(ord(c) == 0 or ord(c) in BIDI for c in s)


def num_overflow(s, allow_num):
    """under allow_num an all-digit name is kept as an integer token (tuple index) by construction;
    that form can only express values < 2**64 -- larger all-digit names are outside the domain"""
    return allow_num and s.isascii() and s.isdigit() and int(s) >= 2 ** 64


def num_then_dot(out, k):
    """a bare all-digit name followed by '.': the lexer reads a decimal number (Proofs.ql_num_boundary
    excludes this continuation; the code generator only writes such names after a dot, where the
    tokenizer is in its tuple-index state)"""
    return out.isascii() and out.isdigit() and k.startswith('.')


def ql_gen(node):
    return CG.generate_source(node, pretty=False)


def run(fn, arg, k, fl):
    """returns (out text or None, lex canon, [flags])"""
    flags = []
    if fn == 'X':
        canon = lex_first(arg)[0]
        return None, canon, flags
    if fn == 'Y':
        return None, '-', flags
    if fn == 'E':
        return Q.escape_string(arg), '-', flags
    if fn in 'LDC':
        if fn == 'L':
            out = Q.quote_literal(arg)
        elif fn == 'D':
            out = Q.dollar_quote_literal(arg)
        else:
            out = ql_gen(qlast.Constant(kind=qlast.ConstantKind.STRING, value=arg))
            direct = CG.EdgeQLSourceGenerator()
            direct.visit_Constant(qlast.Constant(kind=qlast.ConstantKind.STRING, value=arg))
            if ''.join(direct.result) != out:
                flags.append('generate_source-differs-from-visit_Constant')
        canon, kind, val, rest, _ = lex_first(out + k)
        # NUL is not expressible in an EdgeQL string; the raw dollar form has no escapes, so it
        # cannot express the bidi controls the lexer prohibits either
        if '\x00' not in arg and not (fn == 'D' and any(ord(c) in BIDI for c in arg)):
            if canon == 'err':
                flags.append('lexer-rejects')
            elif kind != 'S':
                flags.append('not-a-string-token')
            elif rest != k:
                flags.append('breaks-out')
            elif val != arg:
                flags.append('value-changed')
        return out, canon, flags
    if fn == 'B':
        out = ql_gen(qlast.BytesConstant(value=arg))
        canon, kind, val, rest, _ = lex_first(out + k)
        if canon == 'err':
            flags.append('lexer-rejects')
        elif kind != 'B':
            flags.append('not-a-bytes-token')
        elif rest != k:
            flags.append('breaks-out')
        elif val != arg:
            flags.append('value-changed')
        return out, canon, flags
    if fn == 'I':
        force, ar, an, apr = bool(fl & 1), bool(fl & 2), bool(fl & 4), not (fl & 8)
        out = Q.quote_ident(arg, force=force, allow_reserved=ar, allow_num=an, allow_partial_reserved=apr)
        canon, kind, val, rest, ttext = lex_first(out + k)
        if ident_expressible(arg) and not num_overflow(arg, an) and not num_then_dot(out, k):
            if canon == 'err':
                flags.append('lexer-rejects')
            elif kind == 'N' and an and ttext == arg and rest == k:
                pass                                  # numeric name kept bare on request
            elif kind not in ('I', 'K'):
                flags.append('not-a-name-token')
            elif rest != k:
                flags.append('breaks-out')
            elif val != arg:
                flags.append('value-changed')
            elif kind == 'K':
                low = arg.lower()
                from edb.edgeql.parser.grammar import keywords as KW
                if not ar and low in KW.reserved_keywords and not dunder(low):
                    flags.append('reserved-keyword-left-bare')
                if not apr and low in KW.partial_reserved_keywords:
                    flags.append('partial-reserved-keyword-left-bare')
        return out, canon, flags
    if fn == 'P':
        out = ql_gen(qlast.Parameter(name=arg))
        if out != CG.param_to_str(arg):
            flags.append('generate_source-differs-from-param_to_str')
        canon, kind, val, rest, _ = lex_first(out + k)
        # names that already start with a backtick are passed through unchanged (outside the domain)
        if ident_expressible(arg, param=True) and not arg.startswith('`'):
            if canon == 'err':
                flags.append('lexer-rejects')
            elif kind != 'P':
                flags.append('not-a-parameter-token')
            elif rest != k:
                flags.append('breaks-out')
            elif val != arg:
                flags.append('value-changed')
        return out, canon, flags
    if fn == 'T':
        apr = bool(fl & 2)
        out = CG.ident_to_str(arg, allow_num=bool(fl & 1), allow_partial_reserved=apr)
        parts = arg.split('::')
        from edb.edgeql.parser.grammar import keywords as KW
        if all(ident_expressible(p) and not num_overflow(p, bool(fl & 1)) for p in parts) \
                and not num_then_dot(out.split('::')[-1], k):
            r = qllex.tokenize(out + k)
            toks = r.get('ok') if 'ok' in r else r.get('partial', [])
            want = []
            for i, p in enumerate(parts):
                if i:
                    want.append(('Namespace', None))
                want.append(('name', p))
            got = []
            for t in toks[:len(want)]:
                if t['kind'] == 'Namespace':
                    got.append(('Namespace', None))
                elif t['kind'] in ('Ident',) or t['kind'].startswith('Keyword'):
                    v = bytes.fromhex(t['value']['v']).decode()
                    if t['kind'] != 'Ident' and not apr and v.lower() in KW.partial_reserved_keywords:
                        got.append(('partial-reserved-keyword-left-bare', v))
                    else:
                        got.append(('name', v))
                elif t['kind'] == 'IntConst' and (fl & 1):
                    got.append(('name', bytes.fromhex(t['text']).decode()))
                else:
                    got.append((t['kind'], None))
            if got != want:
                flags.append('lexer-rejects' if 'err' in r and len(toks) < len(want) else 'tokens-differ')
            elif len(toks) > len(want) and (out + k).encode()[toks[len(want) - 1]['end']:].decode() != k:
                flags.append('breaks-out')
        return out, '-', flags
    if fn == 'l':
        out = PC.quote_literal(arg)
        if DB.encode_value(arg) != out:
            flags.append('encode_value-differs')
        if PGC.generate_source(pgast.StringConstant(val=arg)) != out:
            flags.append('pg-codegen-differs')
        return out, '-', flags
    if fn == 'i':
        out = PC.quote_ident(arg, force=bool(fl & 1), column=bool(fl & 2))
        if (fl & 3) == 2 and PC.quote_col(arg) != out:
            flags.append('quote_col-differs')
        return out, '-', flags
    if fn == 'b':
        out = PC.quote_bytea_literal(arg)
        if PGC.generate_source(pgast.ByteaConstant(val=arg)) != out:
            flags.append('pg-codegen-differs')
        return out, '-', flags
    if fn == 'q':
        parts = arg.split('\x1f')
        out = PC.qname(*parts, column=bool(fl & 2))
        return out, '-', flags
    if fn == 't':
        parts = arg.split('\x1f')
        out = PC.quote_type(tuple(parts) if len(parts) > 1 else parts[0])
        return out, '-', flags
    raise ValueError('unknown fn ' + fn)


# ----------------------------------------------------------------------------------------------
# code-point sweep: instantiates the Unicode-class parameters of the Coq model (record `uni`) and
# checks the ASCII definitions / per-character models against the real `re`, str methods, repr()
# and the real Rust lexer for ALL 0x110000 code points.

def _ranges(cs):
    out = []
    for c in cs:
        if out and out[-1][1] == c - 1:
            out[-1][1] = c
        else:
            out.append([c, c])
    return out


def _model_repr1(c, printable):
    if c == 39 or c == 92:
        return '\\' + chr(c)
    if c == 9:
        return '\\t'
    if c == 10:
        return '\\n'
    if c == 13:
        return '\\r'
    if c < 32 or c == 127:
        return '\\x%02x' % c
    if c < 127 or printable:
        return chr(c)
    if c < 256:
        return '\\x%02x' % c
    if c < 65536:
        return '\\u%04x' % c
    return '\\U%08x' % c


SWEEP_VERSION = 2


def sweep(outbase):
    import json
    import re
    import subprocess
    import unicodedata
    from concurrent.futures import ThreadPoolExecutor
    prob = []
    w, d, nwd = re.compile(r'\w'), re.compile(r'\d'), re.compile(r'[^\W\d]')
    alnum, dec, pr, low = [], [], [], {}
    for c in range(0x110000):
        ch = chr(c)
        an, de, p = ch.isalnum(), ch.isdecimal(), ch.isprintable()
        if an:
            alnum.append(c)
        if de:
            dec.append(c)
        if p:
            pr.append(c)
        if bool(w.fullmatch(ch)) != (an or ch == '_'):
            prob.append(f're \\w != isalnum|_ at U+{c:04X}')
        if bool(d.fullmatch(ch)) != de:
            prob.append(f're \\d != isdecimal at U+{c:04X}')
        if bool(nwd.fullmatch(ch)) != ((an or ch == '_') and not de):
            prob.append(f're [^\\W\\d] at U+{c:04X}')
        if (ch.replace('_', 'a').isalnum()) != (an or ch == '_'):
            prob.append(f"replace('_','a').isalnum at U+{c:04X}")
        if c != 39 and repr(ch) != "'" + _model_repr1(c, p) + "'":
            prob.append(f'repr model at U+{c:04X}: {repr(ch)}')
        lo = ch.lower()
        if lo != ch:
            low[c] = [ord(x) for x in lo]
        if c < 128:
            ea = (48 <= c <= 57) or (65 <= c <= 90) or (97 <= c <= 122)
            if an != ea or de != (48 <= c <= 57) or p != (32 <= c <= 126) or \
                    lo != (chr(c + 32) if 65 <= c <= 90 else ch):
                prob.append(f'ASCII definition of the python classes at U+{c:04X}')
    if repr("'") != '"\'"' or repr('\'"') != "'\\'\"'":
        prob.append('repr quote choice')
    # ---- the real Rust lexer
    binary = qllex.binary_path()
    cps = [c for c in range(0x110000) if not 0xD800 <= c < 0xE000]

    tok_re = re.compile(rb'"kind":"(\w+)(?:[^"\\]|\\.)*","text":"([0-9a-f]*)","value":(null|\{"t":"\w+","v":"([0-9a-f]*)"\})')

    def bulk(mk):
        data = ('\n'.join(mk(c).encode('utf-8').hex() for c in cps) + '\n').encode()
        out = subprocess.run([binary], input=data, stdout=subprocess.PIPE, check=True).stdout.split(b'\n')
        assert len(out) == len(cps) + 1, len(out)
        return out[:-1]

    with ThreadPoolExecutor(3) as ex:
        f1 = ex.submit(bulk, lambda c: 'a' + chr(c) + ' ' + chr(c))
        f2 = ex.submit(bulk, lambda c: "'" + chr(c) + "'")
        f3 = ex.submit(bulk, lambda c: "'\\\n" + chr(c) + "x'")
        r1, r2, r3 = f1.result(), f2.result(), f3.result()
    ralpha, ralnum, rwhite, rprohib = [], [], [], []
    for c, a, b, cc in zip(cps, r1, r2, r3):
        ch = chr(c)
        chx = ch.encode('utf-8').hex().encode()
        toks = tok_re.findall(a)
        is_alnum = bool(toks) and (toks[0][0] in (b'Ident', b'Keyword')) and toks[0][1] == b'61' + chx
        is_alpha = is_alnum and len(toks) > 1 and toks[1][0] == b'Ident' and toks[1][1] == chx
        proh = b.startswith(b'{"err"')
        if c in (39, 92):
            proh = False
        white = False
        if cc.startswith(b'{"ok"'):
            t3 = tok_re.findall(cc)
            white = t3[0][3] != chx + b'78'
        if c >= 128:
            if is_alnum:
                ralnum.append(c)
            if is_alpha:
                ralpha.append(c)
            if white:
                rwhite.append(c)
        else:
            ea = (65 <= c <= 90) or (97 <= c <= 122)
            if ch not in '\'"`_ \t\r\n#\\' and (is_alnum != (ea or 48 <= c <= 57) or is_alpha != ea):
                prob.append(f'ASCII definition of rs_alpha/rs_alnum at U+{c:04X}')
            if c not in (39, 92) and white != (c == 32 or 9 <= c <= 13):
                prob.append(f'ASCII definition of rs_white at U+{c:04X}')
        if proh:
            rprohib.append(c)
    model_prohib = [0] + list(range(0x202A, 0x202F)) + list(range(0x2066, 0x206A))
    if rprohib != model_prohib:
        prob.append(f'check_prohibited set differs from the model: {[hex(x) for x in rprohib][:20]}')
    sets = {'py_alnum': alnum, 'py_dec': dec, 'py_print': pr,
            'rs_alpha': ralpha, 'rs_alnum': ralnum, 'rs_white': rwhite}
    with open(outbase + '.tbl', 'w') as f:
        for k, v in sets.items():
            f.write(f'set {k} ' + ' '.join(f'{a}-{b}' for a, b in _ranges(v)) + '\n')
        for c, l in sorted(low.items()):
            f.write(f'low {c} ' + ','.join(map(str, l)) + '\n')
    A, D, P = set(alnum), set(dec), set(pr)
    RA, RN = set(ralpha) | {c for c in range(128) if chr(c).isalpha()}, \
        set(ralnum) | {c for c in range(128) if chr(c).isalnum()}
    scal = [c for c in cps if c >= 128]
    word_not_rsalnum = [c for c in scal if c in A and c not in RN]
    start_not_rsalpha = [c for c in scal if c in A and c not in D and c not in RA]
    word_not_alpha_or_digit = [c for c in scal if c in A and c not in RA]
    summary = {
        'problems': prob[:50], 'n_problems': len(prob),
        'unicode': unicodedata.unidata_version, 'python': sys.version.split()[0],
        'code_points_swept': 0x110000, 'code_points_through_rust_lexer': len(cps),
        'counts': {k: len(v) for k, v in sets.items()} | {'low': len(low), 'prohibited': len(rprohib)},
        'incompat': {
            'py_word_but_not_rust_alphanumeric': {'n': len(word_not_rsalnum), 'ranges': _ranges(word_not_rsalnum)[:40]},
            'py_identstart_but_not_rust_alphabetic': {'n': len(start_not_rsalpha), 'ranges': _ranges(start_not_rsalpha)[:40]},
            'py_word_but_not_rust_alphabetic_nor_ascii_digit': {'n': len(word_not_alpha_or_digit)},
            'py_decimal_non_ascii': {'n': len([c for c in dec if c >= 128])},
            'printable_and_prohibited': [c for c in rprohib if c in P],
            'lower_is_empty': [c for c, l in low.items() if not l],
            'c1_or_latin1_nonprintable': [c for c in range(128, 256) if c not in P],
        },
    }
    with open(outbase + '.json', 'w') as f:
        json.dump(summary, f, indent=1)


def main():
    if len(sys.argv) > 3 and sys.argv[2] == 'sweep':
        sweep(sys.argv[3])
        return
    for line in sys.stdin:
        line = line.rstrip('\n')
        if not line:
            print('-\t-\t-')
            continue
        fn, a, k, fl = line.split('\t')
        raw = bytes.fromhex(a)
        arg = raw if fn in 'Bb' else raw.decode('utf-8')
        kk = bytes.fromhex(k).decode('utf-8')
        try:
            out, canon, flags = run(fn, arg, kk, int(fl))
            o = '-' if out is None else hx(out)
        except qllex.QllexError:
            raise
        except Exception as e:   # noqa
            o, canon, flags = 'X:' + type(e).__name__, '-', ['raises-' + type(e).__name__]
            if fn in 'qt' or (fn in 'IPTi' and arg == ''):
                flags = []       # assertion on >3 parts / documented argument errors are not findings
        print(f'{o}\t{canon}\t{",".join(flags) if flags else "-"}')


main()
