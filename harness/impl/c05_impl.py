"""C05 -- drives the REAL DDL -> schema delta -> pgsql/delta -> dbops pipeline of the repo under test
and interprets the resulting dbops command stream with a small catalog simulator.

usage:  c05_impl.py <repo> [hist|script]

mode `hist`    one JSON case per stdin line -> one JSON result per line
               case = {"id": .., "steps": [{"ddl": "<one DDL statement>", "k": "<kind tag>"} |
                                           {"sdl": "<complete target schema>"} , ...],
                       "mig": bool   (wrap every bare DDL statement in CREATE MIGRATION, the way the
                                      server does when log_ddl_as_migrations is on),
                       "sql": bool   (also compile queries over the resulting schema with the real
                                      EdgeQL->IR->SQL compiler and look the relations / columns the SQL
                                      addresses up in the simulated catalog)}
               The database starts as the std schema + `create module default`.  Every step is run
               exactly like edb/server/compiler/ddl.py::_compile_and_apply_ddl_stmt/_process_delta:
                   new_schema, delta = s_ddl.delta_and_schema_from_ddl(stmt, schema=cur, ...)
                   pgdelta = pg_delta.CommandMeta.adapt(delta)
                   cur'    = pgdelta.apply(cur, CommandContext(backend_runtime_params=default,...))
                   pgdelta.generate(PLTopBlock())      (SQL text; used for the text cross-check)
               a step whose DDL raises is `rejected` (state unchanged; only ACCEPTED DDL counts).
               The pgdelta tree is walked in the order MetaCommand.generate() walks it and every dbops
               command is interpreted against the simulated catalog (see `Sim`).
mode `script`  debugging: stdin is a DDL script; prints ops + catalog per statement.

The repo path comes from argv[1] (lib.REPO / VERIF_REPO); nothing of the repo is modified.
"""
import json
import os
import re
import sys
import time
import traceback

REPO = sys.argv[1]
MODE = sys.argv[2] if len(sys.argv) > 2 else 'hist'
os.environ.setdefault('VRT_REPO', REPO)
sys.path.insert(0, os.path.join(os.path.dirname(os.path.dirname(os.path.abspath(__file__))), 'rt'))
import vrt  # noqa: E402

assert os.path.realpath(str(vrt.REPO)) == os.path.realpath(REPO), (vrt.REPO, REPO)
vrt.install()
import edb  # noqa: E402

assert os.path.realpath(edb.__path__[0]).startswith(os.path.realpath(REPO)), edb.__path__

from edb import edgeql  # noqa: E402
from edb import errors  # noqa: E402
from edb.edgeql import ast as qlast  # noqa: E402
from edb.schema import ddl as s_ddl  # noqa: E402
from edb.schema import delta as sd  # noqa: E402
from edb.schema import links as s_links  # noqa: E402
from edb.schema import objtypes as s_objtypes  # noqa: E402
from edb.schema import pointers as s_pointers  # noqa: E402
from edb.schema import properties as s_props  # noqa: E402
from edb.schema import utils as s_utils  # noqa: E402
from edb.pgsql import common as pg_common  # noqa: E402
from edb.pgsql import dbops  # noqa: E402
from edb.pgsql import delta as pg_delta  # noqa: E402
from edb.pgsql import params as pg_params  # noqa: E402
from edb.pgsql import types as pg_types  # noqa: E402

UUID_RE = re.compile(r'[0-9a-f]{8}-[0-9a-f]{4}-[0-9a-f]{4}-[0-9a-f]{4}-[0-9a-f]{12}')
USER_PG_SCHEMA = 'edgedbpub'


# =====================================================================================
#  catalog simulator
# =====================================================================================

class Abstain(Exception):
    """the interpreter met a construct it does not understand: no verdict on this history"""


class Sim:
    """tables: {(pgschema, name): {column name: True}}.  Interprets dbops commands with
    PostgreSQL's strictness: CREATE of an existing table/column, DROP/ALTER of a missing one are
    errors (recorded in self.errors; the step is then reported as a monitor failure).

    Every structural command met during the walk is recorded in `trace` as
        (verb, table, column|None, guard)      guard = tuple of '+T:<tab>' '-T:<tab>' '+C:<tab>:<col>' ...
    whether its guard held or not; `ops` holds the effects that took place."""

    # commands that cannot create, drop or rename a table or a column
    IGNORED = (
        'Comment', 'CreateIndex', 'DropIndex', 'CreateFunction', 'DropFunction', 'CreateTrigger',
        'DropTrigger', 'DisableTrigger', 'EnableTrigger', 'CreateView', 'DropView', 'CreateDomain',
        'AlterDomainAlterDefault', 'AlterDomainAlterNull', 'AlterDomainAddConstraint',
        'AlterDomainDropConstraint', 'DropDomain', 'CreateEnum', 'AlterEnumAddValue', 'DropEnum',
        'CreateCompositeType', 'AlterCompositeType', 'DropCompositeType', 'CreateRange', 'DropRange',
        'CreateSequence', 'DropSequence', 'UpdateMetadata', 'UpdateSingleDBMetadata',
        'UpdateMetadataSection', 'UpdateSingleDBMetadataSection', 'SetMetadata',
        'SetSingleDBMetadata', 'NoOpCommand', 'CreateOperator', 'CreateOperatorAlias', 'DropOperator',
        'Set', 'CreateExtension', 'DropExtension', 'ReassignOwned',
    )
    DDL_VERBS = re.compile(
        r'\b(CREATE\s+(TEMP(ORARY)?\s+)?(UNLOGGED\s+)?TABLE|DROP\s+TABLE|ALTER\s+TABLE|ADD\s+COLUMN|'
        r'DROP\s+COLUMN|RENAME\s+(TO|COLUMN))\b', re.I)

    def __init__(self):
        self.tables = {}
        self.reset_logs()

    def reset_logs(self):
        self.ops = []        # structural effects that took place: (verb, table, column|None)
        self.trace = []      # every structural command met: (verb, table, column|None, guard)
        self.errors = []
        self.flagged = []    # raw Query text that contains DDL verbs
        self.ignored = {}    # class name -> count
        self.nqueries = 0

    def clone(self):
        s = Sim()
        s.tables = {k: dict(v) for k, v in self.tables.items()}
        return s

    # ---- conditions
    def cond(self, c):
        """-> (truth value, printable form)"""
        if isinstance(c, dbops.TableExists):
            return tuple(c.name) in self.tables, ('T', tuple(c.name), None)
        if isinstance(c, dbops.ColumnExists):
            t = self.tables.get(tuple(c.table_name))
            return (t is not None and c.column_name in t), ('C', tuple(c.table_name), c.column_name)
        raise Abstain(f'condition {type(c).__name__ if not isinstance(c, str) else "text:" + c[:60]}')

    def guard(self, conditions, neg_conditions):
        """-> (holds, guard tuple)"""
        ok = True
        g = []
        for c in (conditions or ()):
            v, pr = self.cond(c)
            ok = v and ok
            g.append(('+',) + pr)
        for c in (neg_conditions or ()):
            v, pr = self.cond(c)
            ok = (not v) and ok
            g.append(('-',) + pr)
        return ok, tuple(sorted(g, key=repr))

    # ---- structural effects
    def create_table(self, name, cols):
        if name in self.tables:
            self.errors.append(['create-existing-table', list(name)])
            return
        self.tables[name] = {}
        self.ops.append(('CT', name, None))
        for c in cols:
            if c in self.tables[name]:
                self.errors.append(['duplicate-column-in-create', list(name), c])
            self.tables[name][c] = True
            self.ops.append(('AC', name, c))

    def drop_table(self, name):
        if name not in self.tables:
            self.errors.append(['drop-missing-table', list(name)])
            return
        for c in list(self.tables[name]):
            self.ops.append(('DC', name, c))
        del self.tables[name]
        self.ops.append(('DT', name, None))

    def add_column(self, name, col):
        t = self.tables[name]
        if col in t:
            self.errors.append(['add-existing-column', list(name), col])
            return
        t[col] = True
        self.ops.append(('AC', name, col))

    def drop_column(self, name, col):
        t = self.tables[name]
        if col not in t:
            self.errors.append(['drop-missing-column', list(name), col])
            return
        del t[col]
        self.ops.append(('DC', name, col))

    # ---- the walk (mirrors MetaCommand.generate / Command.generate / *.generate_self_block)
    # `live`: False while inside a group whose conditions did not hold (commands are recorded in the
    # trace but have no effect); `outer`: guard inherited from the enclosing conditional group, given
    # to the FIRST structural command inside it (a second one makes the interpreter abstain, because
    # the group's conditions are evaluated once, before its first command)
    def run(self, op, live=True, outer=None):
        if isinstance(op, sd.Command):                       # a pgsql.delta MetaCommand
            if not isinstance(op, pg_delta.MetaCommand):
                raise Abstain(f'non-adapted command {type(op).__name__} in pgops')
            if type(op).generate is not pg_delta.MetaCommand.generate:
                raise Abstain(f'{type(op).__name__}.generate is overridden')
            if outer is not None:
                raise Abstain('schema command inside a conditional dbops group')
            for sub in op.pgops:
                self.run(sub, live, None)
            return
        if not isinstance(op, dbops.BaseCommand):
            raise Abstain(f'unknown object {type(op).__name__} in pgops')
        cls = type(op).__name__
        # -- groups
        if isinstance(op, dbops.AlterTable):
            self.alter_table(op, live, outer)
            return
        if isinstance(op, dbops.CommandGroup):
            if not op.commands:
                return
            if op.conditions or op.neg_conditions:
                holds, g = self.guard(op.conditions, op.neg_conditions)
                if outer is not None:
                    raise Abstain('nested conditional groups')
                box = [g]
                for sub in op.commands:
                    self.run(sub, live and holds, box)
            else:
                for sub in op.commands:
                    self.run(sub, live, outer)
            return
        if isinstance(op, dbops.CompositeCommandGroup):
            if cls in self.IGNORED:
                self.ignored[cls] = self.ignored.get(cls, 0) + 1
                return
            raise Abstain(f'composite group {cls}')
        # -- tables
        if isinstance(op, dbops.CreateTable):
            name = tuple(op.table.name)
            if op.table.bases:
                raise Abstain('CREATE TABLE ... INHERITS')
            if getattr(op, 'temporary', False):
                raise Abstain('CREATE TEMPORARY TABLE')
            cols = [c.name for c in op.table.iter_columns(only_self=True)]
            holds, g = self.guard(op.conditions, op.neg_conditions)
            g = self.take_outer(outer, g)
            self.trace.append(('CT', name, tuple(cols), g))
            if live and holds:
                self.create_table(name, cols)
            return
        if isinstance(op, dbops.DropTable):
            name = tuple(op.name)
            holds, g = self.guard(op.conditions, op.neg_conditions)
            g = self.take_outer(outer, g)
            self.trace.append(('DT', name, None, g))
            if live and holds:
                self.drop_table(name)
            return
        # -- raw text
        if isinstance(op, dbops.Query):
            self.nqueries += 1
            txt = op.text if isinstance(op.text, str) else str(op.text)
            m = self.DDL_VERBS.search(txt)
            if m:
                self.flagged.append(txt[max(0, m.start() - 40): m.end() + 80])
            if op.conditions or op.neg_conditions:
                self.guard(op.conditions, op.neg_conditions)
            return
        if cls in self.IGNORED:
            self.ignored[cls] = self.ignored.get(cls, 0) + 1
            return
        mod = type(op).__module__
        if mod.endswith('.trampoline'):
            self.ignored[cls] = self.ignored.get(cls, 0) + 1
            return
        raise Abstain(f'dbops command {mod}.{cls}')

    @staticmethod
    def take_outer(outer, g):
        if outer is None:
            return g
        if not outer:
            raise Abstain('several structural commands inside one conditional group')
        og = outer.pop()
        return tuple(sorted(og + g, key=repr))

    def alter_table(self, op, live, outer):
        if not op.commands:
            return
        name = tuple(op.name)
        holds, g0 = self.guard(op.conditions, op.neg_conditions)
        live = live and holds
        # CompositeCommandGroup.generate_self_block: conditional fragments are emitted first, each as
        # its own statement in order; the unconditional ones follow as ONE statement
        cond_frags, plain = [], []
        for f in op.commands:
            if isinstance(f, tuple) and (f[1] or f[2]):
                cond_frags.append(f)
            elif isinstance(f, tuple):
                plain.append(f[0])
            else:
                plain.append(f)
        for f, cs, ncs in cond_frags:
            h, g = self.guard(cs, ncs)
            self.fragment(name, f, live and h, tuple(sorted(g0 + g, key=repr)), outer)
        for f in plain:
            self.fragment(name, f, live, g0, outer)

    def fragment(self, name, f, live, g, outer):
        cls = type(f).__name__
        structural = isinstance(f, (dbops.AlterTableAddColumn, dbops.AlterTableDropColumn))
        if structural:
            g = self.take_outer(outer, g)
            verb = 'AC' if isinstance(f, dbops.AlterTableAddColumn) else 'DC'
            self.trace.append((verb, name, f.attribute.name, g))
        if not live:
            return
        if name not in self.tables:
            self.errors.append(['alter-missing-table', list(name), cls])
            return
        if isinstance(f, dbops.AlterTableAddColumn):
            self.add_column(name, f.attribute.name)
        elif isinstance(f, dbops.AlterTableDropColumn):
            self.drop_column(name, f.attribute.name)
        elif isinstance(f, (dbops.AlterTableAlterColumnNull, dbops.AlterTableAlterColumnDefault)):
            if f.column_name not in self.tables[name]:
                self.errors.append(['alter-missing-column', list(name), f.column_name, cls])
        elif isinstance(f, dbops.AlterTableAlterColumnType):
            if str(f.attribute_name) not in self.tables[name]:
                self.errors.append(['alter-missing-column', list(name), str(f.attribute_name), cls])
        elif isinstance(f, (dbops.AlterTableAddConstraint, dbops.AlterTableDropConstraint)):
            pass
        elif isinstance(f, (dbops.AlterTableAddParent, dbops.AlterTableDropParent)):
            raise Abstain('table inheritance ' + cls)
        else:
            raise Abstain('ALTER TABLE fragment ' + cls)


# SQL text cross-check: the structural statements in the generated SQL text
_Q = r'(?:"((?:[^"]|"")+)"|([A-Za-z_][A-Za-z_0-9$]*))'
SQL_CT = re.compile(r'\bCREATE\s+TABLE\s+' + _Q + r'\.' + _Q)
SQL_DT = re.compile(r'\bDROP\s+TABLE\s+' + _Q + r'\.' + _Q)
SQL_AT = re.compile(r'\bALTER\s+TABLE\s+(?:ONLY\s+)?' + _Q + r'\.' + _Q + r'\s+((?:[^;\'$]|\'(?:[^\']|\'\')*\')*)')
SQL_ADD = re.compile(r'\bADD\s+COLUMN\s+' + _Q)
SQL_DROP = re.compile(r'\bDROP\s+COLUMN\s+' + _Q)


def _g(m, i):
    a = m.group(i)
    return a.replace('""', '"') if a is not None else m.group(i + 1)


def sql_structural(text):
    """multiset of structural statements in SQL text (trigger/function bodies contain none)"""
    out = []
    for m in SQL_CT.finditer(text):
        out.append(('CT', (_g(m, 1), _g(m, 3)), None))
    for m in SQL_DT.finditer(text):
        out.append(('DT', (_g(m, 1), _g(m, 3)), None))
    for m in SQL_AT.finditer(text):
        tab = (_g(m, 1), _g(m, 3))
        body = m.group(5)
        for a in SQL_ADD.finditer(body):
            out.append(('AC', tab, _g(a, 1)))
        for a in SQL_DROP.finditer(body):
            out.append(('DC', tab, _g(a, 1)))
    return sorted(out, key=repr)


# =====================================================================================
#  the layout the query compiler assumes (monitor side; uses the REAL pgsql.types functions)
# =====================================================================================

_uo_cache = [None, None]


def user_objects(schema, type):
    """non-std objects of the given class (one scan of the schema per schema value)"""
    if _uo_cache[0] is not schema:
        _uo_cache[0] = schema
        _uo_cache[1] = [o for o in schema.get_objects(exclude_stdlib=True)
                        if isinstance(o, (s_objtypes.ObjectType, s_pointers.Pointer))]
    return [o for o in _uo_cache[1] if isinstance(o, type)]


def expected_layout(schema):
    """{table: set(columns)} that edb.pgsql.types says exists for the user part of `schema`,
    plus a list of problems met while asking."""
    tabs = {}
    probs = []
    for ot in user_objects(schema, s_objtypes.ObjectType):
        if pg_types.has_table(ot, schema):
            tabs[tuple(pg_common.get_backend_name(schema, ot, catenate=False))] = set()
    ptrs = user_objects(schema, s_pointers.Pointer)
    for p in ptrs:
        if pg_types.has_table(p, schema):
            tabs[tuple(pg_common.get_backend_name(schema, p, catenate=False))] = {'source', 'target'}
    for p in ptrs:
        if p.is_non_concrete(schema):
            src = None
        else:
            src = p.get_source(schema)
        if p.is_pure_computable(schema):
            continue
        sn_ = p.get_shortname(schema).name
        if src is None:
            continue
        if not pg_types.has_table(src, schema):
            continue
        if isinstance(src, s_objtypes.ObjectType):
            if sn_ == '__type__':
                continue        # never stored ("We optimize away __type__ and don't store it")
            info = pg_types.get_pointer_storage_info(p, schema=schema)
            if info is None or info.table_name is None:
                probs.append(['no-storage', str(p.get_name(schema))])
                continue
            tn = tuple(info.table_name)
            if tn not in tabs:
                probs.append(['storage-in-table-without-has_table', str(p.get_name(schema)), list(tn)])
                tabs[tn] = set()
            tabs[tn].add(info.column_name)
            if info.table_type == 'link':
                tabs[tn].add('source')
        else:
            # link property: lives in the link's table
            info = pg_types.get_pointer_storage_info(p, schema=schema, link_bias=True)
            if info is None or info.table_name is None:
                probs.append(['no-storage', str(p.get_name(schema))])
                continue
            tn = tuple(info.table_name)
            if tn not in tabs:
                probs.append(['storage-in-table-without-has_table', str(p.get_name(schema)), list(tn)])
                tabs[tn] = set()
            tabs[tn].add(info.column_name)
    return tabs, probs


def ptrref_check(schema):
    """the compiler's own variant (get_ptrref_storage_info over IR pointer refs) must give the same
    answer as get_pointer_storage_info for every stored pointer"""
    from edb.ir import typeutils as irtyputils
    bad = []
    n = 0
    for p in user_objects(schema, s_pointers.Pointer):
        if p.is_non_concrete(schema) or p.is_pure_computable(schema):
            continue
        src = p.get_source(schema)
        if src is None or not pg_types.has_table(src, schema):
            continue
        if isinstance(src, s_links.Link) and (src.is_non_concrete(schema) or src.is_pure_computable(schema)):
            continue
        if p.get_shortname(schema).name == '__type__' or p.is_endpoint_pointer(schema):
            continue        # link@source / link@target are aliases of the link itself
        for bias in (False, True):
            try:
                a = pg_types.get_pointer_storage_info(p, schema=schema, link_bias=bias, resolve_type=False)
                ref = irtyputils.ptrref_from_ptrcls(schema=schema, ptrcls=p, cache=None, typeref_cache=None)
                b = pg_types.get_ptrref_storage_info(ref, link_bias=bias, resolve_type=False, allow_missing=True)
            except Exception as e:  # noqa
                bad.append([str(p.get_name(schema)), bias, 'raised ' + type(e).__name__ + ': ' + str(e)[:120]])
                continue
            n += 1
            ta = None if a is None else (tuple(a.table_name or ()), a.table_type, a.column_name)
            tb = None if b is None else (tuple(b.table_name or ()), b.table_type, b.column_name)
            if ta != tb:
                bad.append([str(p.get_name(schema)), bias, repr(ta), repr(tb)])
    return n, bad


def sql_addresses(schema, sim, names, limit=6):
    """compile `select T { stored pointers..., link: { @lprops } }` for the user types with the real
    compiler and check that every relation of schema edgedbpub and every uuid-named column the SQL
    addresses exists in the simulated catalog."""
    from edb.edgeql import compiler as qlcompiler
    from edb.edgeql import parser as qlparser
    from edb.pgsql import compiler as pgcompiler
    from edb.pgsql import ast as pgast
    from edb.common import ast as cast
    bad = []
    n = 0
    ots = [o for o in user_objects(schema, s_objtypes.ObjectType) if pg_types.has_table(o, schema)]
    ots.sort(key=lambda o: str(o.get_name(schema)))
    # columns named after the pointer (names starting with `__`, see types._source_table_info)
    by_name = {p.get_shortname(schema).name for p in user_objects(schema, s_pointers.Pointer)}
    by_name = {x for x in by_name if x.startswith('__') and x != '__type__'}
    for ot in ots[:limit]:
        els = []
        for pn, p in ot.get_pointers(schema).items(schema):
            pn = str(pn)
            if pn in ('__type__',):
                continue
            q = pg_common.quote_ident
            qn = '`' + pn + '`'
            if isinstance(p, s_links.Link):
                lps = [str(k) for k, lp in p.get_pointers(schema).items(schema)
                       if str(k) not in ('source', 'target')]
                inner = ', '.join(['id'] + ['@`' + k + '`' for k in lps])
                els.append(f'{qn}: {{ {inner} }}')
            else:
                els.append(qn)
        name = ot.get_name(schema)
        text = f'select `{name.module}`::`{name.name}` {{ {", ".join(els)} }}'
        try:
            ir = qlcompiler.compile_ast_to_ir(
                qlparser.parse_query(text), schema,
                options=qlcompiler.CompilerOptions(modaliases={None: 'default'}))
            res = pgcompiler.compile_ir_to_sql_tree(ir, output_format=pgcompiler.OutputFormat.NATIVE)
        except errors.EdgeDBError as e:
            bad.append(['compile-error', text[:200], type(e).__name__ + ': ' + str(e)[:160]])
            continue
        n += 1
        rels = set()
        cols = set()

        class V(cast.NodeVisitor):
            def visit_Relation(self, node):
                if node.schemaname == USER_PG_SCHEMA:
                    rels.add((node.schemaname, node.name))
                self.generic_visit(node)

            def visit_ColumnRef(self, node):
                for part in node.name:
                    if isinstance(part, str) and (UUID_RE.fullmatch(part) or part in by_name):
                        cols.add(part)
                self.generic_visit(node)
        V().visit(res.ast)
        for r in sorted(rels):
            if r not in sim.tables:
                bad.append(['sql-addresses-missing-table', names.table(r), text[:200]])
        have = set()
        for r in rels:
            have |= set(sim.tables.get(r, ()))
        for c in sorted(cols):
            if c not in have:
                bad.append(['sql-addresses-missing-column', names.column(c), text[:200]])
    return n, bad


# =====================================================================================
#  canonical names
# =====================================================================================

class Names:
    """uuid -> readable path, learnt from every schema the history goes through.
    object type  -> T:<name>;  pointer -> P:<Type>.<ptr> | P:<Type>.<link>@<prop> | A:<abstract ptr>"""

    def __init__(self):
        self.cur = {}
        self.prev = {}

    def learn(self, schema):
        self.prev = self.cur
        cur = {}
        for ot in user_objects(schema, s_objtypes.ObjectType):
            cur[str(ot.id)] = 'T:' + ot.get_name(schema).name
        for p in user_objects(schema, s_pointers.Pointer):
            cur[str(p.id)] = self.ptr_path(schema, p)
        self.cur = cur

    @staticmethod
    def ptr_path(schema, p):
        if p.is_non_concrete(schema):
            return 'A:' + p.get_name(schema).name
        src = p.get_source(schema)
        sn_ = p.get_shortname(schema).name
        if isinstance(src, s_pointers.Pointer):
            return Names.ptr_path(schema, src) + '@' + sn_
        if src is None:
            return 'P:?.' + sn_
        return 'P:' + src.get_name(schema).name + '.' + sn_

    def of(self, ident):
        if ident in self.cur:
            return self.cur[ident]
        if ident in self.prev:
            return self.prev[ident]
        return None

    def table(self, name):
        if name[0] != USER_PG_SCHEMA:
            return '/'.join(name)
        return self.of(name[1]) or ('?' + name[1])

    def column(self, col):
        if UUID_RE.fullmatch(col):
            p = self.of(col)
            if p is None:
                return '?' + col
            return re.split(r'[.@]', p)[-1]
        return col

    def op(self, o):
        verb, tab, col = o
        if col is None:
            return f'{verb} {self.table(tab)}'
        return f'{verb} {self.table(tab)} {self.column(col)}'

    def trace(self, e):
        verb, tab, col, guard = e
        out = verb + ' ' + self.table(tab)
        if verb == 'CT':
            out += ' [' + ','.join(sorted(self.column(c) for c in col)) + ']'
        elif col is not None:
            out += ' ' + self.column(col)
        for sign, kind, gt, gc in guard:
            out += f' {sign}{kind}({self.table(gt)}' + (',' + self.column(gc) if gc is not None else '') + ')'
        return out

    def catalog(self, tables):
        out = {}
        for t, cols in tables.items():
            if t[0] != USER_PG_SCHEMA:
                continue
            out[self.table(t)] = sorted(self.column(c) for c in cols)
        return dict(sorted(out.items()))


# =====================================================================================
#  running a history
# =====================================================================================

_std = None


def base_schema():
    global _std
    if _std is None:
        std = vrt.std_schema()
        stmt = edgeql.parse_block('create module default;')[0]
        _std, _ = s_ddl.delta_and_schema_from_ddl(stmt, schema=std, modaliases={None: 'default'}, testmode=True)
    return _std


def errinfo(e):
    tb = traceback.extract_tb(e.__traceback__)
    where = ''
    for fr in reversed(tb):
        if '/edb/' in fr.filename:
            where = f'{fr.filename.split("/edb/")[-1]}:{fr.name}:{fr.lineno}'
            break
    return {'type': type(e).__name__, 'msg': str(e)[:240], 'where': where,
            'edgedb_error': isinstance(e, errors.EdgeDBError)}


def new_context():
    return sd.CommandContext(
        backend_runtime_params=pg_params.get_default_runtime_params(),
        stdmode=False, testmode=True, internal_schema_mode=False)


def wrap_migration(stmt):
    return qlast.CreateMigration(
        body=qlast.NestedQLBlock(commands=[stmt]),
        commands=[qlast.SetField(
            name='generated_by',
            value=qlast.Path(steps=[qlast.ObjectRef(name='MigrationGeneratedBy', module='schema'),
                                    qlast.Ptr(name='DDLStatement')]))])


def sdl_to_stmt(cur, sdl_text):
    """START MIGRATION TO {sdl}; POPULATE MIGRATION; COMMIT MIGRATION as one CREATE MIGRATION"""
    from edb.edgeql import parser as qlparser
    sdl = qlparser.parse_sdl(sdl_text)
    target = s_ddl.apply_sdl(sdl, base_schema=vrt.std_schema(), current_schema=cur, testmode=True)[0]
    diff = s_ddl.delta_schemas(cur, target)
    new_ddl = tuple(s_ddl.ddlast_from_delta(cur, target, diff, testmode=True))
    last = cur.get_last_migration()
    parent = s_utils.name_to_ast_ref(last.get_name(cur)) if last else None
    return qlast.CreateMigration(body=qlast.NestedQLBlock(commands=list(new_ddl)), parent=parent)


def run_stmt(cur, stmt):
    """-> (status, new schema | None, pgdelta | None, err | None)"""
    try:
        _new_schema, delta = s_ddl.delta_and_schema_from_ddl(
            stmt, schema=cur, modaliases={None: 'default'}, testmode=True)
    except errors.EdgeDBError as e:
        return 'rejected', None, None, errinfo(e)
    except Exception as e:  # noqa   internal error while compiling the DDL: not accepted either
        return 'rejected-ise', None, None, errinfo(e)
    try:
        pgdelta = pg_delta.CommandMeta.adapt(delta)
        schema = pgdelta.apply(cur, new_context())
    except errors.EdgeDBError as e:
        return 'pg-rejected', None, None, errinfo(e)
    except Exception as e:  # noqa
        return 'pg-ise', None, None, errinfo(e)
    return 'ok', schema, pgdelta, None


def run_history(case, verbose=False):
    cur = base_schema()
    sim = Sim()
    names = Names()
    names.learn(cur)
    out = {'id': case.get('id'), 'steps': []}
    want_sql = bool(case.get('sql'))
    dead = False
    for i, st in enumerate(case['steps']):
        r = {}
        out['steps'].append(r)
        if dead:
            r['status'] = 'skipped'
            continue
        t0 = time.time()
        try:
            if 'sdl' in st:
                try:
                    stmt = sdl_to_stmt(cur, st['sdl'])
                except errors.EdgeDBError as e:
                    r['status'] = 'rejected'
                    r['err'] = errinfo(e)
                    continue
                except Exception as e:  # noqa
                    r['status'] = 'rejected-ise'
                    r['err'] = errinfo(e)
                    continue
            else:
                stmts = edgeql.parse_block(st['ddl'])
                if len(stmts) != 1:
                    r['status'] = 'harness-error'
                    r['err'] = {'msg': f'{len(stmts)} statements in one step'}
                    continue
                stmt = stmts[0]
                if case.get('mig'):
                    stmt = wrap_migration(stmt)
        except errors.EdgeDBError as e:
            r['status'] = 'rejected'
            r['err'] = errinfo(e)
            continue
        status, schema, pgdelta, err = run_stmt(cur, stmt)
        r['status'] = status
        if err:
            r['err'] = err
        if status != 'ok':
            continue
        # ---- interpret the command stream on a copy (an abstention must not corrupt the catalog)
        trial = sim.clone()
        mon = []
        try:
            trial.run(pgdelta)
            # CreateTrampolines is generated separately by _process_delta
            tr = getattr(pgdelta, 'create_trampolines', None)
            if tr is not None:
                trial.run(tr)
        except Abstain as a:
            r['status'] = 'abstain'
            r['abstain'] = str(a)
            dead = True          # the catalog after this step is unknown: no verdict on the rest
            continue
        except Exception as e:  # noqa
            r['status'] = 'harness-error'
            r['err'] = errinfo(e)
            r['tb'] = traceback.format_exc()[-800:]
            dead = True
            continue
        if trial.flagged:
            r['status'] = 'abstain'
            r['abstain'] = 'raw Query text contains DDL verbs: ' + trial.flagged[0][:160]
            dead = True
            continue
        # ---- SQL text cross-check of the walk
        try:
            block = dbops.PLTopBlock()
            pgdelta.generate(block)
            if getattr(pgdelta, 'create_trampolines', None) is not None:
                pgdelta.create_trampolines.generate(block)
            text = block.to_string()
            in_sql = sql_structural(text)
            walked = sorted(((v, t, (None if v in ('CT', 'DT') else c)) for v, t, c, _g in trial.trace),
                            key=repr)
            if [list(map(_l, x)) for x in in_sql] != [list(map(_l, x)) for x in walked]:
                mon.append(['walk-differs-from-sql-text',
                            [names_safe(names, x) for x in walked][:8],
                            [names_safe(names, x) for x in in_sql][:8]])
            r['sql_len'] = len(text)
        except Exception as e:  # noqa
            mon.append(['generate-raised', errinfo(e)])
        sim = trial
        cur = schema
        names.learn(cur)
        # ---- monitors on the real code
        for e in sim.errors:
            e2 = list(e)
            e2[1] = names.table(tuple(e2[1]))
            if len(e2) > 2 and isinstance(e2[2], str):
                e2[2] = names.column(e2[2])
            mon.append(['pg-error'] + e2)
        try:
            exp, probs = expected_layout(cur)
        except Exception as e:  # noqa
            exp, probs = None, [['expected-layout-raised', errinfo(e)]]
        for p in probs:
            mon.append(['layout-problem'] + p)
        if exp is not None:
            have = {t: set(c) for t, c in sim.tables.items() if t[0] == USER_PG_SCHEMA}
            for t in sorted(set(exp) - set(have)):
                mon.append(['missing-table', names.table(t)])
            for t in sorted(set(have) - set(exp)):
                mon.append(['orphan-table', names.table(t)])
            for t in sorted(set(exp) & set(have)):
                for c in sorted(exp[t] - have[t]):
                    mon.append(['missing-column', names.table(t), names.column(c)])
                for c in sorted(have[t] - exp[t]):
                    mon.append(['orphan-column', names.table(t), names.column(c)])
        ops = [names.op(o) for o in sim.ops]
        if st.get('k') in ('rename', 'SA', 'SR') and ops:
            # renames, abstract<->concrete, required<->optional must not create or drop anything
            mon.append(['rename-touches-storage' if st.get('k') == 'rename' else 'neutral-command-touches-storage',
                        ops[:6]])
        if exp is not None:
            # "no command drops storage that is still in use": something dropped by this step that the
            # layout of the RESULTING schema addresses was dropped and re-created (its data is gone)
            for verb, tab, col in sim.ops:
                if tab[0] != USER_PG_SCHEMA:
                    continue
                if verb == 'DT' and tab in exp:
                    mon.append(['drops-storage-in-use', names.table(tab)])
                elif verb == 'DC' and tab in exp and col in exp[tab] and ('DT', tab, None) not in sim.ops:
                    mon.append(['drops-storage-in-use', names.table(tab), names.column(col)])
        try:
            nref, bad = ptrref_check(cur)
            r['nref'] = nref
            for b in bad[:4]:
                mon.append(['ptrref-storage-differs'] + b)
        except Exception as e:  # noqa
            mon.append(['ptrref-check-raised', errinfo(e)])
        if want_sql and (i == len(case['steps']) - 1 or st.get('probe')):
            try:
                nq, bad = sql_addresses(cur, sim, names)
                r['nsql'] = nq
                for b in bad[:4]:
                    mon.append(b)
            except Exception as e:  # noqa
                mon.append(['sql-probe-raised', errinfo(e), traceback.format_exc()[-600:]])
        r['ops'] = ops
        r['trace'] = [names.trace(e) for e in sim.trace]
        r['cat'] = names.catalog(sim.tables)
        r['nq'] = sim.nqueries
        r['ign'] = sim.ignored
        if mon:
            r['mon'] = mon
        r['t'] = round(time.time() - t0, 3)
        # reset per-step logs
        sim.reset_logs()
    return out


def _l(x):
    return list(x) if isinstance(x, tuple) else x


def names_safe(names, o):
    try:
        return names.op(o)
    except Exception:  # noqa
        return repr(o)


def main():
    if MODE == 'script':
        text = sys.stdin.read()
        steps = [{'ddl': s.strip() + ';'} for s in re.split(r';\s*\n', text) if s.strip()]
        for s in steps:
            if s['ddl'].lower().startswith('rename!'):
                s['ddl'] = s['ddl'][7:]
                s['k'] = 'rename'
        res = run_history({'id': 'script', 'steps': steps, 'sql': '--sql' in sys.argv,
                           'mig': '--mig' in sys.argv})
        for st, r in zip(steps, res['steps']):
            print('>>>', st['ddl'])
            print('   status:', r['status'], r.get('err', {}).get('type', ''), r.get('err', {}).get('msg', ''),
                  r.get('abstain', ''))
            if r['status'] == 'ok':
                print('   ops   :', r['ops'])
                print('   trace :', r['trace'])
                print('   cat   :', r['cat'])
                if r.get('mon'):
                    print('   MON   :', json.dumps(r['mon'])[:1500])
        return
    base_schema()
    for line in sys.stdin:
        line = line.rstrip('\n')
        if not line:
            continue
        try:
            out = run_history(json.loads(line))
        except Exception as e:  # noqa
            out = {'harness_error': errinfo(e), 'tb': traceback.format_exc()[-1500:]}
        print(json.dumps(out, default=str), flush=True)


if __name__ == '__main__':
    main()
