"""Load a Cython source file of /repo as a plain Python module (fail closed).

`load(repo, 'edb/server/dbview/dbview.pyx', inject={...})` translates the CURRENT text of the
file with harness/translate/pyx2py.py (stripping only the C declaration layer), applies the
attribute defaults and enums of the companion .pxd, and executes the result in a fresh module
namespace.  Compilation uses PEP 563 semantics for annotations, as Cython 3 does.  Nothing is
cached: every run executes what the working tree says now.
"""
import __future__
import enum
import os
import sys
import types

sys.path.insert(0, os.path.join(os.path.dirname(os.path.abspath(__file__)), '..', 'translate'))
import pyx2py  # noqa


class AnyModule(types.ModuleType):
    """stand-in for a module that cannot be imported here; attributes are inert classes"""
    def __getattr__(self, n):
        if n.startswith('__'):
            raise AttributeError(n)
        v = type(n, (), {})
        setattr(self, n, v)
        return v


def stub_module(name, **attrs):
    m = AnyModule(name)
    m.__path__ = []
    m.__dict__.update(attrs)
    sys.modules[name] = m
    parent, _, leaf = name.rpartition('.')
    if parent and parent in sys.modules:
        setattr(sys.modules[parent], leaf, m)
    return m


def load(repo, rel, modname=None, inject=None):
    path = os.path.join(repo, rel)
    src = pyx2py.translate(open(path).read(), rel)
    modname = modname or rel[:-4].replace('/', '.') + '__pyx'
    mod = types.ModuleType(modname)
    mod.__file__ = path
    mod.__dict__.update(pyx2py.namespace_ctypes())
    classes, enums = {}, {}
    pxd = path[:-4] + '.pxd'
    if os.path.exists(pxd):
        classes, enums = pyx2py.pxd_info(open(pxd).read(), rel[:-4] + '.pxd')
    for nm, members in enums.items():
        mod.__dict__[nm] = enum.IntFlag(nm, members)
    if inject:
        mod.__dict__.update(inject)
    sys.modules[modname] = mod
    code = compile(src, path, 'exec', flags=__future__.annotations.compiler_flag)
    exec(code, mod.__dict__)
    for cname, attrs in classes.items():
        cls = mod.__dict__.get(cname)
        if cls is None:
            raise pyx2py.TranslateError(f'{rel}: class {cname} of the .pxd is not defined by the .pyx')
        for a, dv in attrs.items():
            if a not in cls.__dict__:
                setattr(cls, a, dv)
    return mod
