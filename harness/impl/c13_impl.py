"""C13 implementation driver: runs the REAL EdgeQL->SQL compiler of the tree given as argv[1]
on one case per stdin line and prints one result line per case (JSON).

Usage:  python c13_impl.py <repo> <spec.json>        (lines on stdin)
        python c13_impl.py <repo> --build-schemas <spec.json>   (pre-build the schema pickles)

spec.json (written by harness/props/c13.py):
  {"schemas": {"<sid>": {"sdl": "<SDL text>", "modname": "default"|null}, ...},
   "cache": "<dir for schema pickles>"}

Case line:   Q <sid> <mode> <hex utf-8 EdgeQL text>
   mode:  n = edb.edgeql.compiler.compile_ast_to_ir + edb.pgsql.compiler.compile_ir_to_sql_tree
              (OutputFormat.NATIVE), the call tests/test_edgeql_sql_codegen.py makes
          j = the same with OutputFormat.JSON
          s = the server compiler (edb.server.compiler: compile_edgeql_script on a Compiler built as
              edb.testbase.lang.new_compiler does): constants are extracted into extra parameters,
              QueryUnit.sql / in_type_args / in_type_data / out_type_data are observed

Result line (JSON object):
  {"st": "ok"|"rej"|"crash"|"unsup",      ok = compiled;  rej = EdgeDBError (query not accepted);
                                           crash = non-EdgeDB exception inside the compiler;
                                           unsup = the abstraction met a pgast node it does not know
   "err": "<exception class>: <message head>",
   "term": "<abstract SQL term, s-expression>",     (see TERM LANGUAGE below)
   "names": [..],                                   interned identifier table (index = id)
   "np": k, "argmap": [[name, index, logical_index, required, is_sub, has_sub], ...],
   "digest": sha256 of (SQL text, argmap, descriptors)   -- compared across processes / hash seeds
   "sqllen": n, "mon": ["<monitor failure>", ...],        monitors evaluated on the real output
   "feat": {...}}                                         measured features of the emitted SQL

Monitors (all evaluated here, on the real compiler's output; independent of the Coq model):
  nondet-inprocess   compiling the same text twice in this process gives different SQL text / argmap /
                     descriptors
  text-skeleton      the token skeleton of the emitted SQL text (subquery parentheses, LATERAL, qualified
                     column references, aliases, CTE names, $n) differs from the skeleton of the tree walk that
                     produced the abstract term  (ties the abstraction to edb.pgsql.codegen's text)
  params-text        the set of $n in the SQL text (string literals / quoted identifiers skipped) is not
                     exactly the set of physical indexes the argument map reports for non-composite
                     parameters, or the indexes are not 1..k, or two entries share an index
  params-logical     logical indexes of user parameters are not 1..m in argmap order
  params-unit        (mode s) QueryUnit.in_type_args / globals disagree with the $n of QueryUnit.sql
  pyref:<code>       the Python reference scope checker (an independent reading of PostgreSQL's rules,
                     see `RefChecker`) rejects the emitted SQL; <code> names the rule and identifiers

TERM LANGUAGE (identifiers are interned integers, 0 = none; ids 1..7 are reserved:
               1 ctid 2 tableoid 3 xmin 4 xmax 5 cmin 6 cmax 7 excluded)
  Q ::= (sel W (T*) (F*) (A*) (G*) (S*) (A*) (n*))       targets, from, exprs(where/having/distinct/window),
                                                         group items, sort items, limit/offset exprs, locked rels
      | (val W (n*) (A*))                                VALUES: column names column1.., all expressions
      | (set W Q Q (S*) (A*))                            UNION/INTERSECT/EXCEPT: sort items, limit exprs
      | (ins W R n (n*) SRC CONF (T*))                   target, alias(refname), columns, source, on conflict, returning
      | (upd W R n (n*) (A*) (F*) (A*) (T*))             target, alias, set columns, set exprs, from, where, returning
      | (del W R n (F*) (A*) (T*))                       target, alias, using, where, returning
  W ::= - | (w 0|1 (cte n (n*) Q)*)                      recursive flag; name, column aliases, query
  R ::= (tab 0|1 n CS) | (cte n)                         tab: unqualified?, name, columns;  CS ::= * | (n*)
  SRC ::= - | Q          CONF ::= - | (cn (A*)) | (cu (A*) (n*) (A*))
  T ::= (t n (A*)) | (ts n)                              output column name (0 = anonymous) / q.* (0 = bare *)
  F ::= (rel R n (n*)) | (sub 0|1 Q n (n*)) | (fn (A*) n CS) | (join i|l|c|r|f F F ON)    ON ::= - | (A*)
  A ::= (c q n) | (sr q) | (p n) | (q Q)                 column ref (q = 0: unqualified), q.* in an expression,
                                                         parameter $n, sub-select
  G, S ::= (b n) | (e (A*))                              bare name / any other expression
"""
from __future__ import annotations

import hashlib
import json
import os
import re
import sys
import time

SYSCOLS = ['ctid', 'tableoid', 'xmin', 'xmax', 'cmin', 'cmax']
RESERVED_NAMES = [None] + SYSCOLS + ['excluded']      # index = id


# =============================================================================================
# s-expressions
# =============================================================================================

def sx_str(x):
    if isinstance(x, (list, tuple)):
        return '(' + ' '.join(sx_str(y) for y in x) + ')'
    return str(x)


_TOK = re.compile(r'\(|\)|[^\s()]+')


def sx_parse(text):
    toks = _TOK.findall(text)
    pos = 0

    def rd():
        nonlocal pos
        t = toks[pos]
        pos += 1
        if t == '(':
            out = []
            while toks[pos] != ')':
                out.append(rd())
            pos += 1
            return out
        if t == ')':
            raise ValueError('unexpected )')
        if t.isdigit():
            return int(t)
        return t
    r = rd()
    if pos != len(toks):
        raise ValueError('trailing tokens')
    return r


# =============================================================================================
# Python reference scope checker (independent of the Coq model; same input term)
# =============================================================================================

class ScopeError(Exception):
    def __init__(self, code, a=0, b=0):
        super().__init__(code, a, b)
        self.code, self.a, self.b = code, a, b


class RefChecker:
    """PostgreSQL's name-resolution rules (parse_relation.c / parse_clause.c / parse_cte.c /
    analyze.c), restricted to what the term language can express.

    env  : list of levels, innermost first; a level is a list of items
           {'n': refname, 'cols': None (unknown: provides any column) | [names], 'base': bool, 'ok': bool}
           'ok' = may be referenced from here (False: UPDATE/DELETE target seen from FROM, left side of a
           RIGHT/FULL join seen from a LATERAL right side, the query's own FROM items seen from LIMIT/OFFSET)
    ctes : list of (name, cols) innermost first
    pos  : 'top' | 'ctetop' | 'sub'    (data-modifying statements only at 'top' or as a CTE of 'top')
    """

    def __init__(self):
        self.resolved = 0

    # ---- name resolution
    @staticmethod
    def has_col(it, c):
        cols = it['cols']
        if cols is None:
            return True
        return c in cols or (it['base'] and 1 <= c <= 6)

    def resolve_rel(self, env, q):
        for lvl in env:
            m = [it for it in lvl if it['n'] == q]
            if len(m) > 1:
                raise ScopeError('ambiguous-table', q)
            if m:
                if not m[0]['ok']:
                    raise ScopeError('invalid-reference', q)
                self.resolved += 1
                return m[0]
        raise ScopeError('missing-from-entry', q)

    def resolve_col(self, env, c):
        for lvl in env:
            m = [it for it in lvl if self.has_col(it, c)]
            if len(m) > 1:
                raise ScopeError('ambiguous-column', 0, c)
            if m:
                if not m[0]['ok']:
                    raise ScopeError('invalid-reference', m[0]['n'], c)
                self.resolved += 1
                return
        # whole-row reference by table name
        for lvl in env:
            m = [it for it in lvl if it['n'] == c]
            if len(m) > 1:
                raise ScopeError('ambiguous-table', c)
            if m:
                if not m[0]['ok']:
                    raise ScopeError('invalid-reference', c)
                self.resolved += 1
                return
        raise ScopeError('no-such-column', 0, c)

    # ---- expressions
    def atoms(self, env, ctes, al):
        for a in al:
            k = a[0]
            if k == 'c':
                if a[1] == 0:
                    self.resolve_col(env, a[2])
                else:
                    it = self.resolve_rel(env, a[1])
                    if not self.has_col(it, a[2]):
                        raise ScopeError('no-such-column', a[1], a[2])
            elif k == 'sr':
                self.resolve_rel(env, a[1])
            elif k == 'p':
                pass
            elif k == 'q':
                self.query(env, ctes, 'sub', a[1])
            else:
                raise ValueError(f'bad atom {a!r}')

    # ---- relations
    @staticmethod
    def rename(cols, acols):
        if not acols:
            return cols
        if cols is None:
            return None
        if len(acols) > len(cols):
            raise ScopeError('too-many-column-aliases')
        return list(acols) + list(cols[len(acols):])

    @staticmethod
    def cte_lookup(ctes, n):
        for nm, cols in ctes:
            if nm == n:
                return True, cols
        return False, None

    def relcols(self, ctes, r):
        if r[0] == 'cte':
            found, cols = self.cte_lookup(ctes, r[1])
            if not found:
                raise ScopeError('cte-not-in-scope', r[1])
            return cols, False
        if r[0] == 'tab':
            if r[1] == 1 and self.cte_lookup(ctes, r[2])[0]:
                raise ScopeError('table-shadowed-by-cte', r[2])
            return (None if r[3] == '*' else list(r[3])), True
        raise ValueError(f'bad rel {r!r}')

    def target_rel(self, ctes, r):
        if r[0] != 'tab':
            raise ScopeError('dml-target-is-cte', r[1])
        cols, _ = self.relcols(ctes, r)
        return cols

    # ---- FROM
    def fitem(self, env, ctes, left, f):
        """returns the namespace the item contributes (items with ok=True)"""
        k = f[0]
        if k == 'rel':
            cols, base = self.relcols(ctes, f[1])
            return [{'n': f[2], 'cols': self.rename(cols, f[3]), 'base': base, 'ok': True}]
        if k == 'sub':
            sub_env = ([left] + env) if f[1] == 1 else env
            cols = self.query(sub_env, ctes, 'sub', f[2])
            return [{'n': f[3], 'cols': self.rename(cols, f[4]), 'base': False, 'ok': True}]
        if k == 'fn':
            self.atoms([left] + env, ctes, f[1])
            return [{'n': f[2], 'cols': None if f[3] == '*' else list(f[3]), 'base': False, 'ok': True}]
        if k == 'join':
            jt = f[1]
            nsl = self.fitem(env, ctes, left, f[2])
            ok = jt in ('i', 'l', 'c')
            nsr = self.fitem(env, ctes, left + [dict(it, ok=it['ok'] and ok) for it in nsl], f[3])
            if f[4] != '-':
                self.atoms([nsl + nsr] + env, ctes, f[4])
            return nsl + nsr
        raise ValueError(f'bad from item {f!r}')

    def fitems(self, env, ctes, left, fs):
        ns = []
        for f in fs:
            ns += self.fitem(env, ctes, left + ns, f)
        names = [it['n'] for it in left + ns]
        for i, n in enumerate(names):
            if n in names[:i]:
                raise ScopeError('duplicate-alias', n)
        return ns

    # ---- WITH
    def with_(self, env, ctes, pos, w):
        if w == '-':
            return ctes
        if w[1] != 0:
            raise ScopeError('recursive-cte-unsupported')
        seen = []
        for c in w[2:]:
            _, nm, acols, q = c
            if nm in seen:
                raise ScopeError('duplicate-cte', nm)
            seen.append(nm)
            cols = self.query(env, ctes, 'ctetop' if pos == 'top' else 'sub', q)
            ctes = [(nm, self.rename(cols, acols))] + ctes
        return ctes

    # ---- target lists
    def targets(self, env, ctes, ts):
        """env[0] is the level the star expansions refer to; returns output columns"""
        out = []
        for t in ts:
            if t[0] == 't':
                self.atoms(env, ctes, t[2])
                if out is not None:
                    out.append(t[1])
            elif t[0] == 'ts':
                if t[1] == 0:
                    if not env[0]:
                        raise ScopeError('star-without-from')
                    for it in env[0]:
                        if it['cols'] is None:
                            out = None
                        elif out is not None:
                            out += list(it['cols'])
                else:
                    it = self.resolve_rel(env, t[1])
                    if it['cols'] is None:
                        out = None
                    elif out is not None:
                        out += list(it['cols'])
            else:
                raise ValueError(f'bad target {t!r}')
        return out

    @staticmethod
    def count(cols, c):
        return sum(1 for x in cols if x == c)

    def sort_items(self, env, ctes, out, items):
        for s in items:
            if s[0] == 'b':
                if out is None:
                    continue
                k = self.count(out, s[1])
                if k == 1:
                    continue
                if k > 1:
                    raise ScopeError('ambiguous-order-by', 0, s[1])
                self.resolve_col(env, s[1])
            else:
                self.atoms(env, ctes, s[1])

    def group_items(self, env, ctes, out, items):
        for g in items:
            if g[0] == 'b':
                c = g[1]
                if any(self.has_col(it, c) for it in env[0]):
                    self.resolve_col(env, c)
                    continue
                if out is None:
                    continue
                k = self.count(out, c)
                if k == 1:
                    continue
                if k > 1:
                    raise ScopeError('ambiguous-group-by', 0, c)
                self.resolve_col(env, c)
            else:
                self.atoms(env, ctes, g[1])

    # ---- queries
    def query(self, env, ctes, pos, q):
        k = q[0]
        if k == 'sel':
            _, w, ts, fs, body, grp, srt, lim, lock = q
            ctes = self.with_(env, ctes, pos, w)
            ns = self.fitems(env, ctes, [], fs)
            lenv = [ns] + env
            out = self.targets(lenv, ctes, ts)
            self.atoms(lenv, ctes, body)
            self.group_items(lenv, ctes, out, grp)
            self.sort_items(lenv, ctes, out, srt)
            self.atoms([[dict(it, ok=False) for it in ns]] + env, ctes, lim)
            for n in lock:
                if not any(it['n'] == n for it in ns):
                    raise ScopeError('lock-unknown-rel', n)
            return out
        if k == 'val':
            _, w, cols, al = q
            ctes = self.with_(env, ctes, pos, w)
            self.atoms([[]] + env, ctes, al)
            return list(cols)
        if k == 'set':
            _, w, l, r, srt, lim = q
            ctes = self.with_(env, ctes, pos, w)
            cl = self.query(env, ctes, 'sub', l)
            cr = self.query(env, ctes, 'sub', r)
            if cl is not None and cr is not None and len(cl) != len(cr):
                raise ScopeError('setop-arity')
            for s in srt:
                if s[0] != 'b':
                    raise ScopeError('setop-order-by-expression')
                if cl is not None and self.count(cl, s[1]) != 1:
                    raise ScopeError('setop-order-by-unknown', 0, s[1])
            self.atoms([[]] + env, ctes, lim)
            return cl
        if k in ('ins', 'upd', 'del') and pos == 'sub':
            raise ScopeError('dml-not-at-top-level')
        if k == 'ins':
            _, w, rel, alias, cols, src, conf, ret = q
            ctes = self.with_(env, ctes, pos, w)
            tcols = self.target_rel(ctes, rel)
            tgt = {'n': alias, 'cols': tcols, 'base': True, 'ok': True}
            for c in cols:
                if tcols is not None and c not in tcols:
                    raise ScopeError('insert-unknown-column', alias, c)
            if src != '-':
                scols = self.query([[]] + env, ctes, 'sub', src)
                if scols is not None and cols and len(scols) != len(cols):
                    raise ScopeError('insert-arity')
            if conf != '-':
                if conf[0] == 'cn':
                    self.atoms([[tgt]] + env, ctes, conf[1])
                else:
                    self.atoms([[tgt]] + env, ctes, conf[1])
                    for c in conf[2]:
                        if tcols is not None and c not in tcols:
                            raise ScopeError('update-unknown-column', alias, c)
                    if alias == 7:
                        raise ScopeError('duplicate-alias', 7)
                    exc = {'n': 7, 'cols': tcols, 'base': False, 'ok': True}
                    self.atoms([[tgt, exc]] + env, ctes, conf[3])
            return self.targets([[tgt]] + env, ctes, ret)
        if k == 'upd':
            _, w, rel, alias, scols, sexprs, fs, where, ret = q
            ctes = self.with_(env, ctes, pos, w)
            tcols = self.target_rel(ctes, rel)
            tgt = {'n': alias, 'cols': tcols, 'base': True, 'ok': True}
            ns = self.fitems(env, ctes, [dict(tgt, ok=False)], fs)
            for c in scols:
                if tcols is not None and c not in tcols:
                    raise ScopeError('update-unknown-column', alias, c)
            lenv = [[tgt] + ns] + env
            self.atoms(lenv, ctes, sexprs)
            self.atoms(lenv, ctes, where)
            return self.targets(lenv, ctes, ret)
        if k == 'del':
            _, w, rel, alias, fs, where, ret = q
            ctes = self.with_(env, ctes, pos, w)
            tcols = self.target_rel(ctes, rel)
            tgt = {'n': alias, 'cols': tcols, 'base': True, 'ok': True}
            ns = self.fitems(env, ctes, [dict(tgt, ok=False)], fs)
            lenv = [[tgt] + ns] + env
            self.atoms(lenv, ctes, where)
            return self.targets(lenv, ctes, ret)
        raise ValueError(f'bad query {q!r}')


def pyref(term):
    """-> ('OK', n_resolved) | ('ERR', code, a, b)"""
    rc = RefChecker()
    try:
        rc.query([], [], 'top', term)
        return ('OK', rc.resolved)
    except ScopeError as e:
        return ('ERR', e.code, e.a, e.b)


# ---- parameter collection on the term (used by the driver for params_ok input + features)

def term_params(term, acc=None):
    if acc is None:
        acc = []
    if isinstance(term, list):
        if len(term) == 2 and term[0] == 'p' and isinstance(term[1], int):
            acc.append(term[1])
        else:
            for x in term:
                term_params(x, acc)
    return acc


def term_features(term):
    """measured shape of the emitted SQL (for the distributions in the evidence)"""
    f = {'queries': 0, 'maxdepth': 0, 'lateral': 0, 'sub_in_from': 0, 'sublinks': 0, 'ctes': 0, 'dmlctes': 0,
         'joins': 0, 'colrefs': 0, 'unq_colrefs': 0, 'starrefs': 0, 'params': 0, 'setops': 0, 'values': 0,
         'ins': 0, 'upd': 0, 'del': 0, 'open_rels': 0, 'known_rels': 0, 'fn': 0, 'bare_sort': 0, 'conflict': 0}

    def walk(t, depth):
        if not isinstance(t, list) or not t:
            return
        h = t[0]
        d = depth
        if isinstance(h, list):
            for x in t:
                walk(x, depth)
            return
        if h in ('sel', 'val', 'set', 'ins', 'upd', 'del'):
            f['queries'] += 1
            d = depth + 1
            f['maxdepth'] = max(f['maxdepth'], d)
            if h == 'set':
                f['setops'] += 1
            elif h == 'val':
                f['values'] += 1
            elif h in ('ins', 'upd', 'del'):
                f[h] += 1
                if h == 'ins' and t[6] != '-':
                    f['conflict'] += 1
        elif h == 'sub':
            f['sub_in_from'] += 1
            if t[1] == 1:
                f['lateral'] += 1
        elif h == 'q':
            f['sublinks'] += 1
        elif h == 'cte' and len(t) == 4:
            f['ctes'] += 1
            if isinstance(t[3], list) and t[3][0] in ('ins', 'upd', 'del'):
                f['dmlctes'] += 1
        elif h == 'join':
            f['joins'] += 1
        elif h == 'c' and len(t) == 3 and isinstance(t[1], int):
            f['colrefs'] += 1
            if t[1] == 0:
                f['unq_colrefs'] += 1
            return
        elif h in ('sr', 'ts'):
            f['starrefs'] += 1
            return
        elif h == 'p':
            f['params'] += 1
            return
        elif h == 'tab':
            f['open_rels' if t[3] == '*' else 'known_rels'] += 1
            return
        elif h == 'fn':
            f['fn'] += 1
        elif h == 'b':
            f['bare_sort'] += 1
            return
        for x in t[1:]:
            walk(x, d)
    walk(term, 0)
    return f


# =============================================================================================
# SQL text tokenizer + skeleton (independent of the tree: works on edb.pgsql.codegen's output)
# =============================================================================================

_SQL_TOK = re.compile(r'''
    (?P<ws>\s+)
  | (?P<cmt>/\*.*?\*/|--[^\n]*)
  | (?P<estr>[eE]'(?:[^'\\]|\\.|'')*')
  | (?P<bstr>[xXbB]'[^']*')
  | (?P<str>'(?:[^']|'')*')
  | (?P<qid>"(?:[^"]|"")*")
  | (?P<param>\$\d+)
  | (?P<num>\d+(?:\.\d*)?(?:[eE][+-]?\d+)?|\.\d+)
  | (?P<id>[A-Za-z_\u0080-￿][A-Za-z0-9_$\u0080-￿]*)
  | (?P<cast>::)
  | (?P<p>[(),.\[\];])
  | (?P<op>[-+*/<>=~!@\#%^&|`?:]+)
''', re.X | re.S)

SCHEMA_PREFIXES = ('edgedb', 'pg_', 'information_schema', 'public')


def sql_tokens(text):
    out = []
    pos = 0
    n = len(text)
    while pos < n:
        m = _SQL_TOK.match(text, pos)
        if not m:
            raise ValueError(f'cannot tokenize SQL at {pos}: {text[pos:pos + 40]!r}')
        pos = m.end()
        k = m.lastgroup
        if k in ('ws', 'cmt'):
            continue
        v = m.group(k)
        if k == 'qid':
            out.append(('id', v[1:-1].replace('""', '"'), True))
        elif k == 'id':
            out.append(('id', v, False))
        elif k in ('str', 'estr', 'bstr'):
            out.append(('str', v, False))
        else:
            out.append((k, v, False))
    return out


def is_schema_name(s):
    return s.startswith(SCHEMA_PREFIXES)


_QUERY_KW = {'SELECT', 'VALUES', 'WITH', 'INSERT', 'UPDATE', 'DELETE'}


def text_skeleton(text):
    toks = sql_tokens(text)
    sk = []
    stack = []
    i = 0
    n = len(toks)

    def kw(j, *words):
        return j < n and toks[j][0] == 'id' and not toks[j][2] and toks[j][1].upper() in words

    while i < n:
        k, v, quoted = toks[i]
        if k == 'p' and v == '(':
            mark = i + 1 < n and toks[i + 1][0] == 'id' and not toks[i + 1][2] and toks[i + 1][1].upper() in _QUERY_KW
            stack.append(mark)
            if mark:
                sk.append('<')
        elif k == 'p' and v == ')':
            if stack and stack.pop():
                sk.append('>')
        elif k == 'param':
            sk.append(f'${v[1:]}')
        elif k == 'id' and not quoted and v.upper() == 'LATERAL':
            sk.append('L')
        elif k == 'id' and not quoted and v.upper() == 'AS':
            # alias:  AS ident  (not followed by '(' -> that is a CTE body / coldeflist; handled below)
            if i + 1 < n and toks[i + 1][0] == 'id' and not kw(i + 1, 'MATERIALIZED', 'NOT'):
                sk.append('a:' + toks[i + 1][1])
                i += 2
                # optional column alias list  AS x(a, b)
                if i < n and toks[i] == ('p', '(', False):
                    j = i + 1
                    names = []
                    while j < n and toks[j][0] == 'id':
                        names.append(toks[j][1])
                        j += 1
                        if j < n and toks[j] == ('p', ',', False):
                            j += 1
                    if j < n and toks[j] == ('p', ')', False):
                        sk.append('ac:' + ','.join(names))
                        i = j + 1
                continue
        elif k == 'id':
            # CTE name:  ident AS [NOT] [MATERIALIZED] (      |  ident(cols) AS ...
            if (kw(i + 1, 'AS') and (
                    (i + 2 < n and toks[i + 2] == ('p', '(', False))
                    or kw(i + 2, 'MATERIALIZED') or (kw(i + 2, 'NOT') and kw(i + 3, 'MATERIALIZED')))):
                sk.append('w:' + v)
                i += 1
                continue
            # dotted name
            if i + 2 < n and toks[i + 1] == ('p', '.', False) and (
                    toks[i + 2][0] == 'id' or toks[i + 2] == ('op', '*', False)):
                parts = [v]
                j = i + 1
                while j + 1 < n and toks[j] == ('p', '.', False) and (
                        toks[j + 1][0] == 'id' or toks[j + 1] == ('op', '*', False)):
                    parts.append(toks[j + 1][1])
                    j += 2
                prev_cast = i > 0 and toks[i - 1][0] == 'cast'
                is_call = j < n and toks[j] == ('p', '(', False)
                prev_dot_paren = i > 1 and toks[i - 1] == ('p', '.', False)   # (expr).field
                if not prev_cast and not is_call and not prev_dot_paren and not (
                        not quoted and is_schema_name(v)):
                    sk.append('r:' + '.'.join(parts))
                i = j
                continue
        i += 1
    return sk


def text_params(text):
    return [int(v[1:]) for k, v, _ in sql_tokens(text) if k == 'param']


# =============================================================================================
# everything below needs the repo
# =============================================================================================

_RT = {}


def setup(repo):
    """install the substrate and import the real modules (idempotent)"""
    if _RT:
        return _RT
    os.environ['VRT_REPO'] = repo
    sys.setrecursionlimit(20000)
    here = os.path.dirname(os.path.abspath(__file__))
    sys.path.insert(0, os.path.join(os.path.dirname(here), 'rt'))
    if repo in sys.path:
        sys.path.remove(repo)
    sys.path.insert(0, repo)
    import vrt
    vrt.install()
    import edb
    assert os.path.realpath(edb.__path__[0]).startswith(os.path.realpath(repo)), edb.__path__
    from edb import errors
    from edb.edgeql import compiler as qlcompiler
    from edb.edgeql import parser as qlparser
    from edb.pgsql import ast as pgast
    from edb.pgsql import compiler as pgcompiler
    from edb.pgsql import codegen as pgcodegen
    from edb.pgsql import common as pgcommon
    from edb.pgsql import types as pgtypes
    from edb.schema import objtypes as s_objtypes
    from edb.schema import pointers as s_pointers
    _RT.update(vrt=vrt, errors=errors, qlcompiler=qlcompiler, qlparser=qlparser, pgast=pgast,
               pgcompiler=pgcompiler, pgcodegen=pgcodegen, pgcommon=pgcommon, pgtypes=pgtypes,
               s_objtypes=s_objtypes, s_pointers=s_pointers, repo=repo)
    return _RT


# ---------------------------------------------------------------------------------------------
# schemas (pickled once, so that every process -- whatever its hash seed -- compiles against the
# SAME schema object graph: same ids, same names)
# ---------------------------------------------------------------------------------------------

def schema_pickle_path(rt, cache, sid, spec):
    key = hashlib.sha256()
    key.update(rt['vrt'].std_schema_key().encode())
    key.update(json.dumps(spec, sort_keys=True).encode())
    return os.path.join(cache, f'schema-{sid}-{key.hexdigest()[:20]}.pickle')


def load_schema(rt, cache, sid, spec, build=True):
    import pickle
    # the driver fixes the pickle of a run once (spec['pickle']), so that a concurrent change of the tree
    # cannot make the workers of one run use different schema objects
    path = spec.get('pickle') or schema_pickle_path(rt, cache, sid, {k: v for k, v in spec.items() if k != 'pickle'})
    if os.path.exists(path):
        try:
            with open(path, 'rb') as f:
                return pickle.load(f)
        except Exception:
            pass
    if not build:
        raise RuntimeError(f'schema pickle missing: {path}')
    vrt = rt['vrt']
    std = vrt.std_schema()
    sch = vrt.load_sdl(std, spec['sdl'], modname=spec.get('modname', 'default'))
    for ddl in spec.get('ddl', ()):
        sch = vrt.run_ddl(sch, ddl)
    os.makedirs(cache, exist_ok=True)
    tmp = path + f'.tmp{os.getpid()}'
    with open(tmp, 'wb') as f:
        pickle.dump(sch, f, protocol=pickle.HIGHEST_PROTOCOL)
    os.replace(tmp, path)
    return sch


def build_catalog(rt, schema):
    """(schemaname, relname) -> list of column names, for the tables of the user types/pointers;
    derived with the real edb.pgsql.types / edb.pgsql.common functions (harness glue, trusted)."""
    pgcommon, pgtypes = rt['pgcommon'], rt['pgtypes']
    s_objtypes = rt['s_objtypes']
    cat = {}
    for t in schema.get_objects(type=s_objtypes.ObjectType, exclude_stdlib=True):
        try:
            if t.is_compound_type(schema) or t.is_view(schema) or t.get_from_alias(schema):
                continue
            tab = pgcommon.get_backend_name(schema, t, catenate=False)
        except Exception:
            continue
        cols = []
        for ptr in t.get_pointers(schema).objects(schema):
            try:
                if ptr.is_pure_computable(schema):
                    continue
                info = pgtypes.get_pointer_storage_info(ptr, schema=schema, source=t)
                if info.table_type == 'ObjectType' and info.column_name and info.column_name not in cols:
                    cols.append(info.column_name)
                if pgtypes.has_table(ptr, schema):
                    ltab = pgcommon.get_backend_name(schema, ptr, catenate=False)
                    lcols = ['source', 'target']
                    if hasattr(ptr, 'get_pointers'):
                        for lp in ptr.get_pointers(schema).objects(schema):
                            if lp.is_pure_computable(schema):
                                continue
                            li = pgtypes.get_pointer_storage_info(lp, schema=schema, source=ptr)
                            if li.column_name and li.column_name not in lcols:
                                lcols.append(li.column_name)
                    cat[tuple(ltab)] = lcols
            except Exception:
                continue
        cat[tuple(tab)] = cols
    return cat


# ---------------------------------------------------------------------------------------------
# abstraction of the real pgast tree (walks in edb.pgsql.codegen's order; fail-closed)
# ---------------------------------------------------------------------------------------------

class Unsupported(Exception):
    pass


class Abstractor:
    def __init__(self, rt, catalog):
        self.pg = rt['pgast']
        self.catalog = catalog
        self.names = list(RESERVED_NAMES)
        self.ids = {n: i for i, n in enumerate(self.names) if n is not None}
        self.sk = []            # skeleton of the walk (compared with the text's)
        self.relstats = {'known': 0, 'open': 0}

    # -- identifiers: PostgreSQL truncates to NAMEDATALEN-1 = 63 bytes
    def nm(self, s):
        if not isinstance(s, str):
            raise Unsupported(f'non-string identifier {s!r}')
        b = s.encode('utf-8')
        if len(b) > 63:
            s = b[:63].decode('utf-8', 'ignore')
        i = self.ids.get(s)
        if i is None:
            i = len(self.names)
            self.names.append(s)
            self.ids[s] = i
        return i

    # -- expressions -> flat list of atoms, in codegen order
    def ex(self, node, out):
        pg = self.pg
        if node is None:
            return
        if isinstance(node, (list, tuple)):
            for x in node:
                self.ex(x, out)
            return
        if isinstance(node, pg.ColumnRef):
            names = list(node.name)
            if len(names) == 1 and isinstance(names[0], pg.Star):
                return                                  # count(*) etc.
            if isinstance(names[-1], pg.Star):
                if len(names) != 2:
                    raise Unsupported('star ref with more than one qualifier')
                out.append(['sr', self.nm(names[0])])
                self.sk.append(f'r:{names[0]}.*')
                return
            if any(not isinstance(x, str) for x in names):
                raise Unsupported('column ref with non-string part')
            if names == ['VALUE'] or names[0] in ('OLD', 'NEW'):
                raise Unsupported('VALUE/OLD/NEW reference')
            if len(names) == 1:
                out.append(['c', 0, self.nm(names[0])])
            elif len(names) == 2:
                out.append(['c', self.nm(names[0]), self.nm(names[1])])
                self.sk.append(f'r:{names[0]}.{names[1]}')
            else:
                raise Unsupported(f'{len(names)}-part column reference')
            return
        if isinstance(node, pg.ExprOutputVar):
            return self.ex(node.expr, out)
        if isinstance(node, pg.ParamRef):
            out.append(['p', int(node.number)])
            self.sk.append(f'${node.number}')
            return
        if isinstance(node, pg.Query):
            out.append(['q', self.query(node, paren=True)])
            return
        if isinstance(node, pg.NullRelation):
            raise Unsupported('NullRelation in expression position')
        if isinstance(node, (pg.BaseConstant, pg.LiteralExpr, pg.Keyword, pg.Star, pg.SQLValueFunction)):
            if isinstance(node, pg.SQLValueFunction):
                self.ex(node.arg, out)
            return
        if isinstance(node, pg.ResTarget):
            return self.ex(node.val, out)
        if isinstance(node, pg.InsertTarget):
            out.append(['c', 0, self.nm(node.name)])
            return
        if isinstance(node, pg.Expr):
            self.ex(node.lexpr, out)
            self.ex(node.rexpr, out)
            return
        if isinstance(node, pg.TypeCast):
            return self.ex(node.arg, out)
        if isinstance(node, pg.CollateClause):
            return self.ex(node.arg, out)
        if isinstance(node, pg.VariadicArgument):
            return self.ex(node.expr, out)
        if isinstance(node, pg.FuncCall):
            self.ex(node.args, out)
            for s in node.agg_order or ():
                self.ex(s.node, out)
            self.ex(node.agg_filter, out)
            if node.over:
                if node.over.name or node.over.refname:
                    raise Unsupported('named window')
                self.ex(node.over.partition_clause, out)
                for s in node.over.order_clause or ():
                    self.ex(s.node, out)
            for cd in node.coldeflist or ():
                self.ex(cd.default_expr, out)
            return
        if isinstance(node, pg.NamedFuncArg):
            return self.ex(node.val, out)
        if isinstance(node, pg.Indirection):
            self.ex(node.arg, out)
            for op in node.indirection:
                if isinstance(op, pg.Index):
                    self.ex(op.idx, out)
                elif isinstance(op, pg.Slice):
                    self.ex(op.lidx, out)
                    self.ex(op.ridx, out)
                elif isinstance(op, (pg.Star, pg.RecordIndirectionOp)):
                    pass
                else:
                    raise Unsupported(f'indirection op {type(op).__name__}')
            return
        if isinstance(node, (pg.Index,)):
            return self.ex(node.idx, out)
        if isinstance(node, pg.Slice):
            self.ex(node.lidx, out)
            self.ex(node.ridx, out)
            return
        if isinstance(node, (pg.ArrayExpr, pg.ArrayDimension)):
            return self.ex(node.elements, out)
        if isinstance(node, (pg.RowExpr, pg.ImplicitRowExpr, pg.CoalesceExpr, pg.MinMaxExpr)):
            return self.ex(list(node.args), out)
        if isinstance(node, pg.SubLink):
            self.ex(node.test_expr, out)
            self.ex(node.expr, out)
            return
        if isinstance(node, pg.NullTest) or isinstance(node, pg.BooleanTest):
            return self.ex(node.arg, out)
        if isinstance(node, pg.CaseExpr):
            self.ex(node.arg, out)
            for w in node.args:
                self.ex(w.expr, out)
                self.ex(w.result, out)
            self.ex(node.defresult, out)
            return
        if isinstance(node, pg.SortBy):
            return self.ex(node.node, out)
        if isinstance(node, pg.GroupingOperation):
            return self.ex(node.args, out)
        if isinstance(node, pg.TupleVarBase):
            raise Unsupported('TupleVar left in the tree')
        raise Unsupported(f'expression node {type(node).__name__}')

    def atoms(self, node):
        out = []
        self.ex(node, out)
        return out

    # -- PostgreSQL's FigureColname (parse_target.c) for targets without AS
    def figure_colname(self, node):
        pg = self.pg
        name, strength = self._figure(node)
        return name if strength > 0 else None

    def _figure(self, node):
        pg = self.pg
        if node is None:
            return None, 0
        if isinstance(node, pg.ColumnRef):
            last = node.name[-1]
            if isinstance(last, str):
                return last, 2
            return None, 0
        if isinstance(node, pg.ExprOutputVar):
            return self._figure(node.expr)
        if isinstance(node, pg.Indirection):
            fname = None
            for op in node.indirection:
                if isinstance(op, pg.RecordIndirectionOp):
                    fname = op.name
            if fname:
                return fname, 2
            return self._figure(node.arg)
        if isinstance(node, pg.FuncCall):
            return node.name[-1], 2
        if isinstance(node, pg.TypeCast):
            n, s = self._figure(node.arg)
            if s > 0:
                return n, s
            tn = node.type_name.name
            return (tn[-1] if isinstance(tn, tuple) else tn), 1
        if isinstance(node, pg.CollateClause):
            return self._figure(node.arg)
        if isinstance(node, pg.CaseExpr):
            n, s = self._figure(node.defresult)
            if s > 0:
                return n, s
            return 'case', 1
        if isinstance(node, pg.SubLink):
            op = (node.operator or '').upper()
            if op == 'EXISTS':
                return 'exists', 2
            if op == 'ARRAY':
                return 'array', 2
            if op == '':
                return self._figure(node.expr)
            return None, 0
        if isinstance(node, pg.SelectStmt):
            # scalar sub-select: the name of its first output column
            q = node
            while q.op:
                q = q.larg
            if q.target_list:
                t = q.target_list[0]
                if t.name:
                    return t.name, 2
                return self._figure(t.val)
            return None, 0
        if isinstance(node, pg.CoalesceExpr):
            return 'coalesce', 2
        if isinstance(node, pg.MinMaxExpr):
            return node.op.lower(), 2
        if isinstance(node, pg.ArrayExpr):
            return 'array', 2
        if isinstance(node, (pg.RowExpr, pg.ImplicitRowExpr)):
            return 'row', 2
        return None, 0

    # -- relations
    def relref(self, rel):
        pg = self.pg
        if isinstance(rel, pg.CommonTableExpr):
            return ['cte', self.nm(rel.name)], rel.name
        if isinstance(rel, pg.Relation):
            if not rel.name:
                raise Unsupported('relation without a name')
            if rel.catalogname:
                raise Unsupported('catalog-qualified relation')
            cols = self.catalog.get((rel.schemaname, rel.name)) if rel.schemaname else None
            if cols is None:
                self.relstats['open'] += 1
                cs = '*'
            else:
                self.relstats['known'] += 1
                cs = [self.nm(c) for c in cols]
            return ['tab', 0 if rel.schemaname else 1, self.nm(rel.name), cs], rel.name
        raise Unsupported(f'relation {type(rel).__name__}')

    def alias_of(self, rvar, default):
        a = rvar.alias
        if a is not None and a.aliasname:
            self.sk.append('a:' + a.aliasname)
            acols = [self.nm(c) for c in (a.colnames or ())]
            if a.colnames:
                self.sk.append('ac:' + ','.join(a.colnames))
            return self.nm(a.aliasname), acols
        if default is None:
            raise Unsupported('range variable without an alias')
        return self.nm(default), []

    def fitem(self, rv):
        pg = self.pg
        if isinstance(rv, pg.RelRangeVar):
            rel = rv.relation
            if isinstance(rel, pg.NullRelation):
                # printed as (SELECT <targets> WHERE ...) AS alias
                self.sk.append('<')
                q = ['sel', '-', self.targets(rel.target_list), [], self.atoms(rel.where_clause), [], [], [], []]
                self.sk.append('>')
                alias, acols = self.alias_of(rv, None)
                return ['sub', 0, q, alias, acols]
            r, dflt = self.relref(rel)
            alias, acols = self.alias_of(rv, dflt)
            return ['rel', r, alias, acols]
        if isinstance(rv, pg.RangeSubselect):
            if rv.lateral:
                self.sk.append('L')
            q = self.query(rv.subquery, paren=True)
            alias, acols = self.alias_of(rv, None)
            return ['sub', 1 if rv.lateral else 0, q, alias, acols]
        if isinstance(rv, pg.RangeFunction):
            if rv.lateral:
                self.sk.append('L')
            al = self.atoms(rv.functions)
            a = rv.alias
            cols = None
            if a is not None and a.colnames:
                cols = list(a.colnames)
            else:
                # ROWS FROM (f(..) AS (coldefs), ...) / f(..) AS (coldefs)
                defs = []
                ok = True
                for fn in rv.functions:
                    if isinstance(fn, pg.FuncCall) and fn.coldeflist:
                        defs += [cd.name for cd in fn.coldeflist]
                    else:
                        ok = False
                if ok and defs:
                    cols = defs
                    if rv.with_ordinality:
                        cols = cols + ['ordinality']
            if a is None or not a.aliasname:
                # PostgreSQL: the function's name is the range variable's name
                if len(rv.functions) == 1 and isinstance(rv.functions[0], pg.FuncCall) and not rv.is_rowsfrom:
                    refname = rv.functions[0].name[-1]
                else:
                    raise Unsupported('ROWS FROM / non-call function in FROM without an alias')
            else:
                refname = a.aliasname
                self.sk.append('a:' + a.aliasname)
                if a.colnames:
                    self.sk.append('ac:' + ','.join(a.colnames))
            return ['fn', al, self.nm(refname), '*' if cols is None else [self.nm(c) for c in cols]]
        if isinstance(rv, pg.JoinExpr):
            cur = self.fitem(rv.larg)
            for j in rv.joins:
                right = self.fitem(j.rarg)
                if j.using_clause:
                    raise Unsupported('JOIN ... USING')
                if j.quals is None:
                    cur = ['join', 'c', cur, right, '-']
                else:
                    jt = {'inner': 'i', 'left': 'l', 'right': 'r', 'full': 'f', 'cross': 'i'}.get(j.type.lower())
                    if jt is None:
                        raise Unsupported(f'join type {j.type}')
                    cur = ['join', jt, cur, right, self.atoms(j.quals)]
            return cur
        raise Unsupported(f'range var {type(rv).__name__}')

    def targets(self, tl):
        pg = self.pg
        out = []
        for t in tl or ():
            if not isinstance(t, pg.ResTarget):
                raise Unsupported(f'target {type(t).__name__}')
            v = t.val
            if isinstance(v, pg.ColumnRef) and isinstance(v.name[-1], pg.Star):
                if t.name:
                    raise Unsupported('named star target')
                if len(v.name) == 1:
                    out.append(['ts', 0])
                elif len(v.name) == 2:
                    out.append(['ts', self.nm(v.name[0])])
                    self.sk.append(f'r:{v.name[0]}.*')
                else:
                    raise Unsupported('star target with more than one qualifier')
                continue
            al = self.atoms(v)
            if t.name:
                self.sk.append('a:' + t.name)
                out.append(['t', self.nm(t.name), al])
            else:
                n = self.figure_colname(v)
                out.append(['t', self.nm(n) if n else 0, al])
        return out

    def sort_items(self, items):
        pg = self.pg
        out = []
        for s in items or ():
            node = s.node if isinstance(s, pg.SortBy) else s
            if isinstance(node, pg.GroupingOperation):
                out += self.sort_items(node.args)
                continue
            if isinstance(node, pg.ColumnRef) and len(node.name) == 1 and isinstance(node.name[0], str):
                out.append(['b', self.nm(node.name[0])])
            else:
                out.append(['e', self.atoms(node)])
        return out

    def with_(self, q):
        if not q.ctes:
            return '-'
        rec = 1 if getattr(q.ctes[0], 'recursive', False) else 0
        out = ['w', rec]
        for c in q.ctes:
            self.sk.append('w:' + c.name)
            if c.aliascolnames:
                raise Unsupported('CTE column aliases')
            if c.recursive and not rec:
                raise Unsupported('recursive flag on a non-first CTE')
            sub = self.query(c.query, paren=True, cte=True)
            out.append(['cte', self.nm(c.name), [self.nm(x) for x in (c.aliascolnames or ())], sub])
        return out

    def dml_target(self, rv):
        pg = self.pg
        if not isinstance(rv, pg.RelRangeVar):
            raise Unsupported('DML target is not a RelRangeVar')
        r, dflt = self.relref(rv.relation)
        alias, acols = self.alias_of(rv, dflt)
        if acols:
            raise Unsupported('DML target with column aliases')
        return r, alias

    def query(self, q, paren, cte=False):
        """paren: codegen writes this query inside parentheses that open right before its first keyword"""
        pg = self.pg
        if isinstance(q, pg.SelectStmt):
            if q.op:
                if q.target_list or q.from_clause or q.where_clause or q.group_clause or q.having_clause \
                        or q.distinct_clause or q.values or q.window_clause:
                    raise Unsupported('set operation node with its own clauses')
                mark = paren and bool(q.ctes)
                if mark:
                    self.sk.append('<')
                w = self.with_(q)
                l = self.query(q.larg, paren=True)
                r = self.query(q.rarg, paren=True)
                srt = self.sort_items(q.sort_clause)
                lim = self.atoms(q.limit_offset) + self.atoms(q.limit_count)
                if q.locking_clause:
                    raise Unsupported('locking clause on a set operation')
                if mark:
                    self.sk.append('>')
                return ['set', w, l, r, srt, lim]
            if paren:
                self.sk.append('<')
            w = self.with_(q)
            if q.values:
                arity = None
                al = []
                for row in q.values:
                    if not isinstance(row, pg.ImplicitRowExpr):
                        raise Unsupported(f'VALUES row {type(row).__name__}')
                    if arity is None:
                        arity = len(row.args)
                    elif arity != len(row.args):
                        raise Unsupported('ragged VALUES')
                    self.ex(list(row.args), al)
                if paren:
                    self.sk.append('>')
                return ['val', w, [self.nm(f'column{i + 1}') for i in range(arity or 0)], al]
            if q.window_clause:
                raise Unsupported('WINDOW clause')
            body = []
            if q.distinct_clause:
                if not (len(q.distinct_clause) == 1 and isinstance(q.distinct_clause[0], pg.Star)):
                    self.ex(list(q.distinct_clause), body)
            ts = self.targets(q.target_list)
            fs = [self.fitem(f) for f in q.from_clause or ()]
            self.ex(q.where_clause, body)
            grp = self.sort_items(q.group_clause)
            self.ex(q.having_clause, body)
            srt = self.sort_items(q.sort_clause)
            lim = self.atoms(q.limit_offset) + self.atoms(q.limit_count)
            lock = []
            for lc in q.locking_clause or ():
                for rv in lc.locked_rels or ():
                    a = rv.alias.aliasname if rv.alias and rv.alias.aliasname else getattr(rv.relation, 'name', None)
                    lock.append(self.nm(a))
            if paren:
                self.sk.append('>')
            return ['sel', w, ts, fs, body, grp, srt, lim, lock]
        if isinstance(q, pg.InsertStmt):
            if paren:
                self.sk.append('<')
            w = self.with_(q)
            rel, alias = self.dml_target(q.relation)
            cols = [self.nm(c.name) for c in q.cols or ()]
            if q.cols and q.relation.alias and q.relation.alias.aliasname:
                self.sk.append('ac:' + ','.join(c.name for c in q.cols))   # "AS alias (cols)" in the text
            src = '-'
            if q.select_stmt is not None:
                s = q.select_stmt
                if isinstance(s, pg.SelectStmt) and s.values:
                    # printed as bare VALUES rows (no WITH, no parentheses)
                    if s.ctes:
                        raise Unsupported('INSERT ... VALUES with WITH')
                    src = self.query(s, paren=False)
                else:
                    src = self.query(s, paren=True)
            conf = '-'
            oc = q.on_conflict
            if oc is not None:
                infer = []
                if oc.infer is not None:
                    if oc.infer.where_clause is not None:
                        raise Unsupported('ON CONFLICT inference predicate')
                    self.ex(list(oc.infer.index_elems or ()), infer)
                act = oc.action.lower()
                if act == 'nothing':
                    if oc.target_list or oc.where is not None:
                        raise Unsupported('ON CONFLICT DO NOTHING with targets')
                    conf = ['cn', infer]
                elif act == 'update':
                    scols, sex = [], []
                    for t in oc.target_list or ():
                        if isinstance(t, pg.MultiAssignRef):
                            scols += [self.nm(c) for c in t.columns]
                            self.ex(t.source, sex)
                        elif isinstance(t, pg.UpdateTarget):
                            scols.append(self.nm(t.name))
                            self.ex(t.val, sex)
                        else:
                            raise Unsupported(f'ON CONFLICT target {type(t).__name__}')
                    if oc.where is not None:
                        raise Unsupported('ON CONFLICT DO UPDATE ... WHERE (not printed by codegen)')
                    conf = ['cu', infer, scols, sex]
                else:
                    raise Unsupported(f'ON CONFLICT action {oc.action}')
            ret = self.targets(q.returning_list)
            if paren:
                self.sk.append('>')
            return ['ins', w, rel, alias, cols, src, conf, ret]
        if isinstance(q, pg.UpdateStmt):
            if paren:
                self.sk.append('<')
            w = self.with_(q)
            rel, alias = self.dml_target(q.relation)
            scols, sex = [], []
            for t in q.targets:
                if isinstance(t, pg.MultiAssignRef):
                    scols += [self.nm(c) for c in t.columns]
                    self.ex(t.source, sex)
                elif isinstance(t, pg.UpdateTarget):
                    if isinstance(t.name, list):
                        scols += [self.nm(c) for c in t.name]
                    else:
                        scols.append(self.nm(t.name))
                    for op in t.indirection or ():
                        self.ex(op, sex)
                    self.ex(t.val, sex)
                else:
                    raise Unsupported(f'UPDATE target {type(t).__name__}')
            fs = [self.fitem(f) for f in q.from_clause or ()]
            where = self.atoms(q.where_clause)
            ret = self.targets(q.returning_list)
            if paren:
                self.sk.append('>')
            return ['upd', w, rel, alias, scols, sex, fs, where, ret]
        if isinstance(q, pg.DeleteStmt):
            if paren:
                self.sk.append('<')
            w = self.with_(q)
            rel, alias = self.dml_target(q.relation)
            fs = [self.fitem(f) for f in q.using_clause or ()]
            where = self.atoms(q.where_clause)
            ret = self.targets(q.returning_list)
            if paren:
                self.sk.append('>')
            return ['del', w, rel, alias, fs, where, ret]
        raise Unsupported(f'query node {type(q).__name__}')


# ---------------------------------------------------------------------------------------------
# compile + observe
# ---------------------------------------------------------------------------------------------

# ---------------------------------------------------------------------------------------------
# "mode D": deterministic object-identity hashes and deterministic fresh UUIDs (harness process only)
# ---------------------------------------------------------------------------------------------
# Used to attribute a difference between two compilations of the same statement to one mechanism:
# iteration over Python sets / frozensets whose elements hash by object identity (edb.common.ast.AST
# nodes: IR statements, sets, pointer refs, pgast nodes) or by freshly generated random UUIDs
# (irast.TypeRef hashes its id; derived types get uuid1mc() ids).  In mode D the hash of an AST node is
# the number of nodes hashed before it since the last reset, and uuid1mc()/uuid4() count up.

_DET = {'n': 0, 'u': 0, 'on': False, 'fork': False}


def det_install(fork):
    """fork=True : every compilation runs in its own fork of a parent that compiled only a fixed warm-up list
                   (history-free; expensive).
       fork=False: in-process; every statement is compiled three times -- the first fills the per-process caches,
                   the counters are reset, and the second and third are compared (cheap; its outputs depend on the
                   worker's history, so runs are compared only when they processed identical line lists)"""
    from edb.common.ast import base as astbase
    from edb.common import uuidgen
    import uuid as _uuid

    def det_hash(self):
        d = self.__dict__
        h = d.get('_c13h')
        if h is None:                # stable for the object's lifetime (hash/eq contract)
            _DET['n'] += 1
            h = d['_c13h'] = _DET['n']
        return h

    def det_uuid():
        _DET['u'] += 1
        return uuidgen.UUID(_uuid.UUID(int=(0x1E7C13 << 104) | (1 << 76) | (2 << 62) | _DET['u']).bytes)
    astbase.AST.__hash__ = det_hash
    uuidgen.uuid1mc = det_uuid
    uuidgen.uuid4 = det_uuid
    _DET['on'] = True
    _DET['fork'] = fork
    if os.environ.get('C13_DET_PID') == '1':
        # additionally: irast.PathId.__hash__ independent of the str hash seed (and of the address of the class)
        import zlib
        from edb.ir import pathid

        def stable(x):
            if isinstance(x, tuple):
                return tuple(stable(y) for y in x)
            return str(x)

        def pid_hash(self):
            if self._hash == -1:
                pre = pid_hash(self._prefix) if self._prefix is not None else None
                key = repr((stable(self._norm_path), sorted(self._namespace), pre, self._is_ptr))
                self._hash = zlib.crc32(key.encode('utf-8'))
            return self._hash
        pathid.PathId.__hash__ = pid_hash
        # ... and pgsql.compiler.enums.PathAspect (a str enum: hash(member) is a str hash); sets of aspects are
        # iterated when range variables / outputs are registered
        from edb.pgsql.compiler import enums as pgce
        pgce.PathAspect.__hash__ = lambda self: zlib.crc32(str(self._value_).encode('utf-8'))


def det_reset():
    """in-process mode D: the counters restart before every compilation"""
    if _DET['on'] and not _DET['fork']:
        _DET['n'] = 0
        _DET['u'] = 0


class Worker:
    def __init__(self, repo, spec):
        self.rt = setup(repo)
        if os.environ.get('C13_DET') in ('1', '2'):
            det_install(fork=os.environ.get('C13_DET') == '2')
        self.spec = spec
        self.cache = spec['cache']
        self.schemas = {}
        self.catalogs = {}
        self.server = None
        self.warm = set()

    def schema(self, sid):
        if sid not in self.schemas:
            # mode D never builds a schema (its objects would get counter UUIDs): the driver pre-builds them
            self.schemas[sid] = load_schema(self.rt, self.cache, sid, self.spec['schemas'][sid],
                                            build=not _DET['on'])
            self.catalogs[sid] = build_catalog(self.rt, self.schemas[sid])
        return self.schemas[sid], self.catalogs[sid]

    # -- mode n / j
    def compile_tree(self, schema, text, fmt):
        rt = self.rt
        det_reset()
        qltree = rt['qlparser'].parse_query(text)
        ir = rt['qlcompiler'].compile_ast_to_ir(
            qltree, schema,
            options=rt['qlcompiler'].CompilerOptions(modaliases={None: 'default'}))
        of = rt['pgcompiler'].OutputFormat.NATIVE if fmt == 'n' else rt['pgcompiler'].OutputFormat.JSON
        res = rt['pgcompiler'].compile_ir_to_sql_tree(ir, output_format=of)
        sql = rt['pgcodegen'].generate_source(res.ast, pretty=False)
        params = list(ir.params) + list(ir.globals)
        return res, sql, ir, params

    @staticmethod
    def argmap_rows(argmap, params):
        byname = {p.name: p for p in params}
        rows = []
        for name, p in argmap.items():
            ip = byname.get(name)
            rows.append([name, int(p.index), int(p.logical_index), bool(p.required),
                         bool(getattr(ip, 'is_sub_param', False)) if ip is not None else False,
                         bool(getattr(ip, 'sub_params', None)) if ip is not None else False])
        return rows

    def observe(self, out, ast, rows, sql, catalog):
        """abstraction + all monitors that need the tree, for one emitted statement"""
        ab = Abstractor(self.rt, catalog)
        try:
            term = ab.query(ast, paren=False)
        except Unsupported as e:
            out['st'] = 'unsup'
            out['err'] = str(e)
            return None
        out['term'] = sx_str(term)
        out['names'] = ab.names
        out['argmap'] = rows
        try:
            tsk = text_skeleton(sql)
        except ValueError as e:
            tsk = ['tokenize-error: ' + str(e)]
        if tsk != ab.sk:
            out['mon'].append('text-skeleton')
            out['skdiff'] = sk_diff(ab.sk, tsk)
        self.param_monitors(out, sql, rows)
        r = pyref(term)
        if r[0] != 'OK':
            n = ab.names
            out['mon'].append(f'pyref:{r[1]}:{n[r[2]] if r[2] else ""}:{n[r[3]] if r[3] else ""}')
            out['pyref'] = ['ERR', r[1], r[2], r[3]]
        else:
            out['resolved'] = r[1]
            out['pyref'] = ['OK']
        out['feat'] = term_features(term)
        out['feat']['relstats'] = ab.relstats
        return term

    def run_tree(self, sid, fmt, text, double=True):
        schema, catalog = self.schema(sid)
        if double and _DET['on'] and not _DET['fork']:
            self.compile_tree(schema, text, fmt)          # fills the caches; the next two are compared
        res, sql, ir, params = self.compile_tree(schema, text, fmt)
        rows = self.argmap_rows(res.argmap, params)
        out = {'st': 'ok', 'mon': [], 'sql': sql}
        # determinism in-process
        if double:
            res2, sql2, ir2, params2 = self.compile_tree(schema, text, fmt)
            rows2 = self.argmap_rows(res2.argmap, params2)
            if sql != sql2 or rows != rows2:
                out['mon'].append('nondet-inprocess')
                out['sql2'] = sql2
                out['argmap2'] = rows2
        self.observe(out, res.ast, rows, sql, catalog)
        out['sqllen'] = len(sql)
        out['digest'] = hashlib.sha256(json.dumps([sql, rows]).encode()).hexdigest()[:24]
        return out

    @staticmethod
    def param_monitors(out, sql, rows):
        used = set(text_params(sql))
        phys = [r for r in rows if not r[5]]          # composite (tuple) params have no $n of their own
        idx = sorted(r[1] for r in phys)
        if idx != list(range(1, len(idx) + 1)) or used != set(idx):
            out['mon'].append('params-text')
            out['params_text'] = {'used': sorted(used), 'argmap': idx,
                                  'present_flags': sorted(r[1] for r in rows if r[0].endswith('present__'))}
        logical = [r[2] for r in rows if r[2] != -1 and not r[4]]
        if logical != list(range(1, len(logical) + 1)):
            out['mon'].append('params-logical')
        out['np'] = len(idx)

    # -- mode s: the server compiler
    def server_compiler(self):
        if self.server is None:
            vrt = self.rt['vrt']
            self.server = vrt.new_compiler()
        return self.server

    def compile_server(self, schema, text):
        from edb import edgeql
        from edb.server import compiler as edbcompiler
        from edb.server.compiler import compiler as cmod
        comp = self.server_compiler()
        ctx = edbcompiler.new_compiler_context(
            compiler_state=comp.state, user_schema=schema,
            modaliases={None: 'default'}, output_format=edbcompiler.OutputFormat.BINARY,
            protocol_version=(3, 0), json_parameters=False, expected_cardinality_one=False)
        captured = []
        det_reset()
        orig = cmod.pg_compiler.compile_ir_to_sql_tree

        def wrapper(ir, **kw):
            r = orig(ir, **kw)
            params = list(getattr(ir, 'params', ()) or ()) + list(getattr(ir, 'globals', ()) or ())
            captured.append((r, params))
            return r
        cmod.pg_compiler.compile_ir_to_sql_tree = wrapper
        try:
            src = edgeql.NormalizedSource.from_string(text)
            grp = cmod.compile(ctx=ctx, source=src)
        finally:
            cmod.pg_compiler.compile_ir_to_sql_tree = orig
        return list(grp), captured

    @staticmethod
    def unit_obs(u):
        sql = u.sql if isinstance(u.sql, (bytes, str)) else b';'.join(u.sql)
        if isinstance(sql, bytes):
            sql = sql.decode('utf-8')
        # the leading "-- {json}" line carries the query text and a cache id, not SQL
        body = '\n'.join(l for l in sql.split('\n') if not l.startswith('-- '))
        return {
            'sql': body,
            'in_type_args': [[p.name, bool(p.required), bool(getattr(p, 'array_type_id', None)),
                              len(p.sub_params[0]) if getattr(p, 'sub_params', None) else 0]
                             for p in (u.in_type_args or ())],
            'in_type_id': u.in_type_id.hex() if isinstance(u.in_type_id, bytes) else str(u.in_type_id),
            'in_type_data': (u.in_type_data or b'').hex(),
            'out_type_id': u.out_type_id.hex() if isinstance(u.out_type_id, bytes) else str(u.out_type_id),
            'out_type_data': (u.out_type_data or b'').hex(),
            'globals': [list(g) if isinstance(g, tuple) else g for g in (u.globals or ())],
            'real_count': int(getattr(u, 'in_type_args_real_count', 0) or 0),
            'cardinality': str(u.cardinality), 'capabilities': int(u.capabilities),
        }

    def run_server(self, sid, text, double=True):
        schema, catalog = self.schema(sid)
        out = {'st': 'ok', 'mon': []}
        if double and _DET['on'] and not _DET['fork']:
            self.compile_server(schema, text)
        units, captured = self.compile_server(schema, text)
        o = [self.unit_obs(u) for u in units]
        if double:
            units2, captured2 = self.compile_server(schema, text)
            o2 = [self.unit_obs(u) for u in units2]
            if o != o2:
                out['mon'].append('nondet-inprocess')
                out['sql2'] = '\n;\n'.join(u['sql'] for u in o2)
                out['desc_differs'] = [k for a, b in zip(o, o2) for k in a if k != 'sql' and a[k] != b.get(k)]
        out['units'] = len(o)
        out['sql'] = '\n;\n'.join(u['sql'] for u in o)
        out['desc'] = [{k: v for k, v in u.items() if k != 'sql'} for u in o]
        out['digest'] = hashlib.sha256(json.dumps(o, sort_keys=True).encode()).hexdigest()[:24]
        np = 0
        for u in o:
            used = sorted(set(text_params(u['sql'])))
            # what edb/server/protocol/args_ser.pyx::recode_bind_args sends in Bind:
            # in_type_args_real_count (extracted constants are entries of in_type_args here) + globals
            # (the value, and a "present" flag for globals with a default)
            nargs = u['real_count']
            nglob = 0
            present = []
            for g in u['globals']:
                nglob += 1
                if isinstance(g, list) and len(g) > 1 and g[1]:
                    nglob += 1
                    present.append(nargs + nglob)
            k = nargs + nglob
            if used != list(range(1, k + 1)):
                out['mon'].append('params-unit')
                out['params_unit'] = {'used': used, 'bind_count': k, 'present_flags': present,
                                      'in_type_args': u['in_type_args'], 'globals': u['globals']}
            np = max(np, k)
        # the tree of the (single) statement, as the server compiled it
        if len(o) == 1 and len(captured) == 1:
            res, params = captured[0]
            rows = self.argmap_rows(res.argmap, params)
            sub = {'st': 'ok', 'mon': []}
            self.observe(sub, res.ast, rows, o[0]['sql'], catalog)
            if sub['st'] != 'ok':
                out['st'] = sub['st']
                out['err'] = sub.get('err')
            for k in ('term', 'names', 'argmap', 'skdiff', 'params_text', 'resolved', 'pyref', 'feat'):
                if k in sub:
                    out[k] = sub[k]
            out['mon'] += sub['mon']
        out['np'] = np
        out['sqllen'] = sum(len(u['sql']) for u in o)
        return out

    WARMUP = ['select 1', "select <str>$0 ++ 'x'", 'select {1, 2} union {3}', 'for x in {1, 2} union (x + 1)',
              "select schema::ObjectType {name, pointers: {name} order by .name limit 2} filter .name = 'x' limit 1",
              'select (group schema::ObjectType by .abstract) {key: {abstract}, n := count(.elements)}',
              'select count(schema::Object) + len(<str>(global default::__nope ?? 1)) if false else 0']

    def warm_up(self, sid, mode):
        """mode D: pay the first-compilation costs (lazy tables, caches) once in the parent, with a FIXED list of
        statements, so that every forked compilation starts from the same warm state"""
        key = (sid, mode)
        if key in self.warm:
            return
        self.warm.add(key)
        schema, catalog = self.schema(sid)
        if mode == 's':
            self.server_compiler()
        for q in self.WARMUP:
            try:
                if mode == 's':
                    self.compile_server(schema, q)
                else:
                    self.compile_tree(schema, q, mode)
            except Exception:   # noqa
                pass

    def run_line_forked(self, line):
        """mode D: each of the two compilations runs in its own fork of this process, which has loaded the
        schemas but never compiled anything: both start from the same interpreter state (no history)"""
        import select
        parts = line.split(' ')
        if len(parts) != 4 or parts[0] != 'Q' or parts[1] not in self.spec['schemas']:
            return {'st': 'bad-line'}
        self.warm_up(parts[1], parts[2])
        limit = float(os.environ.get('C13_CASE_TIMEOUT', '90'))
        outs = []
        for k in range(2):
            rfd, wfd = os.pipe()
            sys.stdout.flush()
            pid = os.fork()
            if pid == 0:
                try:
                    os.close(rfd)
                    res = self.run_line(line, double=False)
                    data = json.dumps(res).encode()
                    off = 0
                    while off < len(data):
                        off += os.write(wfd, data[off:off + 65536])
                finally:
                    os._exit(0)
            os.close(wfd)
            buf = b''
            t_end = time.time() + limit
            timed_out = False
            while True:
                left = t_end - time.time()
                if left <= 0:
                    timed_out = True
                    break
                r, _, _ = select.select([rfd], [], [], left)
                if not r:
                    timed_out = True
                    break
                chunk = os.read(rfd, 1 << 16)
                if not chunk:
                    break
                buf += chunk
            os.close(rfd)
            if timed_out:
                try:
                    os.kill(pid, 9)
                except OSError:
                    pass
                os.waitpid(pid, 0)
                # the lexer subprocess may be in the middle of a request of the killed child: give up this worker
                print(json.dumps({'st': 'timeout', 'err': f'no answer within {limit:.0f}s (mode D)'}), flush=True)
                os._exit(3)
            os.waitpid(pid, 0)
            try:
                outs.append(json.loads(buf.decode()))
            except ValueError:
                return {'st': 'crash', 'err': 'forked compilation died'}
        a, b = outs
        if a.get('st') == 'ok' and (b.get('st') != 'ok' or a.get('sql') != b.get('sql')
                                    or a.get('argmap') != b.get('argmap') or a.get('desc') != b.get('desc')):
            a.setdefault('mon', []).append('nondet-inprocess')
            a['sql2'] = b.get('sql')
            a['argmap2'] = b.get('argmap')
            if a.get('desc') != b.get('desc'):
                a['desc_differs'] = ['desc']
        return a

    def run_line(self, line, double=True):
        parts = line.split(' ')
        if len(parts) != 4 or parts[0] != 'Q':
            return {'st': 'bad-line'}
        sid, mode, hx = parts[1], parts[2], parts[3]
        try:
            text = bytes.fromhex(hx).decode('utf-8')
        except ValueError:
            return {'st': 'bad-line'}
        errors = self.rt['errors']
        try:
            if mode in ('n', 'j'):
                return self.run_tree(sid, mode, text, double)
            elif mode == 's':
                return self.run_server(sid, text, double)
            return {'st': 'bad-line'}
        except errors.InternalServerError as e:
            return {'st': 'crash', 'err': f'{type(e).__name__}: {str(e)[:300]}'}
        except errors.EdgeDBError as e:
            return {'st': 'rej', 'err': f'{type(e).__name__}: {str(e)[:120]}'}
        except RecursionError:
            return {'st': 'crash', 'err': 'RecursionError'}
        except Exception as e:   # noqa
            import traceback
            tb = traceback.extract_tb(e.__traceback__)
            where = ' <- '.join(f'{os.path.basename(f.filename)}:{f.lineno}' for f in tb[-3:])
            return {'st': 'crash', 'err': f'{type(e).__name__}: {str(e)[:300]} @ {where}'}


def first_diff(a, b):
    i = 0
    n = min(len(a), len(b))
    while i < n and a[i] == b[i]:
        i += 1
    return {'at': i, 'a': a[max(0, i - 60):i + 60], 'b': b[max(0, i - 60):i + 60]}


def sk_diff(a, b):
    i = 0
    n = min(len(a), len(b))
    while i < n and a[i] == b[i]:
        i += 1
    return {'at': i, 'tree': a[max(0, i - 3):i + 4], 'text': b[max(0, i - 3):i + 4], 'len_tree': len(a), 'len_text': len(b)}


def child_main(repo, specpath):
    spec = json.load(open(specpath))
    w = Worker(repo, spec)
    for line in sys.stdin:
        line = line.rstrip('\n')
        if not line:
            print(json.dumps({'st': 'bad-line'}), flush=True)
            continue
        if _DET['on'] and _DET['fork']:
            print(json.dumps(w.run_line_forked(line)), flush=True)
        else:
            print(json.dumps(w.run_line(line)), flush=True)


def supervise(repo, specpath):
    """one child worker at a time; a case that exceeds the time limit kills the child (its interpreter
    state is not trusted afterwards) and the next case starts a fresh one"""
    import select
    import subprocess
    limit = float(os.environ.get('C13_CASE_TIMEOUT', '90'))
    child = None
    fresh = True

    def spawn():
        return subprocess.Popen([sys.executable, os.path.abspath(__file__), repo, '--child', specpath],
                                stdin=subprocess.PIPE, stdout=subprocess.PIPE, text=True, bufsize=1)
    for line in sys.stdin:
        line = line.rstrip('\n')
        out = None
        for attempt in (0, 1):
            if child is None:
                child = spawn()
                fresh = True
            was_fresh = fresh
            try:
                child.stdin.write(line + '\n')
                child.stdin.flush()
                r, _, _ = select.select([child.stdout], [], [], limit + (240 if fresh else 0))
                out = child.stdout.readline() if r else None
            except (BrokenPipeError, OSError):
                out = ''
            fresh = False
            if out == '' and not was_fresh and attempt == 0:
                # the worker had exited before this case (e.g. after a timeout in mode D): retry on a fresh one
                child.kill()
                child.wait()
                child = None
                continue
            break
        if out is None:
            child.kill()
            child.wait()
            child = None
            print(json.dumps({'st': 'timeout', 'err': f'no answer within {limit:.0f}s'}))
        elif out == '':
            rc = child.poll()
            child.kill()
            child.wait()
            child = None
            print(json.dumps({'st': 'crash', 'err': f'worker process died (rc={rc})'}))
        else:
            sys.stdout.write(out if out.endswith('\n') else out + '\n')
    if child is not None:
        child.stdin.close()
        child.wait()
    sys.stdout.flush()


def main():
    repo = sys.argv[1] if len(sys.argv) > 1 else '/repo'
    if len(sys.argv) > 3 and sys.argv[2] == '--build-schemas':
        spec = json.load(open(sys.argv[3]))
        rt = setup(repo)
        import glob
        paths = {}
        for sid, s in spec['schemas'].items():
            s = {k: v for k, v in s.items() if k != 'pickle'}
            load_schema(rt, spec['cache'], sid, s)
            keep = schema_pickle_path(rt, spec['cache'], sid, s)
            paths[sid] = keep
            for old in glob.glob(os.path.join(spec['cache'], f'schema-{sid}-*.pickle')):
                if old != keep:          # built for another std-schema key / SDL text
                    try:
                        os.remove(old)
                    except OSError:
                        pass
        if spec.get('server'):
            rt['vrt'].reflection_schema()
        print(json.dumps(paths))
        print('ok')
        return
    if len(sys.argv) > 3 and sys.argv[2] == '--child':
        return child_main(repo, sys.argv[3])
    supervise(repo, sys.argv[2])


if __name__ == '__main__':
    main()
