"""C09 implementation side.  One history per input line (same encoding as the OCaml
driver, see ocaml/c09_main.ml); output per line:  <impl reply>|<pg-oracle reply> ...

REAL code driven (from the repo given in argv[1]):
  edb.server.compiler.dbstate          Transaction / CompilerConnectionState   (everything)
  edb.server.compiler.compiler         Compiler.compile_in_tx (prelude + sync_tx), Compiler.compile
                                       (state construction), _compile_ql_transaction
  edb.server.compiler_pool.worker      compile_in_tx (LAST_STATE / REUSE marker / pickling)
  edb.server.compiler_pool.pool        AbstractPool.compile_in_tx (_last_pickled_state handling)
  edb/server/dbview/dbview.pyx          DatabaseIndex / Database / DatabaseConnectionView: the TEXT of the
                                       working tree, translated by harness/translate/pyx2py.py (C declaration
                                       layer stripped, nothing else) on every run and executed: parse, _compile,
                                       as_compiled, _check_in_tx_error, start, start_tx, _apply_in_tx, on_error,
                                       on_success, tx_error, declare_savepoint, rollback_tx_to_savepoint,
                                       abort_tx, get/set_modaliases, get/set_session_config, apply_config_ops
  edb/server/protocol/execute.pyx       execute() (same translator), against a scripted backend connection
MODELLED glue (transliterated, cannot run here):
  - the statement loop of compiler._try_compile_ast for non-transaction statements
    (SET ALIAS -> Transaction.update_modaliases, DDL -> Transaction.update_schema) and the
    filling of QueryUnit.tx_id / sp_id / modaliases / user_schema;
  - protocol/binary.pyx: the three-way dispatch of EdgeConnection.execute, _execute_rollback and
    the main-loop error handler (RealSystem.request below mirrors them line by line);
    with C09_DBVIEW=translit the older hand transliteration of dbview.pyx (class DbView) is used
    instead of the translated source (debugging aid);
  - dbview.serialize_state (backend session-state blob: irrelevant here) is replaced by a constant;
  - PostgreSQL itself: class PG below (independent oracle of transaction semantics).
"""
import sys
import os
import pickle
import importlib.util
import asyncio
import copy

REPO = sys.argv[1]
sys.path.insert(0, os.path.join(os.path.dirname(os.path.abspath(__file__)), '..', 'rt'))
import vrt  # noqa
vrt.install()
import edb  # noqa
assert edb.__path__[0].startswith(REPO), edb.__path__

import immutables  # noqa
from edb import errors  # noqa
from edb.edgeql import ast as qlast  # noqa
from edb.schema import schema as s_schema  # noqa
from edb.server.compiler import dbstate, compiler as C, enums  # noqa
from edb.server.compiler_pool import state as pool_state, pool as pool_mod  # noqa
from edb.ir import statypes  # noqa

sys.modules.setdefault('c09_impl', sys.modules['__main__'])


class VSchema(s_schema.FlatSchema):
    """a distinct user schema value carrying its version number"""
    ver = None


VSchema.__module__ = 'c09_impl'
VSchema.__qualname__ = 'VSchema'


def mk_schema(v):
    s = VSchema()
    s.ver = v
    return s


def sch_ver(s):
    return getattr(s, 'ver', -1)


def mk_ali(v):
    return immutables.Map({None: 'default', 'v': str(v)})


def ali_ver(m):
    return int(m.get('v', '-1'))


def mk_cfg(v):
    """session config carrying the same version; version 0 is the EMPTY map"""
    return immutables.Map() if v == 0 else immutables.Map({'v': v})


def cfg_ver(m):
    return m.get('v', 0)


def seen_of(tx):
    a, c = ali_ver(tx.get_modaliases()), cfg_ver(tx.get_session_config())
    return (sch_ver(tx.get_user_schema()), a if a == c else f'{a}!cfg{c}')


EMPTY = s_schema.EMPTY_SCHEMA


# ---------------------------------------------------------------- scripted statement compiler
class Rejected(Exception):
    pass


class Unit:
    # attributes of dbstate.QueryUnit read by dbview.pyx / execute.pyx (defaults of the dataclass)
    sql = b'select 1'
    status = b'OK'
    has_ddl = has_set = False
    system_config = database_config = False
    global_schema = None
    user_schema_version = None
    extensions = frozenset()
    ext_config_settings = ()
    feature_used_metrics = None
    cached_reflection = None
    roles = None
    create_db = drop_db = create_db_template = None
    drop_db_reset_connections = False
    create_db_mode = None
    config_ops = ()
    ddl_stmt_id = None
    needs_readback = is_explain = False
    source_map = None
    sql_hash = b''
    tx_abort_migration = False
    cacheable = False
    capabilities = enums.Capability(0)
    warnings = ()
    query_asts = None

    def __init__(self, stmt):
        self.stmt = stmt
        self.tx_id = None
        self.sp_id = None
        self.sp_name = None
        self.modaliases = None
        self.user_schema = None
        self.tx_commit = self.tx_rollback = False
        self.tx_savepoint_rollback = self.tx_savepoint_declare = False
        self.seen = None
        self.config = None


def _fake_config_val(ctx, name):
    if name == 'default_transaction_isolation':
        return statypes.TransactionIsolation("Serializable")
    if name == 'default_transaction_access_mode':
        return statypes.TransactionAccessMode("ReadWrite")
    return None


C._get_config_val = _fake_config_val


def ql_of(st):
    k, arg = st[:2], st[2:]
    if k == 'ST':
        return qlast.StartTransaction()
    if k == 'CO':
        return qlast.CommitTransaction()
    if k == 'RB':
        return qlast.RollbackTransaction()
    if k == 'DE':
        return qlast.DeclareSavepoint(name='s' + arg)
    if k == 'RE':
        return qlast.ReleaseSavepoint(name='s' + arg)
    if k == 'RT':
        return qlast.RollbackToSavepoint(name='s' + arg)
    return None


class SessOp:
    """a CONFIGURE SESSION operation whose application yields the given settings map"""
    def __init__(self, new):
        self.new = new

    @property
    def scope(self):
        from edb.server import config
        return config.ConfigScope.SESSION

    def apply(self, settings, cur):
        return self.new


PICKLE_UNITS = False


def compile_one(ctx, st):
    u = _compile_one(ctx, st)
    if PICKLE_UNITS and u.user_schema is not None:
        # _try_compile_ast: unit.user_schema = pickle.dumps(comp.user_schema, -1)
        u.user_schema = pickle.dumps(u.user_schema, -1)
    return u


def _compile_one(ctx, st):
    """one statement: the part of _try_compile_ast/_compile_dispatch_ql that matters here"""
    tx = ctx.state.current_tx()
    u = Unit(st)
    u.seen = seen_of(tx)
    ql = ql_of(st)
    if ql is not None:
        comp = C._compile_ql_transaction(ctx, ql)          # REAL
        # transliteration of the TxControlQuery branch of _try_compile_ast
        if comp.user_schema is not None:
            u.user_schema = comp.user_schema
        if comp.modaliases is not None:
            u.modaliases = comp.modaliases
        A = dbstate.TxAction
        if comp.action == A.START:
            u.tx_id = ctx.state.current_tx().id
        elif comp.action == A.COMMIT:
            u.tx_commit = True
        elif comp.action == A.ROLLBACK:
            u.tx_rollback = True
        elif comp.action is A.ROLLBACK_TO_SAVEPOINT:
            u.tx_savepoint_rollback = True
            u.sp_name = comp.sp_name
        elif comp.action is A.DECLARE_SAVEPOINT:
            u.tx_savepoint_declare = True
            u.sp_name = comp.sp_name
            u.sp_id = comp.sp_id
        return u
    k, arg = st[:2], st[2:]
    if k == 'SA':      # _compile_ql_sess_state: update_modaliases + unit.modaliases
        al = tx.get_modaliases().set('v', arg)
        tx.update_modaliases(al)
        u.modaliases = al
        # CONFIGURE SESSION ...: update_session_config + config ops applied by the server
        tx.update_session_config(mk_cfg(int(arg)))
        u.config = mk_cfg(int(arg))
        u.config_ops = (SessOp(u.config),)
    elif k == 'DD':    # DDL: update_schema with the new user schema; unit.user_schema
        new = mk_schema(int(arg))
        tx.update_schema(s_schema.ChainedSchema(EMPTY, new, tx.get_global_schema()))
        u.user_schema = new
    elif k == 'QU':
        pass
    else:
        raise ValueError(st)
    return u


def scripted_compile(*, ctx, source):
    """stands for compiler.compile(ctx, source): source = ('S', stmt) | ('B', [stmts])"""
    kind, payload = source
    if kind == 'S':
        return [compile_one(ctx, payload)]
    # a script whose prefix compiles and whose later statement is rejected
    if ctx.expect_rollback:
        raise errors.TransactionError('expected a ROLLBACK or ROLLBACK TO SAVEPOINT command')
    for st in payload:
        compile_one(ctx, st)
    raise errors.QueryError('rejected statement at the end of the script')


C.compile = scripted_compile


class Request:
    """duck-typed rpc.CompilationRequest: only what Compiler.compile / compile_in_tx read"""
    input_language = enums.InputLanguage.EDGEQL
    output_format = enums.OutputFormat.BINARY
    input_format = enums.InputFormat.BINARY
    expect_one = False
    implicit_limit = 0
    inline_typeids = False
    inline_typenames = False
    inline_objectids = True
    protocol_version = (2, 0)
    role_name = None
    branch_name = None
    session_config = None

    def __init__(self, source, modaliases, session_config):
        self.source = source
        self.modaliases = modaliases
        self.session_config = session_config

    def get_cache_key(self):
        return None

    # what dbview.pyx calls on a request
    def serialize(self):
        return self

    def set_schema_version(self, v):
        pass


class Src(tuple):
    """the scripted source ('S', stmt) | ('B', [stmts]) with the edgeql.Source methods dbview reads"""
    def text(self):
        return 'text'

    def first_extra(self):
        return None

    def extra_counts(self):
        return ()

    def extra_blobs(self):
        return ()

    def extra_formatted_as_text(self):
        return False

    def extra_type_oids(self):
        return ()


class UnitGroup(list):
    """duck-typed dbstate.QueryUnitGroup"""
    capabilities = enums.Capability(0)
    cacheable = False
    cache_state = 0
    tx_seq_id = 0
    force_non_normalized = False
    state_serializer = None
    warnings = ()


class FakeCompilerState:
    std_schema = EMPTY
    config_spec = None
    compilation_config_serializer = None


class TheCompiler(C.Compiler):
    """real Compiler; only request (de)serialisation is bypassed"""

    def compile_serialized_request_in_tx(self, state, txid, request, original_query,
                                         expect_rollback=False):
        return self.compile_in_tx(state=state, txid=txid, request=request,
                                  expect_rollback=expect_rollback)


def load_worker(name):
    """a private instance of compiler_pool/worker.py (own LAST_STATE / COMPILER globals)"""
    path = os.path.join(REPO, 'edb', 'server', 'compiler_pool', 'worker.py')
    spec = importlib.util.spec_from_file_location('edb.server.compiler_pool.' + name, path)
    mod = importlib.util.module_from_spec(spec)
    sys.modules[spec.name] = mod
    spec.loader.exec_module(mod)
    mod.COMPILER = TheCompiler(FakeCompilerState())
    return mod


class InprocWorker:
    def __init__(self, name):
        self.mod = load_worker(name)
        self._last_pickled_state = None
        self._dbs = {}

    async def call(self, method, *args, **kw):
        return getattr(self.mod, method)(*args, **kw)


class StubPool(pool_mod.AbstractPool):
    """the real AbstractPool.compile_in_tx with two in-process workers; the harness
    decides whether the preferred worker is free (reuse) or busy"""

    def __init__(self):
        self.workers = [InprocWorker('w_a'), InprocWorker('w_b')]
        self.prefer_free = True

    async def _acquire_worker(self, *, condition=None, weighter=None, **kw):
        pref = [w for w in self.workers if condition is not None and condition(w)]
        others = [w for w in self.workers if w not in pref]
        if pref and (self.prefer_free or not others):
            return pref[0]
        return others[0] if others else pref[0]

    def _release_worker(self, worker, *, put_in_front=True):
        pass

    async def compile(self, dbname, user_schema_pickle, global_schema_pickle, reflection_cache,
                      database_config, system_config, req, text, **kw):
        """AbstractPool.compile + worker.compile: state handling transliterated (2 lines each);
        used by the translated dbview._compile outside a transaction"""
        w = self.workers[0]
        units, cstate = THE_COMPILER().compile(
            user_schema=pickle.loads(user_schema_pickle), global_schema=EMPTY,
            reflection_cache=immutables.Map(), database_config=None, system_config=None,
            request=req)
        w.mod.LAST_STATE = cstate
        pickled = pickle.dumps(cstate, -1) if cstate is not None else None
        w._last_pickled_state = pickled
        return units, pickled, 0


_THE_COMPILER = None


def THE_COMPILER():
    global _THE_COMPILER
    if _THE_COMPILER is None:
        _THE_COMPILER = TheCompiler(FakeCompilerState())
    return _THE_COMPILER


# ---------------------------------------------------------------- PostgreSQL oracle
class PG:
    """independent implementation of the specification (see DESIGN C09 'Spec')"""

    def __init__(self, sch, ali):
        self.block = False
        self.abort = False
        self.base = (sch, ali)
        self.now = (sch, ali)
        self.stack = []          # newest last

    def setp(self, p):
        self.now = p
        if not self.block:
            self.base = p

    def find(self, n):
        for i in range(len(self.stack) - 1, -1, -1):
            if self.stack[i][0] == n:
                return i
        return None

    def has(self, n):
        return self.find(n) is not None

    def step(self, body, befail, cali):
        if cali is not None:
            self.setp((self.now[0], cali))
        if body[0] == 'B':
            if self.block:
                self.abort = True
            return 'R'
        st = body[1]
        k, arg = st[:2], st[2:]
        seen = '%d.%d' % self.now

        def rej():
            if self.block:
                self.abort = True
            return 'R'
        if k == 'RB':
            self.block = self.abort = False
            self.now = self.base
            self.stack = []
            return 'A0.0'
        if k == 'RT':
            if not self.block:
                return rej()
            i = self.find(arg)
            if i is None:
                return rej()
            self.now = self.stack[i][1]
            del self.stack[i + 1:]
            self.abort = False
            return 'A0.0'
        if self.abort:
            return rej()
        if k == 'ST':
            if self.block:
                return rej()
            self.block = True
            self.base = self.now
            self.stack = []
            return 'A' + seen
        if k == 'CO':
            if not self.block:
                return rej()
            self.block = False
            self.stack = []
            if befail:
                self.now = self.base
                return 'B' + seen
            self.base = self.now
            return 'A' + seen
        if k == 'DE':
            if not self.block:
                return rej()
            self.stack.append((arg, self.now))
            return 'A' + seen
        if k == 'RE':
            if not self.block:
                return rej()
            i = self.find(arg)
            if i is None:
                return rej()
            del self.stack[i:]
            return 'A' + seen
        if k == 'SA':
            self.setp((self.now[0], int(arg)))
            return 'A' + seen
        if k == 'DD':
            if befail:
                if self.block:
                    self.abort = True
                return 'B' + seen
            self.setp((int(arg), self.now[1]))
            return 'A' + seen
        if k == 'QU':
            if befail:
                if self.block:
                    self.abort = True
                return 'B' + seen
            return 'A' + seen
        raise ValueError(st)


# ---------------------------------------------------------------- server (dbview.pyx etc.)
class DbView:
    def __init__(self, sch, ali):
        self._modaliases = mk_ali(ali)
        self._config = mk_cfg(ali)
        self._db_user_schema = mk_schema(sch)          # the database's committed schema
        self._last_comp_state = None
        self._last_comp_state_id = 0
        self._reset_tx_state()

    def _reset_tx_state(self):
        self._txid = None
        self._in_tx = False
        self._in_tx_modaliases = None
        self._in_tx_config = None
        self._in_tx_savepoints = []
        self._in_tx_root_user_schema_pickle = None
        self._tx_error = False

    def in_tx(self):
        return self._in_tx

    def in_tx_error(self):
        return self._tx_error

    def get_modaliases(self):
        return self._in_tx_modaliases if self._in_tx else self._modaliases

    def set_modaliases(self, m):
        if self._in_tx:
            self._in_tx_modaliases = m
        else:
            self._modaliases = m

    def get_session_config(self):
        return self._in_tx_config if self._in_tx else self._config

    def set_session_config(self, c):
        if self._in_tx:
            self._in_tx_config = c
        else:
            self._config = c

    def tx_error(self):
        if self._in_tx:
            self._tx_error = True

    def start_tx(self):
        self._in_tx = True
        self._in_tx_modaliases = self._modaliases
        self._in_tx_config = self._config
        self._in_tx_root_user_schema_pickle = pickle.dumps(self._db_user_schema, -1)

    def start(self, unit):
        if self._tx_error:
            raise RuntimeError('in_tx_error')
        if unit.tx_id is not None:
            self._txid = unit.tx_id
            self.start_tx()

    def rollback_tx_to_savepoint(self, name):
        self._tx_error = False
        while self._in_tx_savepoints:
            if self._in_tx_savepoints[-1][0] == name:
                break
            else:
                self._in_tx_savepoints.pop()
        else:
            raise RuntimeError(f'savepoint {name} not found')
        _, spid, (modaliases, config) = self._in_tx_savepoints[-1]
        self._txid = spid
        self.set_modaliases(modaliases)
        self.set_session_config(config)

    def declare_savepoint(self, name, spid):
        self._in_tx_savepoints.append((name, spid, (self.get_modaliases(), self.get_session_config())))

    def abort_tx(self):
        self._reset_tx_state()

    def on_success(self, unit):
        if not self._in_tx:
            if unit.user_schema is not None:
                self._db_user_schema = unit.user_schema
        if unit.modaliases is not None:
            self.set_modaliases(unit.modaliases)
        if unit.config is not None:             # execute.pyx: apply_config_ops
            self.set_session_config(unit.config)
        if unit.tx_commit:
            self._modaliases = self._in_tx_modaliases
            self._config = self._in_tx_config
            if unit.user_schema is not None:
                self._db_user_schema = unit.user_schema
            self._reset_tx_state()
        elif unit.tx_rollback:
            self._reset_tx_state()


_POOL = None
_LOOP = None


class System:
    def __init__(self, sch, ali):
        self.dbv = DbView(sch, ali)
        self.pg = PG(sch, ali)
        global _POOL, _LOOP
        if _POOL is None:
            _POOL = StubPool()
            _LOOP = asyncio.new_event_loop()
        for w in _POOL.workers:                 # fresh worker processes
            w.mod.LAST_STATE = None
            w._last_pickled_state = None
        self.pool = _POOL
        self.compiler = TheCompiler(FakeCompilerState())
        self.loop = _LOOP

    def close(self):
        pass

    # dbview._compile
    def compile(self, source):
        dbv = self.dbv
        req = Request(source, dbv.get_modaliases(), dbv.get_session_config())
        if dbv.in_tx():
            result = self.loop.run_until_complete(self.pool.compile_in_tx(
                'db', dbv._in_tx_root_user_schema_pickle, dbv._txid,
                dbv._last_comp_state, dbv._last_comp_state_id,
                req, 'text', dbv.in_tx_error()))
            units, dbv._last_comp_state, dbv._last_comp_state_id = result
            return units
        # pool.compile + worker.compile: state handling transliterated (2 lines each)
        w = self.pool.workers[0]
        units, cstate = self.compiler.compile(
            user_schema=dbv._db_user_schema, global_schema=EMPTY,
            reflection_cache=immutables.Map(), database_config=None, system_config=None,
            request=req)
        w.mod.LAST_STATE = cstate
        pickled = pickle.dumps(cstate, -1) if cstate is not None else None
        w._last_pickled_state = pickled
        dbv._last_comp_state, dbv._last_comp_state_id = pickled, 0
        return units

    def pg_ok(self, st, befail):
        k, arg = st[:2], st[2:]
        if k in ('RE', 'RT'):
            return self.pg_before.has(arg) and self.pg_before.block
        if k in ('DD', 'QU', 'CO'):
            return not befail
        return True

    def request(self, body, befail, reuse, cali):
        dbv = self.dbv
        if cali is not None:
            dbv.set_modaliases(dbv.get_modaliases().set('v', str(cali)))
            dbv.set_session_config(mk_cfg(cali))
        self.pool.prefer_free = reuse
        try:
            units = self.compile(body)
        except (errors.EdgeDBError,) as e:
            dbv.tx_error()                      # binary.pyx main loop handler
            return 'R'
        u = units[0]
        st = u.stmt
        seen = 'A0.0'[1:] if st[:2] in ('RB', 'RT') else '%s.%s' % u.seen
        rollbackish = u.tx_rollback or u.tx_savepoint_rollback
        if dbv.in_tx_error():
            if not rollbackish:
                return 'R'                      # _check_in_tx_error
            if not self.pg_ok(st, befail):
                return 'R'
            if u.tx_savepoint_rollback:
                try:
                    dbv.rollback_tx_to_savepoint(u.sp_name)
                except RuntimeError:
                    return 'R'
            else:
                dbv.abort_tx()
            return 'A' + seen
        dbv.start(u)
        if not self.pg_ok(st, befail):
            dbv.tx_error()                      # on_error
            if u.tx_commit:
                dbv.abort_tx()
                return 'B' + seen
            if st[:2] in ('RE', 'RT'):
                return 'R'
            return 'B' + seen
        if u.tx_savepoint_rollback:
            try:
                dbv.rollback_tx_to_savepoint(u.sp_name)
            except RuntimeError:
                dbv.tx_error()
        if u.tx_savepoint_declare:
            dbv.declare_savepoint(u.sp_name, u.sp_id)
        dbv.on_success(u)
        return 'A' + seen


# ---------------------------------------------------------------- the real dbview / execute text
_PYX = None


def load_pyx():
    """translate + execute the working tree's dbview.pyx and execute.pyx (fail closed:
    a TranslateError propagates and the check reports a broken tie)"""
    global _PYX
    if _PYX is not None:
        return _PYX
    import types
    import pyxload
    pyxload.stub_module('edb.server.protocol.ai_ext',
                        start_extension=lambda *a: None, stop_extension=lambda *a: None)

    stmt_cache = pyxload.load(REPO, 'edb/server/cache/stmt_cache.pyx')
    dbview = pyxload.load(REPO, 'edb/server/dbview/dbview.pyx', inject={'stmt_cache': stmt_cache})
    # the backend session-state blob is irrelevant here (and needs the real config spec)
    dbview.DatabaseConnectionView.serialize_state = lambda self: b'state'
    if 'edgedb' not in sys.modules:
        try:
            import edgedb  # noqa
        except Exception:
            pyxload.stub_module('edgedb')
    args_ser = types.SimpleNamespace(
        combine_raw_args=lambda *a: b'', recode_bind_args=lambda *a: b'',
        recode_bind_args_for_script=lambda *a: b'')
    execute = pyxload.load(REPO, 'edb/server/protocol/execute.pyx',
                           inject={'dbview': dbview, 'args_ser': args_ser, 'WriteBuffer': object})
    execute.args_ser = args_ser
    execute.dbview = dbview
    from edb.server.pgcon import errors as pgerror
    _PYX = (dbview, execute, pgerror)
    return _PYX


class FakeServer:
    def __init__(self, pool):
        self._pool = pool

    def get_compiler_pool(self):
        return self._pool

    def config_lookup(self, name, *configs):
        return None


class FakeTenant:
    client_id = 0
    tenant_id = 'T'

    def __init__(self, pool):
        self.server = FakeServer(pool)

    def get_instance_name(self):
        return 'verif'

    def set_roles(self, roles):
        pass

    def is_readonly(self):
        return False

    accept_new_tasks = False        # signal_side_effects: no system events are broadcast


class BeConn:
    """scripted backend connection: succeeds or fails as the PG oracle dictates"""
    last_state = None
    state_reset_needs_commit = False

    def __init__(self, sysm):
        self.sysm = sysm
        self.fail = False

    def _run(self):
        if self.fail:
            pgerror = _PYX[2]
            raise pgerror.BackendError(fields={'C': '25P02', 'M': 'scripted backend failure'})

    async def parse_execute(self, **kw):
        self._run()
        return None

    async def sql_execute(self, sql):
        self._run()

    def in_tx(self):
        return self.sysm.pg.block

    def load_last_ddl_return(self, unit):
        return None


class RealSystem:
    """same protocol as System, but dbview.pyx / execute.pyx are the translated source text"""

    def __init__(self, sch, ali):
        global _POOL, _LOOP, PICKLE_UNITS
        PICKLE_UNITS = True
        dbview, execute, pgerror = load_pyx()
        self.dbview_mod, self.execute_mod = dbview, execute
        self.pg = PG(sch, ali)
        if _POOL is None:
            _POOL = StubPool()
            _LOOP = asyncio.new_event_loop()
        for w in _POOL.workers:                 # fresh worker processes
            w.mod.LAST_STATE = None
            w._last_pickled_state = None
        self.pool = _POOL
        self.loop = _LOOP
        self.be = BeConn(self)
        self.loop.run_until_complete(self._setup(sch, ali))

    async def _setup(self, sch, ali):
        dbview = self.dbview_mod
        self.index = dbview.DatabaseIndex(
            FakeTenant(self.pool), std_schema=None, global_schema_pickle=b'',
            sys_config=immutables.Map(), default_sysconfig=immutables.Map(), sys_config_spec=None)
        self.db = self.index.register_db(
            'db', user_schema_pickle=pickle.dumps(mk_schema(sch), -1), schema_version=None,
            db_config=immutables.Map(), reflection_cache=immutables.Map(), backend_ids={},
            extensions=set(), ext_config_settings=None)
        self.dbv = self.index.new_view('db', query_cache=False, protocol_version=(3, 0))
        # session state the client connected with (binary.pyx: decode_state -> set_*)
        self.dbv.set_modaliases(mk_ali(ali))
        self.dbv.set_session_config(mk_cfg(ali))

    def close(self):
        async def stop():
            self.db.stop()
            await asyncio.sleep(0)
        self.loop.run_until_complete(stop())

    def pg_ok(self, st, befail):
        k, arg = st[:2], st[2:]
        if k in ('RE', 'RT'):
            return self.pg_before.has(arg) and self.pg_before.block
        if k in ('DD', 'QU', 'CO'):
            return not befail
        return True

    def request(self, body, befail, reuse, cali):
        return self.loop.run_until_complete(self._request(body, befail, reuse, cali))

    async def _request(self, body, befail, reuse, cali):
        dbv = self.dbv
        if cali is not None:                    # client-supplied state: decode_state
            dbv.set_modaliases(dbv.get_modaliases().set('v', str(cali)))
            dbv.set_session_config(mk_cfg(cali))
        self.pool.prefer_free = reuse
        req = Request(Src(body), dbv.get_modaliases(), dbv.get_session_config())
        try:
            return await self._execute(req, befail)
        except RejectedReply as r:
            return r.args[0]
        except Exception as e:
            # binary.pyx main loop: any error of a command -> dbview.tx_error(), error reply
            pgerror = _PYX[2]
            if not isinstance(e, (errors.EdgeDBError, pgerror.BackendError)):
                raise
            dbv.tx_error()
            return getattr(e, '_c09_reply', 'R')

    async def _execute(self, req, befail):
        """binary.pyx EdgeConnection.execute: parse, then the three-way dispatch"""
        dbv = self.dbv

        # -- _parse: dbview.parse (REAL: cache lookup, _compile, check_capabilities,
        #    _check_in_tx_error)
        async def compile_wrapper(query_req):
            units = await orig_compile(query_req)
            return UnitGroup(units)
        orig_compile = dbv._compile
        dbv._compile = compile_wrapper          # only wraps the unit list into a group object
        try:
            compiled = await dbv.parse(req)
        finally:
            del dbv._compile
        group = compiled.query_unit_group
        u = group[0]
        st = u.stmt
        seen = 'A0.0'[1:] if st[:2] in ('RB', 'RT') else '%s.%s' % u.seen
        self.be.fail = not self.pg_ok(st, befail)
        if dbv.in_tx_error() or u.tx_savepoint_rollback or u.tx_abort_migration:
            # -- _execute_rollback (transliterated from binary.pyx)
            assert len(group) == 1
            if not (u.tx_savepoint_rollback or u.tx_rollback or u.tx_abort_migration):
                dbv.raise_in_tx_error()
            if u.sql:
                await self.be.sql_execute(u.sql)
            if u.tx_abort_migration:
                dbv.clear_tx_error()
            elif u.tx_savepoint_rollback:
                try:
                    dbv.rollback_tx_to_savepoint(u.sp_name)
                except RuntimeError:
                    # not an EdgeDBError: the main loop treats it as an internal error; the
                    # transaction is marked failed all the same
                    dbv.tx_error()
                    raise RejectedReply('R')
            else:
                assert u.tx_rollback
                dbv.abort_tx()
            return 'A' + seen
        # -- _execute -> execute.execute (REAL)
        try:
            await self.execute_mod.execute(self.be, dbv, compiled, b'')
        except Exception as e:
            pgerror = _PYX[2]
            if isinstance(e, pgerror.BackendError):
                # reply classes of the protocol: a failed RELEASE is a plain rejection, any
                # other backend failure is reported as 'B'
                e._c09_reply = 'R' if st[:2] in ('RE', 'RT') else 'B' + seen
            raise
        return 'A' + seen


class RejectedReply(Exception):
    pass


def parse(line):
    parts = [p.strip() for p in line.split(';')]
    hd = parts[0].split()
    sch, ali = int(hd[2]), int(hd[3])
    reqs = []
    for p in parts[1:]:
        if not p:
            continue
        b, bf, ru, ca = p.split('/')
        if b.startswith('B:'):
            body = ('B', [x for x in b[2:].split(',') if x])
        else:
            body = ('S', b)
        reqs.append((body, bf == '1', ru == '1', None if ca == '-' else int(ca)))
    return sch, ali, reqs


def main():
    out = []
    for line in sys.stdin:
        line = line.rstrip('\n')
        if not line:
            continue
        sch, ali, reqs = parse(line)
        sysm = (System if os.environ.get('C09_DBVIEW') == 'translit' else RealSystem)(sch, ali)
        res = []
        try:
            for body, bf, ru, ca in reqs:
                sysm.pg_before = copy.deepcopy(sysm.pg)
                pgr = sysm.pg.step(body, bf, ca)
                try:
                    r = sysm.request(body, bf, ru, ca)
                except Exception as e:   # noqa: unexpected (internal) failure of the real code
                    if os.environ.get('C09_DEBUG'):
                        import traceback; traceback.print_exc()
                    r = 'X' + type(e).__name__
                    res.append(f'{r}|{pgr}')
                    break
                res.append(f'{r}|{pgr}')
        finally:
            sysm.close()
        out.append(' '.join(res))
    sys.stdout.write('\n'.join(out) + '\n')


main()
