"""C07 implementation driver: runs the REAL EdgeQL->IR->SQL compiler of the tree given as argv[1]
on one case per stdin line and prints one JSON result line per case.

Usage:  python c07_impl.py <repo> <spec.json>            (cases on stdin)
        python c07_impl.py <repo> <spec.json> --sql <pid> <opts> <query>   (debug: print SQL + tree)

spec.json (written by harness/props/c07.py):
  {"skeleton": <SDL text>, "types": [type names; table number = index],
   "placements": {pid: {"ddl": <policy DDL>, "markers": {marker text: atom number},
                        "spec": [[table number, [[is_allow, cond], ...]], ...]}}}
  cond = ["a", n] | ["k", bool] | ["!", c] | ["&", c, c] | ["|", c, c]

Case lines (tab separated):
  Q <pid> <opts> <query text>
      compile the query with apply_query_rewrites=True (as the server does) against skeleton+placement,
      opts = subset of  J (JSON output format) E (is_explain) L (implicit_limit=7)
                        I (implicit tid/tname/id in shapes) N (apply_user_access_policies=False)
      -> {"st": "ok", "tree": <abstract tree for the extracted validator>, "twin": 0|1,
          "why": [...], "culprits": [table numbers], "mon": [monitor failures], "stats": {...}}
       | {"st": "err", "kind": <EdgeDB error class>}          query rejected by the compiler
       | {"st": "crash", "kind": ..., "msg": ...}             non-EdgeDB exception
       | {"st": "unsup", "msg": ...}                          abstraction failed closed
  R <pid> <aqr><auap> <sup type names, comma separated | -> <skip 0/1> <ign 0/1> <type name>
      drive the REAL setgen.class_set -> new_set -> policies.try_type_rewrite on a fresh compiler
      context with ctx.suppress_rewrites = sup
      -> {"st": "ok", "tnode": <unfolded hierarchy for the model>, "res": "ign=.. id/skip=kind ..."}

The abstraction (pgast -> tree) follows the REAL SQL code generator: a subclass of
edb.pgsql.codegen.SQLSourceGenerator records the nesting of the nodes the generator visits, so
the tree is the tree of what is actually emitted as SQL text.

Monitor (on the real pgast, independent of the abstraction's Guard recognition and of the Coq
model): region -- every range variable over a protected table lies in the FROM part of a
SELECT that has a WHERE clause mentioning all the policy markers of that table, or in a CTE
without any WHERE all of whose references do.
"""
import itertools
import json
import os
import re
import sys

REPO = sys.argv[1] if len(sys.argv) > 1 else '/repo'
os.environ['VRT_REPO'] = REPO
sys.setrecursionlimit(20000)
HERE = os.path.dirname(os.path.abspath(__file__))
sys.path.insert(0, os.path.join(os.path.dirname(HERE), 'rt'))
if REPO in sys.path:
    sys.path.remove(REPO)
sys.path.insert(0, REPO)

import vrt  # noqa: E402
vrt.install()
import edb  # noqa: E402
assert os.path.realpath(edb.__path__[0]).startswith(os.path.realpath(REPO)), edb.__path__

from edb import errors  # noqa: E402
from edb.common.ast import base as astbase  # noqa: E402
from edb.common.ast import codegen as base_codegen  # noqa: E402
from edb.edgeql import compiler as qlcompiler  # noqa: E402
from edb.edgeql import parser as qlparser  # noqa: E402
from edb.edgeql import qltypes  # noqa: E402
from edb.edgeql.compiler import options as coptions  # noqa: E402
from edb.edgeql.compiler import setgen, stmtctx  # noqa: E402
from edb.ir import ast as irast  # noqa: E402
from edb.pgsql import ast as pgast  # noqa: E402
from edb.pgsql import codegen as pgcodegen  # noqa: E402
from edb.pgsql import compiler as pgcompiler  # noqa: E402
from edb.schema import name as s_name  # noqa: E402
from edb.schema import schema as s_schema  # noqa: E402


# ============================================================================ tracing codegen

class TN:
    __slots__ = ('node', 'kids', 'tag', 'parent')

    def __init__(self, node, tag=None, parent=None):
        self.node = node
        self.kids = []
        self.tag = tag
        self.parent = parent


class Tracer(pgcodegen.SQLSourceGenerator):
    """the real SQL generator, recording which node is emitted inside which"""

    def __init__(self):
        super().__init__(opts=base_codegen.Options())
        self.root = TN(None, 'root')
        self.stack = [self.root]

    def _push(self, node, tag=None):
        t = TN(node, tag, self.stack[-1])
        self.stack[-1].kids.append(t)
        self.stack.append(t)

    def node_visit(self, node):
        self._push(node)
        try:
            return super().node_visit(node)
        finally:
            self.stack.pop()

    def gen_ctes(self, ctes):
        for cte in ctes:
            self._push(cte, 'ctedef')
            try:
                super().gen_ctes([cte])
            finally:
                self.stack.pop()


def trace(ast):
    g = Tracer()
    g.visit(ast)
    if len(g.root.kids) != 1:
        raise Unsupported('codegen root')
    return g.root.kids[0]


class Unsupported(Exception):
    pass


# ============================================================================ abstraction
# tree: ('S',tab) ('R',cte) ('O',tag,[kids]) ('L',cte,def,body) ('U',[kids]) ('G',base,cond,[aux])
# cond: ('a',n) ('k',bool) ('!',c) ('&',c,c) ('|',c,c)

OTHER_BASE = 500      # tables that are not object tables of the skeleton's types
UNKNOWN_ATOM = 900    # atoms in which no single policy marker was recognised


class Abs:
    def __init__(self, tabmap, markers, protected):
        self.tabmap = tabmap          # relation name -> table number
        self.markers = markers        # marker text -> atom number
        self.protected = set(protected)
        self.ctenames = {}
        self.ctedefs = {}
        self.other = {}
        self.fresh = UNKNOWN_ATOM
        self.notes = []
        self.nscan = self.nguard = self.nref = 0

    def tab(self, rel):
        nm = rel.name
        if nm in self.tabmap:
            return self.tabmap[nm]
        if nm not in self.other:
            self.other[nm] = OTHER_BASE + len(self.other)
        return self.other[nm]

    def cte(self, name):
        if name not in self.ctenames:
            self.ctenames[name] = len(self.ctenames) + 1
        return self.ctenames[name]

    def rawshape(self, t):
        k = t[0]
        if k == 'S':
            return {t[1]}
        if k == 'R':
            d = self.ctedefs.get(t[1])
            return None if d is None else self.rawshape(d)
        if k == 'U':
            out = set()
            for x in t[1]:
                s = self.rawshape(x)
                if s is None:
                    return None
                out |= s
            return out
        return None

    # -------------------------------------------------------------- nodes
    def abs(self, tn):
        n = tn.node
        if isinstance(n, pgast.SelectStmt):
            return self.abs_select(tn)
        if isinstance(n, pgast.RelRangeVar):
            rel = n.relation
            if isinstance(rel, pgast.CommonTableExpr):
                self.nref += 1
                return ('R', self.cte(rel.name))
            if isinstance(rel, pgast.Relation):
                self.nscan += 1
                return ('S', self.tab(rel))
            return self.op(tn)
        if isinstance(n, pgast.Relation):
            self.nscan += 1
            return ('S', self.tab(n))
        if isinstance(n, pgast.RangeSubselect):
            ks = [k for k in tn.kids if not isinstance(k.node, pgast.Alias)]
            if len(ks) == 1:
                return self.abs(ks[0])
            return self.op(tn)
        if isinstance(n, (pgast.InsertStmt, pgast.UpdateStmt, pgast.DeleteStmt)):
            raise Unsupported('dml statement in a read-only query')
        if isinstance(n, pgast.CommonTableExpr):
            raise Unsupported('cte definition outside a WITH list')
        if isinstance(n, pgast.LiteralExpr) and re.search(r'edgedb(pub|std)?\s*\.|\bfrom\b', n.expr, re.I):
            raise Unsupported('raw SQL text that may name a relation: ' + n.expr[:60])
        return self.op(tn)

    def op(self, tn):
        kids = [self.abs(k) for k in tn.kids]
        kids = [k for k in kids if k is not None]
        if not kids:
            return None
        return ('O', type(tn.node).__name__, kids)

    def kid_of(self, tn, node):
        for k in tn.kids:
            if k.node is node:
                return k
        raise Unsupported(f'codegen did not visit {type(node).__name__} under {type(tn.node).__name__}')

    def find_tn(self, tn, node):
        st = [tn]
        while st:
            x = st.pop()
            if x.node is node:
                return x
            st.extend(x.kids)
        raise Unsupported(f'{type(node).__name__} not emitted')

    def abs_select(self, tn):
        n = tn.node
        lets = []
        for c in tn.kids:
            if c.tag != 'ctedef':
                continue
            if c.node.recursive:
                raise Unsupported('recursive cte')
            num = self.cte(c.node.name)
            if len(c.kids) != 1:
                raise Unsupported('cte shape')
            d = self.abs(c.kids[0]) or ('O', 'empty', [])
            self.ctedefs[num] = d
            lets.append((num, d))
        body = self.abs_select_body(tn, [k for k in tn.kids if k.tag != 'ctedef'])
        if body is None and lets:
            body = ('O', 'empty', [])
        for num, d in reversed(lets):
            body = ('L', num, d, body)
        return body

    @staticmethod
    def plain(n):
        return not (n.group_clause or n.having_clause or n.window_clause or n.values or n.sort_clause
                    or n.limit_offset or n.limit_count or n.distinct_clause or n.locking_clause)

    def abs_select_body(self, tn, kids):
        n = tn.node
        if n.op:
            if (n.op.lower() == 'union' and n.all and self.plain(n) and not n.where_clause
                    and not n.from_clause and not n.target_list):
                parts = []
                for side in (n.larg, n.rarg):
                    a = self.abs(self.kid_of(tn, side)) or ('O', 'empty', [])
                    if a[0] == 'U':
                        parts += a[1]
                    else:
                        parts.append(a)
                return ('U', parts)
            return self.gen(kids)
        if (self.plain(n) and n.where_clause is None and len(n.from_clause) == 1
                and isinstance(n.from_clause[0], (pgast.RelRangeVar, pgast.RangeSubselect))
                and all(isinstance(t, pgast.ResTarget) and not self.has_query(self.kid_of(tn, t))
                        for t in n.target_list)):
            # SELECT <scalar expressions> FROM x : reads nothing but x, keeps its rows
            return self.abs(self.kid_of(tn, n.from_clause[0]))
        if self.plain(n) and n.where_clause is not None and n.from_clause:
            g = self.try_guard(tn)
            if g is not None:
                return g
        return self.gen(kids)

    @staticmethod
    def has_query(tn):
        st = [tn]
        while st:
            x = st.pop()
            if isinstance(x.node, (pgast.Query, pgast.BaseRelation, pgast.BaseRangeVar, pgast.SubLink,
                                   pgast.CommonTableExpr)):
                return True
            st.extend(x.kids)
        return False

    def gen(self, kids):
        ks = [self.abs(k) for k in kids]
        ks = [k for k in ks if k is not None]
        if not ks:
            return None
        return ('O', 'Select', ks)

    # -------------------------------------------------------------- policy filters
    @staticmethod
    def from_items(n):
        items = []
        for f in n.from_clause:
            if isinstance(f, pgast.JoinExpr):
                items.append(f.larg)
                for j in f.joins:
                    if j.type.lower() not in ('cross', 'inner') or j.quals is not None or j.using_clause:
                        return None
                    items.append(j.rarg)
            else:
                items.append(f)
        for it in items:
            if isinstance(it, pgast.JoinExpr):
                return None
        return items

    def try_guard(self, tn):
        """SELECT .. FROM base [CROSS JOIN LATERAL <scalar subselects>] WHERE <boolean formula>
        where base is a bare union of tables at least one of which is protected"""
        n = tn.node
        items = self.from_items(n)
        if not items:
            return None
        base = items[0]
        if not isinstance(base, (pgast.RelRangeVar, pgast.RangeSubselect)):
            return None
        save = (self.nscan, self.nref)
        base_abs = self.abs(self.find_tn(tn, base))
        if base_abs is None:
            return None
        shape = self.rawshape(base_abs)
        if not shape or not any(t in self.protected for t in shape):
            self.nscan, self.nref = save
            return None
        for it in items[1:]:
            if isinstance(it, pgast.RangeSubselect):
                pass
            elif isinstance(it, pgast.RelRangeVar) and isinstance(it.relation, pgast.NullRelation):
                pass
            else:
                self.nscan, self.nref = save
                return None
        scope = {it.alias.aliasname: it for it in items[1:]}
        basealias = base.alias.aliasname
        # the output of a policy filter may only be built from the filtered base: a target that
        # reads a column of one of the condition's subselects could carry unfiltered data out
        for t in n.target_list:
            st = [self.kid_of(tn, t)]
            while st:
                x = st.pop()
                if (isinstance(x.node, pgast.ColumnRef) and len(x.node.name) >= 2
                        and x.node.name[0] in scope):
                    self.nscan, self.nref = save
                    self.notes.append('filter-shaped SELECT outputs a column of its condition part: not a policy filter')
                    return None
                st.extend(x.kids)
        cond = self.cond(n.where_clause, [scope], basealias)
        aux = [self.abs(self.find_tn(tn, it)) for it in items[1:]]
        aux.append(self.abs(self.kid_of(tn, n.where_clause)))
        aux = [a for a in aux if a is not None]
        self.nguard += 1
        g = ('G', base_abs, cond, aux)
        tg = [self.abs(self.kid_of(tn, t)) for t in n.target_list]
        tg = [t for t in tg if t is not None]
        if tg:
            return ('O', 'SelectG', [g] + tg)
        return g

    @staticmethod
    def lookup(name, scopes):
        for sc in reversed(scopes):
            if name in sc:
                return sc[name]
        return None

    def resolve_col(self, ref, scopes, basealias):
        """-> ('expr', node, scopes') | ('base', col) | None"""
        nm = ref.name
        if len(nm) != 2 or not all(isinstance(x, str) for x in nm):
            return None
        al, col = nm
        item = self.lookup(al, scopes)
        if item is None:
            if al == basealias:
                return ('base', col)
            return None
        if isinstance(item, pgast.RangeSubselect):
            q = item.subquery
            if not isinstance(q, pgast.SelectStmt) or q.op or not self.plain(q) or q.ctes:
                return None
            if q.where_clause is not None:
                return None
            its = self.from_items(q) if q.from_clause else []
            if its is None:
                return None
            for i in its:
                # a plain relation in FROM makes the subselect multi-row: not a scalar expression
                if not (isinstance(i, pgast.RangeSubselect) or
                        (isinstance(i, pgast.RelRangeVar) and isinstance(i.relation, pgast.NullRelation))):
                    return None
            for t in q.target_list:
                if t.name == col:
                    sc = {i.alias.aliasname: i for i in its}
                    return ('expr', t.val, scopes + [sc])
            return None
        if isinstance(item, pgast.RelRangeVar) and isinstance(item.relation, pgast.NullRelation):
            for t in item.relation.target_list:
                if t.name == col:
                    return ('expr', t.val, scopes)
            return None
        return None

    def cond(self, e, scopes, basealias):
        if isinstance(e, pgast.BooleanConstant):
            return ('k', bool(e.val))
        if isinstance(e, pgast.TypeCast) and isinstance(e.arg, pgast.BooleanConstant):
            return ('k', bool(e.arg.val))
        if isinstance(e, pgast.Expr):
            nm = e.name.upper()
            if nm in ('AND', 'OR') and e.lexpr is not None and e.rexpr is not None:
                return ('&' if nm == 'AND' else '|',
                        self.cond(e.lexpr, scopes, basealias), self.cond(e.rexpr, scopes, basealias))
            if nm == 'NOT' and e.lexpr is None and e.rexpr is not None:
                return ('!', self.cond(e.rexpr, scopes, basealias))
        if isinstance(e, pgast.ColumnRef):
            r = self.resolve_col(e, scopes, basealias)
            if r is not None and r[0] == 'expr':
                return self.cond(r[1], r[2], basealias)
        if self.is_bogus(e, scopes, basealias):
            return ('k', False)
        ms = set()
        self.collect(e, scopes, basealias, ms, set())
        found = sorted({self.markers[m] for m in ms if m in self.markers})
        if len(found) == 1:
            return ('a', found[0])
        self.fresh += 1
        self.notes.append(f'atom with markers {sorted(ms)[:6]} -> unknown a{self.fresh}')
        return ('a', self.fresh)

    def is_null_uuid(self, e, scopes, basealias):
        if isinstance(e, pgast.ColumnRef):
            r = self.resolve_col(e, scopes, basealias)
            if r and r[0] == 'expr':
                return self.is_null_uuid(r[1], r[2], basealias)
            return False
        return isinstance(e, pgast.TypeCast) and isinstance(e.arg, pgast.NullConstant)

    def is_base_id(self, e, scopes, basealias):
        if isinstance(e, pgast.ColumnRef):
            r = self.resolve_col(e, scopes, basealias)
            if r and r[0] == 'expr':
                return self.is_base_id(r[1], r[2], basealias)
            if r and r[0] == 'base':
                return r[1] == 'id' or r[1].startswith('id_')
        return False

    def is_bogus(self, e, scopes, basealias):
        """.id ?= <uuid>{} : false for every stored row"""
        return (isinstance(e, pgast.Expr) and e.name.upper() == 'IS NOT DISTINCT FROM'
                and e.lexpr is not None and e.rexpr is not None
                and self.is_base_id(e.lexpr, scopes, basealias)
                and self.is_null_uuid(e.rexpr, scopes, basealias))

    def collect(self, e, scopes, basealias, out, seen):
        """all constants in e, following column references through the local lateral subselects"""
        if id(e) in seen:
            return
        seen.add(id(e))
        if isinstance(e, (pgast.StringConstant, pgast.NumericConstant)):
            out.add(str(e.val))
            return
        if isinstance(e, pgast.ColumnRef):
            r = self.resolve_col(e, scopes, basealias)
            if r and r[0] == 'expr':
                self.collect(r[1], r[2], basealias, out, seen)
            elif r is None and len(e.name) == 2 and isinstance(e.name[0], str):
                item = self.lookup(e.name[0], scopes)
                if item is not None:
                    self.collect(item, scopes, basealias, out, seen)
            return
        if isinstance(e, pgast.CommonTableExpr):
            return
        if isinstance(e, pgast.RelRangeVar) and isinstance(e.relation, pgast.CommonTableExpr):
            return
        if isinstance(e, pgast.SelectStmt) and not e.op:
            its = self.from_items(e) if e.from_clause else []
            sc = {i.alias.aliasname: i for i in (its or []) if getattr(i, 'alias', None) is not None}
            scopes = scopes + [sc]
        if isinstance(e, astbase.AST):
            for f, v in astbase.iter_fields(e, include_meta=False):
                if e._fields[f].hidden:
                    continue
                self.collect(v, scopes, basealias, out, seen)
        elif isinstance(e, (list, tuple)):
            for x in e:
                self.collect(x, scopes, basealias, out, seen)


def show(t, opnum=None):
    if t is None:
        return 'O0()'
    k = t[0]
    if k == 'S':
        return f'S{t[1]}'
    if k == 'R':
        return f'R{t[1]}'
    if k == 'O':
        return f'O{OPNUM.get(t[1], 99)}(' + ' '.join(show(x) for x in t[2]) + ')'
    if k == 'U':
        return 'U(' + ' '.join(show(x) for x in t[1]) + ')'
    if k == 'L':
        return f'L{t[1]}(' + show(t[2]) + ')(' + show(t[3]) + ')'
    if k == 'G':
        return 'G(' + show(t[1]) + ')(' + showc(t[2]) + ')(' + ' '.join(show(x) for x in t[3]) + ')'
    raise ValueError(k)


OPNUM = {'empty': 0, 'Select': 1, 'SelectG': 2, 'JoinExpr': 3, 'SubLink': 4, 'ResTarget': 5, 'FuncCall': 6,
         'Expr': 7, 'RangeFunction': 8, 'CoalesceExpr': 9, 'RowExpr': 10, 'CaseExpr': 11, 'TypeCast': 12,
         'NullTest': 13, 'ArrayExpr': 14, 'RangeSubselect': 15, 'RelRangeVar': 16, 'SortBy': 17,
         'ImplicitRowExpr': 18, 'CaseWhen': 19, 'Indirection': 20, 'TupleVar': 21, 'BooleanTest': 22,
         'WindowDef': 23, 'VariadicArgument': 24, 'NullRelation': 25, 'SelectStmt': 26, 'MinMaxExpr': 27}


def showc(c):
    k = c[0]
    if k == 'a':
        return f'a{c[1]}'
    if k == 'k':
        return 't' if c[1] else 'f'
    if k == '!':
        return '!(' + showc(c[1]) + ')'
    return k + '(' + showc(c[1]) + ')(' + showc(c[2]) + ')'


def tree_depth(t):
    if t is None:
        return 0
    k = t[0]
    if k in 'SR':
        return 1
    if k in 'OU':
        return 1 + max([tree_depth(x) for x in t[-1]] or [0])
    if k == 'L':
        return 1 + max(tree_depth(t[2]), tree_depth(t[3]))
    return 1 + max([tree_depth(t[1])] + [tree_depth(x) for x in t[3]])


# ============================================================================ python twin of `guarded`
# (only for explanations and for cross-checking the extracted validator)

def ceval(c, v):
    k = c[0]
    if k == 'a':
        return c[1] in v
    if k == 'k':
        return c[1]
    if k == '!':
        return not ceval(c[1], v)
    if k == '&':
        return ceval(c[1], v) and ceval(c[2], v)
    return ceval(c[1], v) or ceval(c[2], v)


def catoms(c, out):
    if c[0] == 'a':
        out.add(c[1])
    elif c[0] == '!':
        catoms(c[1], out)
    elif c[0] in '&|':
        catoms(c[1], out)
        catoms(c[2], out)
    return out


def formula(pols, v):
    return (any(ceval(c, v) for al, c in pols if al)
            and not any(ceval(c, v) for al, c in pols if not al))


def cond_ok(pols, c):
    ats = set(catoms(c, set()))
    for _, pc in pols:
        catoms(pc, ats)
    ats = sorted(ats)
    for bits in itertools.product((False, True), repeat=len(ats)):
        v = {a for a, b in zip(ats, bits) if b}
        if ceval(c, v) != formula(pols, v):
            return False
    return True


def tw_rawshape(env, t):
    k = t[0]
    if k == 'S':
        return [t[1]]
    if k == 'R':
        cl = env.get(t[1])
        return cl[1] if cl and cl[0] == 'raw' else None
    if k == 'U':
        out = []
        for x in t[1]:
            s = tw_rawshape(env, x)
            if s is None:
                return None
            out += s
        return out
    return None


def tw_guarded(spec, env, t, why, culprits):
    if t is None:
        return True
    k = t[0]
    if k == 'S':
        if t[1] in spec:
            why.append(f'range variable over protected table {t[1]} outside any policy filter')
            culprits.add(t[1])
            return False
        return True
    if k == 'R':
        cl = env.get(t[1])
        if cl is None:
            why.append(f'reference to unbound cte {t[1]}')
            return False
        if cl[0] == 'clean':
            return True
        if cl[0] == 'raw':
            bad = [x for x in cl[1] if x in spec]
            if bad:
                why.append(f'reference to the unfiltered cte {t[1]} over protected tables {bad} outside any policy filter')
                culprits.update(bad)
                return False
            return True
        why.append(f'reference to cte {t[1]} whose definition is not guarded: ' + '; '.join(cl[1]))
        culprits.update(cl[2])
        return False
    if k in 'OU':
        return all([tw_guarded(spec, env, x, why, culprits) for x in t[-1]])
    if k == 'L':
        s = tw_rawshape(env, t[2])
        if s is not None:
            cl = ('raw', s)
        else:
            w, cu = [], set()
            cl = ('clean',) if tw_guarded(spec, env, t[2], w, cu) else ('dirty', w, cu)
        env2 = dict(env)
        env2[t[1]] = cl
        return tw_guarded(spec, env2, t[3], why, culprits)
    if k == 'G':
        s = tw_rawshape(env, t[1])
        if s is None:
            why.append('policy filter over a base that is not a bare union of tables')
            return False
        ok = True
        for x in s:
            if x not in spec:
                why.append(f'policy filter base contains the unprotected table {x}')
                ok = False
            elif not cond_ok(spec[x], t[2]):
                why.append(f'WHERE formula {showc(t[2])} is not the policy formula of table {x}')
                culprits.add(x)
                ok = False
        return ok
    raise ValueError(k)


# ============================================================================ region monitor

def consts_under(tn, out):
    n = tn.node
    if isinstance(n, (pgast.StringConstant, pgast.NumericConstant)):
        out.add(str(n.val))
    for k in tn.kids:
        consts_under(k, out)
    return out


def cond_markers(pols, inv):
    ats = set()
    for _, c in pols:
        catoms(c, ats)
    return {inv[a] for a in ats if a in inv}


def region_monitor(root, tabmap, spec, markers):
    """-> list of failure strings"""
    inv = {a: m for m, a in markers.items()}
    fails = []
    refs = {}        # cte name -> [TN of RelRangeVar]
    defs = {}        # cte name -> TN of ctedef
    scans = []
    st = [root]
    while st:
        x = st.pop()
        n = x.node
        if x.tag == 'ctedef':
            defs[n.name] = x
        elif isinstance(n, pgast.RelRangeVar) and isinstance(n.relation, pgast.CommonTableExpr):
            refs.setdefault(n.relation.name, []).append(x)
        elif isinstance(n, pgast.Relation) and n.name in tabmap and tabmap[n.name] in spec:
            scans.append(x)
        st.extend(x.kids)

    def has_where(tn):
        if isinstance(tn.node, pgast.SelectStmt) and tn.node.where_clause is not None:
            return True
        return any(has_where(k) for k in tn.kids)

    def base_tables(tn, seen):
        """tables scanned under tn, looking through references to WHERE-less ctes"""
        out = set()
        st = [tn]
        while st:
            x = st.pop()
            n = x.node
            if isinstance(n, pgast.Relation) and n.name in tabmap:
                out.add(tabmap[n.name])
            elif isinstance(n, pgast.RelRangeVar) and isinstance(n.relation, pgast.CommonTableExpr):
                nm = n.relation.name
                if nm in defs and nm not in seen and not has_where(defs[nm]):
                    out |= base_tables(defs[nm], seen | {nm})
            st.extend(x.kids)
        return out

    def ok_from(tn, t, seen):
        need = cond_markers(spec[t], inv)
        path = [tn]
        while path[-1].parent is not None:
            path.append(path[-1].parent)
        for i in range(1, len(path)):
            p, cur = path[i], path[i - 1]
            pn = p.node
            if (isinstance(pn, pgast.SelectStmt) and not pn.op and pn.where_clause is not None
                    and any(cur.node is f for f in pn.from_clause)):
                have = consts_under(p, set())
                if isinstance(cur.node, pgast.JoinExpr):
                    in_base = i >= 2 and path[i - 2].node is cur.node.larg
                    base_tn = next((k for k in cur.kids if k.node is cur.node.larg), None)
                else:
                    in_base = cur.node is pn.from_clause[0]
                    base_tn = next((k for k in p.kids if k.node is pn.from_clause[0]), None)
                if in_base:
                    if need <= have:
                        return True
                elif base_tn is not None:
                    # inside the condition part of a policy filter of some protected table:
                    # policy bodies see everything
                    for x in base_tables(base_tn, frozenset()):
                        if x in spec and cond_markers(spec[x], inv) <= have:
                            return True
            if p.tag == 'ctedef':
                # not (yet) under a policy filter: every reference to this cte must be
                name = pn.name
                if name in seen:
                    return True
                return all(ok_from(r, t, seen | {name}) for r in refs.get(name, []))
        return False

    for s in scans:
        t = tabmap[s.node.name]
        if not ok_from(s, t, frozenset()):
            fails.append(f'region: table {t}')
    return sorted(set(fails))


# ============================================================================ the real compiler

SPEC = None
BASE = None
SCHEMAS = {}
TABMAPS = {}


def _cached(tag, text, build):
    """schema pickles under /verif/cache/c07, keyed by the substrate's std-schema key (hash of the
    repo sources the schema machinery is made of) and the SDL/DDL text"""
    import hashlib
    import pickle
    cdir = os.path.join(os.path.dirname(os.path.dirname(HERE)), 'cache', 'c07')
    os.makedirs(cdir, exist_ok=True)
    key = vrt.std_schema_key()[:16] + '-' + hashlib.sha256(text.encode()).hexdigest()[:24]
    path = os.path.join(cdir, f'{tag}-{key}.pickle')
    if os.environ.get('C07_NO_SCHEMA_CACHE') != '1' and os.path.exists(path):
        try:
            with open(path, 'rb') as f:
                return pickle.load(f)
        except Exception:  # noqa: BLE001
            pass
    obj = build()
    try:
        tmp = path + f'.tmp{os.getpid()}'
        with open(tmp, 'wb') as f:
            pickle.dump(obj, f, protocol=pickle.HIGHEST_PROTOCOL)
        os.replace(tmp, path)
        olds = sorted((os.path.join(cdir, x) for x in os.listdir(cdir) if x.endswith('.pickle')),
                      key=os.path.getmtime)
        for p in olds[:-300]:
            os.remove(p)
    except OSError:
        pass
    return obj


def load_spec(path):
    global SPEC, BASE
    SPEC = json.load(open(path))
    BASE = _cached('skel', SPEC['skeleton'], lambda: vrt.load_sdl(vrt.std_schema(), SPEC['skeleton']))


def schema_for(pid):
    if pid not in SCHEMAS:
        if len(SCHEMAS) > 3:
            SCHEMAS.pop(next(iter(SCHEMAS)))
        ddl = SPEC['placements'][pid]['ddl']
        if ddl.strip():
            sch = _cached('pl', SPEC['skeleton'] + '\0' + ddl, lambda: vrt.run_ddl(BASE, ddl))
        else:
            sch = BASE
        tabmap = {}
        for i, t in enumerate(SPEC['types']):
            tabmap[str(sch.get('default::' + t).id)] = i
        SCHEMAS[pid] = (sch, tabmap)
    return SCHEMAS[pid]


def to_t(c):
    return tuple(to_t(x) if isinstance(x, list) else x for x in c)


def spec_of(pid, opts):
    if 'N' in opts:
        return {}
    return {t: [(bool(al), to_t(c)) for al, c in pols] for t, pols in SPEC['placements'][pid]['spec']}


def compile_query(sch, q, opts):
    o = dict(modaliases={None: 'default'}, apply_query_rewrites=True)
    if 'N' in opts:
        o['apply_user_access_policies'] = False
    if 'L' in opts:
        o['implicit_limit'] = 7
    if 'I' in opts:
        o.update(implicit_tid_in_shapes=True, implicit_tname_in_shapes=True, implicit_id_in_shapes=True)
    if 'E' in opts:
        o['is_explain'] = True
    ir = qlcompiler.compile_ast_to_ir(qlparser.parse_query(q), sch, options=qlcompiler.CompilerOptions(**o))
    res = pgcompiler.compile_ir_to_sql_tree(
        ir,
        output_format=(pgcompiler.OutputFormat.JSON if 'J' in opts else pgcompiler.OutputFormat.NATIVE),
        is_explain='E' in opts,
    )
    return ir, res


def compound_tables(ir, tabmap):
    """tables of the concrete types that compound (union / intersection) type references of the
    IR expand to -- the SQL side ranges over exactly these (relctx.range_for_typeref, union branch)"""
    from edb.common.ast import visitor
    from edb.ir import typeutils as irtyputils
    out = set()
    roots = [ir.expr] + [v for v in (getattr(ir, 'type_rewrites', None) or {}).values()
                         if isinstance(v, irast.Set)]
    seen = set()

    def add(tr):
        if tr is None or id(tr) in seen:
            return
        seen.add(id(tr))
        if tr.union:
            for c in tr.union:
                c = c.material_type or c
                ids = [c.id]
                if not tr.union_is_exhaustive:
                    ids += [d.id for d in irtyputils.get_typeref_descendants(c)]
                for i in ids:
                    if str(i) in tabmap:
                        out.add(tabmap[str(i)])
    for r in roots:
        for n in visitor.find_children(r, irast.Set, lambda x: True):
            add(n.typeref)
            e = n.expr
            if isinstance(e, irast.Pointer):
                add(getattr(e.ptrref, 'out_target', None))
        if isinstance(r, irast.Set):
            add(r.typeref)
    return sorted(out)


def do_query(pid, opts, q, want_sql=False):
    sch, tabmap = schema_for(pid)
    spec = spec_of(pid, opts)
    markers = SPEC['placements'][pid]['markers']
    try:
        ir, res = compile_query(sch, q, opts)
    except errors.EdgeDBError as e:
        return {'st': 'err', 'kind': type(e).__name__, 'msg': str(e)[:160]}
    except RecursionError:
        return {'st': 'crash', 'kind': 'RecursionError', 'msg': ''}
    except Exception as e:  # noqa: BLE001
        return {'st': 'crash', 'kind': type(e).__name__, 'msg': str(e)[:200]}
    if isinstance(ir, irast.Statement) and ir.dml_exprs:
        return {'st': 'err', 'kind': 'NotReadOnly', 'msg': 'query contains DML'}
    A = Abs(tabmap, markers, set(spec))
    try:
        root = trace(res.ast)
        t = A.abs(root)
    except Unsupported as e:
        return {'st': 'unsup', 'msg': str(e)}
    why, culprits = [], set()
    tw = tw_guarded(spec, {}, t, why, culprits)
    mon = region_monitor(root, tabmap, spec, markers)
    out = {
        'st': 'ok', 'tree': show(t), 'twin': 1 if tw else 0, 'why': why[:6], 'culprits': sorted(culprits),
        'mon': mon, 'notes': A.notes[:4], 'compound': compound_tables(ir, tabmap),
        'stats': {'scans': A.nscan, 'refs': A.nref, 'guards': A.nguard, 'depth': tree_depth(t),
                  'ctes': len(A.ctenames),
                  'rewrites': len(getattr(ir, 'type_rewrites', {}) or {})},
    }
    if want_sql:
        out['sql'] = pgcodegen.generate_source(res.ast, pretty=True)
    return out


# ============================================================================ registration (R cases)

def summarize_rw(v):
    if v is None:
        return 'N'
    if v is True:
        return 'T'

    def leaves(s):
        e = s.expr
        if isinstance(e, irast.OperatorCall) and str(e.func_shortname) == 'std::UNION':
            return [x for a in e.args.values() for x in leaves(a.expr)]
        if (isinstance(e, irast.SelectStmt) and e.where is None
                and not isinstance(e.result.expr, irast.TypeRoot)):
            return leaves(e.result)
        return [s]
    ls = leaves(v)
    if len(ls) > 1:
        return f'U{len(ls)}'
    e = ls[0].expr
    if isinstance(e, irast.TypeRoot):
        return 'B'
    if isinstance(e, irast.SelectStmt):
        if e.where is not None:
            return 'F'
        if isinstance(e.result.expr, irast.TypeRoot):
            return 'U1'
    return '?' + type(e).__name__


class Ids:
    def __init__(self):
        self.m = {}

    def num(self, name):
        name = str(name)
        if name not in self.m:
            if name.startswith('default::') and name[9:] in SPEC['types']:
                self.m[name] = SPEC['types'].index(name[9:]) + 1
            else:
                self.m[name] = 100 + sum(1 for v in self.m.values() if v >= 100)
        return self.m[name]


def build_tnode(sch, st, ids, polnames, budget):
    budget[0] -= 1
    if budget[0] < 0:
        raise Unsupported('hierarchy too large')
    name = st.get_name(sch)
    user = s_name.UnqualName(name.module) not in s_schema.STD_MODULES
    pols = []
    for p in st.get_access_policies(sch).objects(sch):
        sn = str(p.get_shortname(sch))
        if sn not in polnames:
            polnames[sn] = len(polnames) + 1
        sel = qltypes.AccessKind.Select in p.get_access_kinds(sch)
        bases = [ids.num(b.get_subject(sch).get_name(sch)) for b in p.get_bases(sch).objects(sch)]
        pols.append(f'{polnames[sn]}.{1 if sel else 0}.' + ','.join(map(str, bases)))
    kids = [build_tnode(sch, c, ids, polnames, budget) for c in st.children(sch)]
    return (f'({ids.num(name)} {1 if user else 0}{1 if st.get_abstract(sch) else 0}'
            f'{1 if st.is_material_object_type(sch) else 0} [{";".join(pols)}]'
            + ''.join(' ' + k for k in kids) + ')')


def do_reg(pid, flags, sup, skip, ign, tname):
    sch, _ = schema_for(pid)
    aqr, auap = flags[0] == '1', flags[1] == '1'
    qual = lambda n: n if '::' in n else 'default::' + n   # noqa: E731
    opts = coptions.CompilerOptions(modaliases={None: 'default'}, apply_query_rewrites=aqr,
                                    apply_user_access_policies=auap)
    ctx = stmtctx.init_context(schema=sch, options=opts)
    ids = Ids()
    supn = [] if sup == '-' else sup.split(',')
    if supn:
        ctx.suppress_rewrites = frozenset(ctx.env.schema.get(qual(n)) for n in supn)
    st = ctx.env.schema.get(qual(tname))
    try:
        tnode = build_tnode(ctx.env.schema, st, ids, {}, [4000])
        s = setgen.class_set(st, skip_subtypes=skip == '1', ignore_rewrites=ign == '1', ctx=ctx)
    except Unsupported as e:
        return {'st': 'unsup', 'msg': str(e)}
    except errors.EdgeDBError as e:
        return {'st': 'err', 'kind': type(e).__name__, 'msg': str(e)[:160]}
    ents = []
    for (t, sk), v in ctx.env.type_rewrites.items():
        nm = str(t.get_name(ctx.env.schema))
        if '@' in nm:
            # the view type of a cached computed global (expr.compile_GlobalExpr stores the
            # global's query under its own key): not a new_set/try_type_rewrite registration
            continue
        ents.append((ids.num(nm), 1 if sk else 0, summarize_rw(v)))
    ents.sort()
    res = f'ign={1 if s.ignore_rewrites else 0}' + ''.join(f' {i}/{k}={v}' for i, k, v in ents)
    supids = ','.join(str(ids.num(qual(n))) for n in supn) or '-'
    return {'st': 'ok', 'model_case': f'R {flags} {supids} {skip} {ign} {tnode}', 'res': res}


def main():
    load_spec(sys.argv[2])
    if len(sys.argv) > 3 and sys.argv[3] == '--warm':
        # std schema + skeleton pickles are built once here instead of once per worker
        print('warm')
        return
    if len(sys.argv) > 3 and sys.argv[3] == '--sql':
        r = do_query(sys.argv[4], sys.argv[5].replace('-', ''), sys.argv[6], want_sql=True)
        print(r.pop('sql', ''))
        print(json.dumps(r, indent=1))
        return
    for line in sys.stdin:
        line = line.rstrip('\n')
        if not line:
            print(json.dumps({'st': 'empty'}))
            continue
        f = line.split('\t')
        try:
            if f[0] == 'Q':
                r = do_query(f[1], f[2].replace('-', ''), f[3])
            elif f[0] == 'R':
                r = do_reg(f[1], f[2], f[3], f[4], f[5], f[6])
            else:
                r = {'st': 'badcase'}
        except Exception as e:  # noqa: BLE001
            import traceback
            r = {'st': 'crash', 'kind': 'harness:' + type(e).__name__, 'msg': traceback.format_exc()[-400:]}
        print(json.dumps(r, separators=(',', ':')))
        sys.stdout.flush()


if __name__ == '__main__':
    main()
