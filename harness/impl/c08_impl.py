"""C08 implementation side: drives the REAL server compiler of the repository given in argv[1].

One JSON case per input line:
    {"nb": 0|1, "pre": ["create function ...", ...], "fns": {"<id>": "<function name>", ...},
     "reqs": ["<EdgeQL script>", ...]}
or a special line  @enums  |  @classes <json>.

REAL code that runs (nothing of it is re-implemented here):
    edb.server.compiler.compiler.compile(ctx, source)   -> _try_compile -> _try_compile_ast ->
        _compile_dispatch_ql -> { _compile_ql_query (qlcompiler.compile_ast_to_ir, pg_compiler.compile_ir_to_sql_tree,
        pg_codegen), ddl.compile_and_apply_ddl_stmt, ddl.compile_dispatch_ql_migration, _compile_ql_transaction,
        _compile_ql_sess_state, _compile_ql_config_op, _compile_ql_explain, _compile_ql_administer }
        -> _make_query_unit -> dbstate.QueryUnitGroup.append
    on a CompileContext made by compiler.new_compiler_context over the CompilerState of
    edb.testbase.lang.new_compiler() (std + reflection schema), user schema built by the real
    START MIGRATION / POPULATE / COMMIT path from an empty schema.
Observed (pass-through wrappers, no behaviour change): len(ir.dml_exprs) of every compile_ast_to_ir call made
by _compile_ql_query, and the pgast tree returned by compile_ir_to_sql_tree.

Output per case (same shape as ocaml/c08_main.ml) followed by monitor failures:
    V<id>=<vol>,..;<req>;...;W<id>=<vol>,..[ !<monitor failure>]...
    req = K<caps>.<ndml>,...|<group caps>   |   R<reason bit>   |   E<type>:<message>   (unclassified error)
    P<reason>  when the prelude is rejected.

Monitors (independent of the Coq model; evaluated on what the real compiler produced):
    sql      the SQL text / pgast tree of an executed query unit contains INSERT/UPDATE/DELETE on a table of
             schema edgedbpub  =>  MODIFICATIONS in the unit's capabilities
    qlast    the statement's parsed AST contains an Insert/Update/DeleteQuery node, or a call of a user function
             whose body (transitively) does, and the unit is executed (non-empty SQL) => MODIFICATIONS
    fnvol    a user function whose body (transitively) contains DML is stored with volatility Modifying
    fnsql    the SQL emitted for CREATE / ALTER FUNCTION writes an edgedbpub table => the function is stored
             Modifying (a function compiled to a writing SQL function must not be callable without MODIFICATIONS)
    kind     DDL / migration commands => DDL; transaction control => TRANSACTION; SET ALIAS/MODULE and
             CONFIGURE SESSION / SET GLOBAL => SESSION_CONFIG; CONFIGURE DATABASE/INSTANCE => PERSISTENT_CONFIG
    group    QueryUnitGroup.capabilities == OR of the units' capabilities
    migdml   (finding) CREATE/COMMIT MIGRATION executing recorded DML queries => MODIFICATIONS
"""
import sys
import os
import re
import json
import time
import pickle
import hashlib
import fcntl
import dataclasses

REPO = sys.argv[1]
os.environ['VRT_REPO'] = REPO
sys.path.insert(0, os.path.join(os.path.dirname(os.path.abspath(__file__)), '..', 'rt'))
import vrt  # noqa: E402
vrt.install()
import edb  # noqa: E402
assert edb.__path__[0].startswith(REPO), edb.__path__

from edb import edgeql, errors  # noqa: E402
from edb.common import ast as cast  # noqa: E402
from edb.edgeql import ast as qlast  # noqa: E402
from edb.edgeql import qltypes  # noqa: E402
from edb.edgeql import parser as qlparser  # noqa: E402
from edb.pgsql import ast as pgast  # noqa: E402
from edb.schema import schema as s_schema  # noqa: E402
from edb.schema import functions as s_func  # noqa: E402
from edb.server.compiler import compiler as C, enums, dbstate  # noqa: E402

CACHE = os.path.join(os.path.dirname(os.path.abspath(__file__)), '..', '..', 'cache', 'c08')
os.makedirs(CACHE, exist_ok=True)

NT = 16          # statement-level types T0..T15
NF = 8           # functions f0..f7 may own types
NFT = 4          # F<j>_0..3


def base_sdl():
    L = ['abstract type Base { k: int64; multi ns: int64; multi kids: Base; }',
         'type Aux extending Base;',
         'global g -> int64;']
    for i in range(NT):
        L.append(f'type T{i} extending Base {{ overloaded k: int64 {{ constraint exclusive }}; }}')
    for j in range(NF):
        for i in range(NFT):
            L.append(f'type F{j}_{i} extending Base {{ overloaded k: int64 {{ constraint exclusive }}; }}')
    return '\n'.join(L)


_compiler = None


def compiler():
    global _compiler
    if _compiler is None:
        key = vrt.std_schema_key()
        warm = all(os.path.exists(os.path.join(str(vrt.CACHE_DIR), f'{n}-{key}.pickle'))
                   for n in ('stdschema', 'reflschema'))
        if warm:
            _compiler = vrt.new_compiler()
        else:
            # the std / reflection schema of this tree is not cached yet: build it once, not once per worker
            with open(os.path.join(CACHE, 'std.lock'), 'w') as lk:
                fcntl.flock(lk, fcntl.LOCK_EX)
                _compiler = vrt.new_compiler()
    return _compiler


def newctx(user_schema, refl=None, nb=False):
    ctx = C.new_compiler_context(compiler_state=compiler().state, user_schema=user_schema,
                                 modaliases={None: 'default'})
    if nb:
        ctx = dataclasses.replace(ctx, notebook=True)
    if refl is not None:
        ctx.state.current_tx().update_cached_reflection(refl)
    return ctx


def base_schema():
    """(user schema, cached reflection) of the base SDL, built once through the real migration path."""
    sdl = base_sdl()
    key = hashlib.sha256((vrt.std_schema_key() + '\0' + sdl).encode()).hexdigest()[:24]
    path = os.path.join(CACHE, f'base-{key}.pickle')
    if os.path.exists(path):
        try:
            return pickle.load(open(path, 'rb'))
        except Exception:
            pass
    with open(os.path.join(CACHE, 'base.lock'), 'w') as lk:
        fcntl.flock(lk, fcntl.LOCK_EX)
        if os.path.exists(path):
            try:
                return pickle.load(open(path, 'rb'))
            except Exception:
                pass
        ctx = newctx(s_schema.EMPTY_SCHEMA)
        for q in ('start migration to { module default { %s } }' % sdl, 'populate migration', 'commit migration'):
            C.compile(ctx=ctx, source=edgeql.Source.from_string(q))
        tx = ctx.state.current_tx()
        out = (tx.get_user_schema(), tx.get_cached_reflection())
        tmp = path + f'.tmp{os.getpid()}'
        with open(tmp, 'wb') as f:
            pickle.dump(out, f, protocol=pickle.HIGHEST_PROTOCOL)
        os.replace(tmp, path)
        return out


# ------------------------------------------------------------------ observation wrappers
OBS = {'depth': 0, 'cur': None}

_orig_compile_ql_query = C._compile_ql_query
_orig_ast_to_ir = C.qlcompiler.compile_ast_to_ir
_orig_ir_to_sql = C.pg_compiler.compile_ir_to_sql_tree
_orig_dispatch = C._compile_dispatch_ql


def _w_compile_ql_query(*a, **kw):
    OBS['depth'] += 1
    try:
        return _orig_compile_ql_query(*a, **kw)
    finally:
        OBS['depth'] -= 1


def _w_ast_to_ir(*a, **kw):
    ir = _orig_ast_to_ir(*a, **kw)
    if OBS['depth'] > 0 and OBS['cur'] is not None:
        OBS['cur']['ndml'] = len(ir.dml_exprs)
    return ir


def _w_ir_to_sql(*a, **kw):
    res = _orig_ir_to_sql(*a, **kw)
    if OBS['depth'] > 0 and OBS['cur'] is not None:
        OBS['cur']['trees'].append(res.ast)
    return res


def _w_dispatch(ctx, ql, *a, **kw):
    if OBS.get('in_dispatch'):
        # nested use by the compiler itself (e.g. the statements of a migration body): not a unit
        return _orig_dispatch(ctx, ql, *a, **kw)
    rec = {'ndml': 0, 'trees': [], 'cls': type(ql).__name__,
           'track': isinstance(ql, (qlast.Query, qlast.ExplainStmt, qlast.DescribeStmt))}
    OBS['cur'] = rec
    OBS['in_dispatch'] = True
    OBS.setdefault('stmts', []).append(rec)
    try:
        comp, caps = _orig_dispatch(ctx, ql, *a, **kw)
        rec['comp'] = type(comp).__name__
        return comp, caps
    finally:
        OBS['cur'] = None
        OBS['in_dispatch'] = False


C._compile_ql_query = _w_compile_ql_query
C.qlcompiler.compile_ast_to_ir = _w_ast_to_ir
C.pg_compiler.compile_ir_to_sql_tree = _w_ir_to_sql
C._compile_dispatch_ql = _w_dispatch


# ------------------------------------------------------------------ ground truth helpers
DML_TEXT = re.compile(r'\b(INSERT\s+INTO|UPDATE(?:\s+ONLY)?|DELETE\s+FROM(?:\s+ONLY)?)\s+"?edgedbpub"?\.', re.I)


def sql_text_of(unit):
    s = unit.sql
    if s is None:
        return ''
    if isinstance(s, (tuple, list)):
        s = b';'.join(s)
    return s.decode('utf-8', 'replace')


def tree_writes(tree):
    """independent walk of a pgast tree: any Insert/Update/DeleteStmt whose target relation lives in edgedbpub"""
    seen = set()
    stack = [tree]
    found = False
    while stack:
        n = stack.pop()
        if isinstance(n, (list, tuple, set, frozenset)):
            stack.extend(n)
            continue
        if isinstance(n, dict):
            stack.extend(n.values())
            continue
        if not isinstance(n, cast.AST):
            continue
        if id(n) in seen:
            continue
        seen.add(id(n))
        if isinstance(n, (pgast.InsertStmt, pgast.UpdateStmt, pgast.DeleteStmt)):
            rel = getattr(n.relation, 'relation', None)
            if isinstance(rel, pgast.Relation) and rel.schemaname == 'edgedbpub':
                found = True
        for fname, _ in cast.iter_fields(n, include_meta=False, exclude_unset=True):
            try:
                stack.append(getattr(n, fname))
            except AttributeError:
                pass
    return found


DML_QL = (qlast.InsertQuery, qlast.UpdateQuery, qlast.DeleteQuery)


def ql_nodes(root):
    seen = set()
    stack = [root]
    while stack:
        n = stack.pop()
        if isinstance(n, (list, tuple)):
            stack.extend(n)
            continue
        if isinstance(n, dict):
            stack.extend(n.values())
            continue
        if not isinstance(n, cast.AST) or id(n) in seen:
            continue
        seen.add(id(n))
        yield n
        for fname, _ in cast.iter_fields(n, include_meta=False, exclude_unset=True):
            try:
                stack.append(getattr(n, fname))
            except AttributeError:
                pass


def user_functions(schema):
    out = {}
    for f in schema.get_objects(type=s_func.Function):
        nm = f.get_shortname(schema)
        if nm.module == 'default':
            out.setdefault(nm.name, []).append(f)
    return out


def ql_writes(root, user_schema, memo, stack=()):
    """syntactic ground truth: DML node anywhere, or a call of a user function whose body has one"""
    fns = None
    for n in ql_nodes(root):
        if isinstance(n, DML_QL):
            return True
        if isinstance(n, qlast.FunctionCall):
            fn = n.func if isinstance(n.func, str) else (n.func[1] if n.func[0] in ('default',) else None)
            if fn is None:
                continue
            if fns is None:
                fns = user_functions(user_schema)
            for f in fns.get(fn, ()):
                key = (fn, f.id)
                if key in stack:
                    continue
                if key not in memo:
                    code = f.get_nativecode(user_schema)
                    body = None
                    if code is not None:
                        try:
                            body = qlparser.parse_fragment(code.text)
                        except Exception:
                            body = None
                    memo[key] = bool(body is not None and ql_writes(body, user_schema, memo, stack + (key,)))
                if memo[key]:
                    return True
    return False


VOLS = {'Immutable': 0, 'Stable': 1, 'Volatile': 2, 'Modifying': 3}


def stored_vols(user_schema, fns):
    out = {}
    uf = user_functions(user_schema)
    for fid, name in fns.items():
        for f in uf.get(name, ()):
            out[int(fid)] = VOLS[str(f.get_volatility(user_schema))]
    return out


_fnvol_seen = {}


def fnvol_monitor(user_schema, bad, where):
    key = id(user_schema)
    if key in _fnvol_seen and _fnvol_seen[key][0] is user_schema:
        bad.extend(f'{where}:{x}' for x in _fnvol_seen[key][1])
        return
    found = []
    _fnvol_monitor(user_schema, found)
    if len(_fnvol_seen) > 256:
        _fnvol_seen.clear()
    _fnvol_seen[key] = (user_schema, found)
    bad.extend(f'{where}:{x}' for x in found)


def _fnvol_monitor(user_schema, found):
    memo = {}
    for name, fl in user_functions(user_schema).items():
        for f in fl:
            code = f.get_nativecode(user_schema)
            if code is None:
                continue
            try:
                body = qlparser.parse_fragment(code.text)
            except Exception:
                continue
            if ql_writes(body, user_schema, memo) and str(f.get_volatility(user_schema)) != 'Modifying':
                found.append(f'fnvol:{name}-writes-but-stored-{f.get_volatility(user_schema)}')


REASONS = [
    (1, re.compile(r'cannot be used in a FILTER clause')),
    (2, re.compile(r'cannot be used in an ORDER BY clause')),
    (4, re.compile(r"mutations are invalid in a shape's computed expression")),
    (16, re.compile(r'volatility mismatch')),
    (32, re.compile(r'mutations are invalid in |volatile default expression|index expressions must be immutable|'
                    r'volatile functions are not permitted in schema-defined computed expressions|'
                    r'has a volatile using expression|cannot use SET OF function .* in an index expression')),
    (256, re.compile(r'cannot be executed in an implicit transaction block|'
                     r'CONFIGURE INSTANCE cannot be executed in a transaction block')),
    (64, re.compile(r'already in transaction|not in transaction|savepoints can only be used|there is no .* savepoint|'
                    r'in a migration block|outside of a migration block|cannot commit incomplete migration|'
                    r'Cannot leave an incomplete migration|cannot ANALYZE inside of a migration')),
    (128, re.compile(r'already exists|already defined|because other objects in the schema depend on it')),
    (8, re.compile(r"function .* does not exist")),
]


def classify(e):
    msg = str(e)
    for bit, rx in REASONS:
        if rx.search(msg):
            return f'R{bit}'
    return 'E' + type(e).__name__ + ':' + msg.replace('\n', ' ')[:160].replace(';', ',')


CAP = enums.Capability


def kind_required(ql, nb):
    """capabilities the property text requires for this statement kind (own table, not the dispatch chain)"""
    if isinstance(ql, qlast.DescribeCurrentMigration):
        return 0
    if isinstance(ql, qlast.DDLCommand):            # includes every MigrationCommand
        return int(CAP.DDL)
    if isinstance(ql, qlast.Transaction):
        return int(CAP.TRANSACTION)
    if isinstance(ql, (qlast.SessionSetAliasDecl, qlast.SessionResetAliasDecl, qlast.SessionResetModule,
                       qlast.SessionResetAllAliases)):
        return int(CAP.SESSION_CONFIG)
    if isinstance(ql, qlast.ConfigOp):
        if ql.scope is qltypes.ConfigScope.SESSION:
            return int(CAP.SESSION_CONFIG)
        if ql.scope is qltypes.ConfigScope.GLOBAL:
            # documented carve-out of the source (notebook protocol may SET GLOBAL): not required there
            return 0 if nb else int(CAP.SESSION_CONFIG)
        return int(CAP.PERSISTENT_CONFIG)
    return 0


def mig_body_writes(ql, ctx_before_mig_cmds, user_schema, memo):
    if isinstance(ql, qlast.CreateMigration):
        cmds = ql.body.commands if ql.body is not None else []
        return any(isinstance(c, (qlast.Query,)) and ql_writes(c, user_schema, memo) for c in cmds)
    if isinstance(ql, qlast.CommitMigration):
        return any(isinstance(c, (qlast.Query,)) and ql_writes(c, user_schema, memo) for c in ctx_before_mig_cmds)
    return False


# ------------------------------------------------------------------ one case
_prelude_cache = {}


def prelude_state(pre):
    key = tuple(pre)
    if key in _prelude_cache:
        return _prelude_cache[key]
    us, refl = base_schema()
    res = None
    if pre:
        ctx = newctx(us, refl)
        try:
            for q in pre:
                C.compile(ctx=ctx, source=edgeql.Source.from_string(q))
            tx = ctx.state.current_tx()
            res = ('ok', tx.get_user_schema(), tx.get_cached_reflection())
        except Exception as e:
            res = ('bad', classify(e), None)
    else:
        res = ('ok', us, refl)
    if len(_prelude_cache) > 64:
        _prelude_cache.clear()
    _prelude_cache[key] = res
    return res


def fmt_vols(tag, d):
    return tag + ','.join(f'{k}={v}' for k, v in sorted(d.items()))


def run_case(case):
    nb = bool(case.get('nb'))
    fns = case.get('fns', {})
    st = prelude_state(case.get('pre', []))
    if st[0] == 'bad':
        r = st[1]
        return ('P' + r[1:]) if r.startswith('R') else ('P' + r)
    _, us, refl = st
    bad = []
    parts = [fmt_vols('V', stored_vols(us, fns))]
    fnvol_monitor(us, bad, 'prelude')
    ctx = newctx(us, refl, nb)
    for ri, text in enumerate(case['reqs']):
        tx = ctx.state.current_tx()
        schema_before = tx.get_user_schema()
        mstate = tx.get_migration_state()
        mig_cmds_before = list(mstate.accepted_cmds) if mstate is not None else []
        OBS['stmts'] = []
        try:
            if '%%SDL%%' in text:
                # START MIGRATION TO { <the schema in force, as SDL> + one more module }
                from edb.schema import ddl as s_ddl
                text = text.replace('%%SDL%%', s_ddl.sdl_text_from_schema(
                    tx.get_schema(compiler().state.std_schema)))
            src = edgeql.Source.from_string(text)
            grp = C.compile(ctx=ctx, source=src)
        except Exception as e:
            parts.append(classify(e))
            break
        units = list(grp)
        obs = OBS['stmts']
        try:
            stmts = edgeql.parse_block(edgeql.Source.from_string(text))
        except Exception:
            stmts = []
        if len(stmts) != len(units) or len(obs) != len(units):
            bad.append(f'req{ri}:harness:units={len(units)},stmts={len(stmts)},observed={len(obs)}')
        cells = []
        memo = {}
        gor = 0
        cur_schema = schema_before
        cur_mig = list(mig_cmds_before)
        for ui, u in enumerate(units):
            caps = int(u.capabilities)
            gor |= caps
            o = obs[ui] if ui < len(obs) else {'ndml': 0, 'trees': [], 'comp': '?'}
            # len(ir.dml_exprs) is reported for query statements only (DDL compiles internal reflection queries)
            cells.append(f'{caps}.{o["ndml"] if o.get("track") else 0}')
            ql = stmts[ui] if ui < len(stmts) else None
            sql = sql_text_of(u)
            has_mod = bool(caps & int(CAP.MODIFICATIONS))
            is_ddl = isinstance(ql, qlast.DDLCommand)
            if not is_ddl:
                if DML_TEXT.search(sql) and not has_mod:
                    bad.append(f'req{ri}.unit{ui}:sql:text-writes-edgedbpub-without-MODIFICATIONS')
                if o.get('comp') == 'Query' and any(tree_writes(t) for t in o['trees']) and not has_mod:
                    bad.append(f'req{ri}.unit{ui}:sql:tree-writes-edgedbpub-without-MODIFICATIONS')
            if ql is not None:
                if isinstance(ql, (qlast.Query, qlast.ExplainStmt)) and sql and not has_mod:
                    target = ql.query if isinstance(ql, qlast.ExplainStmt) else ql
                    if ql_writes(target, cur_schema, memo):
                        bad.append(f'req{ri}.unit{ui}:qlast:statement-contains-DML-without-MODIFICATIONS')
                need = kind_required(ql, nb)
                if need & ~caps:
                    bad.append(f'req{ri}.unit{ui}:kind:{type(ql).__name__}-lacks-{CAP(need & ~caps).name}')
                if not has_mod and mig_body_writes(ql, cur_mig, cur_schema, memo):
                    if DML_TEXT.search(sql):
                        bad.append(f'req{ri}.unit{ui}:migdml:{type(ql).__name__}-executes-recorded-DML-without-MODIFICATIONS')
                # track the migration block's recorded commands for a script's later statements
                if isinstance(ql, qlast.Query) and o.get('comp') == 'NullQuery':
                    cur_mig.append(ql)
                if isinstance(ql, (qlast.CommitMigration, qlast.AbortMigration, qlast.StartMigration)):
                    cur_mig = []
            if u.user_schema:
                try:
                    cur_schema = pickle.loads(u.user_schema)
                    memo = {}
                except Exception:
                    pass
            if isinstance(ql, (qlast.CreateFunction, qlast.AlterFunction)) and DML_TEXT.search(sql):
                fname = getattr(ql.name, 'name', None)
                for f in user_functions(cur_schema).get(fname, ()):
                    if str(f.get_volatility(cur_schema)) != 'Modifying':
                        bad.append(f'req{ri}.unit{ui}:fnsql:{fname}-compiled-to-writing-SQL-but-stored-'
                                   f'{f.get_volatility(cur_schema)}')
        if int(grp.capabilities) != gor:
            bad.append(f'req{ri}:group:{int(grp.capabilities)}-is-not-the-union-{gor}')
        parts.append('K' + ','.join(cells) + '|' + str(int(grp.capabilities)))
    final = ctx.state.current_tx().get_user_schema()
    parts.append(fmt_vols('W', stored_vols(final, fns)))
    fnvol_monitor(final, bad, 'final')
    return ';'.join(parts) + ''.join(' !' + b for b in bad)


def enums_line():
    flags = [CAP.MODIFICATIONS, CAP.SESSION_CONFIG, CAP.TRANSACTION, CAP.DDL, CAP.PERSISTENT_CONFIG]
    bad = []
    vals = [int(f) for f in flags]
    if any(v <= 0 or (v & (v - 1)) for v in vals) or len(set(vals)) != len(vals):
        bad.append('enum:flags-not-distinct-single-bits')
    if int(CAP.WRITE) != (int(CAP.MODIFICATIONS) | int(CAP.DDL) | int(CAP.PERSISTENT_CONFIG)):
        bad.append('enum:WRITE-is-not-MODIFICATIONS|DDL|PERSISTENT_CONFIG')
    if any(v & ~int(CAP.ALL) for v in vals):
        bad.append('enum:ALL-does-not-cover-a-flag')
    if int(CAP.NONE) != 0:
        bad.append('enum:NONE-not-zero')
    return ','.join(map(str, vals)) + f' {int(CAP.WRITE)} {bin(int(CAP.ALL))[2:]}' + ''.join(' !' + b for b in bad)


def classes_line(spec):
    """for each class name: index of the first branch (given as lists of tested class names) it satisfies,
    by the REAL classes' issubclass"""
    out = []
    branches = [[getattr(qlast, n) for n in names] for names in spec['branches']]
    for cn in spec['classes']:
        cls = getattr(qlast, cn, None)
        if cls is None:
            out.append('?')
            continue
        for i, tested in enumerate(branches):
            if issubclass(cls, tuple(tested)):
                out.append(str(i))
                break
        else:
            out.append(str(len(branches)))
    return ' '.join(out)


def main():
    out = []
    for line in sys.stdin:
        line = line.rstrip('\n')
        if not line:
            continue
        if line == '@enums':
            r = enums_line()
        elif line.startswith('@classes '):
            r = classes_line(json.loads(line[len('@classes '):]))
        else:
            try:
                t0 = time.time()
                r = run_case(json.loads(line))
                r += f' @{int((time.time() - t0) * 1000)}'
            except Exception as e:      # harness-level failure: never silently dropped
                import traceback
                traceback.print_exc(file=sys.stderr)
                r = 'H' + type(e).__name__ + ':' + str(e).replace('\n', ' ')[:200]
        print(r, flush=True)


if __name__ == '__main__':
    main()
