"""C02 / C10 -- drives the REAL schema-evolution code of the repo under test.

usage:  c02_impl.py <repo> <mode>       one case per stdin line -> one JSON result line

mode `e2e`   line = JSON {"id":..., "chain":[sdl0, sdl1, ...], "direct": bool, "to_empty": bool}
             every sdl_i is the text of a complete target schema (`module default { ... } ...`).
             The database starts as the std-only schema; step i migrates the current schema to
             sdl_i exactly the way START MIGRATION TO {sdl}; POPULATE MIGRATION; COMMIT MIGRATION
             does it (edb/server/compiler/ddl.py::_start/_populate/_commit_migration and
             edb/testbase/lang.py::run_ddl):
                 B     = s_ddl.apply_sdl(parse_sdl(sdl), base_schema=std, current_schema=cur)
                 diff  = s_ddl.delta_schemas(cur, B)                       <- the computed migration
                 T     = diff.apply(cur)                                   (command tree)
                 ddl   = s_ddl.ddlast_from_delta(cur, B, diff)             (POPULATE: DDL ASTs)
                 P     = replay of every DDL AST through delta_and_schema_from_ddl   (POPULATE)
                 M     = CREATE MIGRATION { ddl } applied to cur           (COMMIT)
                 X     = parse_block(M.last_migration.script) replayed on cur (DDL *text* replay)
             and the C02 monitors compare T, M, X with B:  the repo's own delta_schemas(.,B) must be
             empty AND an independent structural dump (names, fields, resolved references) must be
             equal.  For C10 (`direct`), after every step the chain schema is compared with the
             schema obtained by one migration std -> sdl_i; `to_empty` appends a final migration to
             the empty schema and requires that nothing user-defined is left.

mode `dobj`  line = numeric encoding of a delta_objects() call on stub objects with a scripted
             `compare` (see harness/props/c02_gen.py::enc_dobj); prints the partition the REAL
             edb.schema.delta.delta_objects computes, in the model's output format.

Nothing of the repo is modified; the repo path comes from argv[1] (lib.REPO / VERIF_REPO).
"""
import json
import os
import sys
import time
import traceback

REPO = sys.argv[1]
MODE = sys.argv[2] if len(sys.argv) > 2 else 'e2e'
os.environ.setdefault('VRT_REPO', REPO)
sys.path.insert(0, os.path.join(os.path.dirname(os.path.dirname(os.path.abspath(__file__))), 'rt'))
import vrt  # noqa: E402

assert str(vrt.REPO) == REPO.rstrip('/') or os.path.realpath(str(vrt.REPO)) == os.path.realpath(REPO), \
    (vrt.REPO, REPO)
vrt.install()
import edb  # noqa: E402

assert os.path.realpath(edb.__path__[0]).startswith(os.path.realpath(REPO)), edb.__path__


# =====================================================================================
#  mode dobj : the real delta_objects on stub objects
# =====================================================================================

def run_dobj(lines):
    from edb.schema import delta as sd
    from edb.schema import objects as so
    from edb.schema import name as sn

    class FakeCmd:
        def __init__(self, kind, a, b=None):
            self.kind, self.a, self.b = kind, a, b
            self.ann = {}
            self.subs = []

        def set_annotation(self, k, v):
            self.ann[k] = v

        def get_annotation(self, k):
            return self.ann.get(k)

        def get_subcommands(self, *, type=None, **kw):
            return list(self.subs)

    class Recorder:
        """stands in for DeltaRoot inside delta_objects: records add()/update() order"""
        def __init__(self):
            self.ops = []

        def add(self, c):
            self.ops.append(c)

        def update(self, cs):
            self.ops.extend(cs)

    class FakeRename:
        def __init__(self, classname, new_name):
            self.classname, self.new_name = classname, new_name

    class Stub:
        """a schema object as far as delta_objects can see: a name, compare(), as_*_delta()"""
        __slots__ = ('nm', 'sims', 'subconf', 'side')

        def __init__(self, nm, side):
            self.nm, self.side = nm, side

        def get_name(self, schema):
            return self.nm

        def compare(self, other, *, our_schema, their_schema, context):
            return self.sims[(other.nm, self.nm)]

        def as_alter_delta(self, other, *, context, self_schema, other_schema, confidence):
            c = FakeCmd('A', self.nm, other.nm)
            sc = self.subconf.get((other.nm, self.nm))
            if sc is not None:
                for v in sc:
                    s = FakeCmd('S', None)
                    if v is not None:
                        s.set_annotation('confidence', v)
                    c.subs.append(s)
            return c

        def as_create_delta(self, schema, context):
            return FakeCmd('C', self.nm)

        def as_delete_delta(self, *, schema, context):
            return FakeCmd('D', self.nm)

        def __repr__(self):
            return f'<{self.side}{self.nm}>'

    real_root = sd.DeltaRoot
    SIM = {0: 0.0, 1: 0.3, 2: 0.6, 3: 0.61, 4: 0.8, 5: 0.95, 6: 1.0}
    out = []
    for line in lines:
        try:
            f = line.split(';')
            pc = {'n': None, '1': 1.0, 'h': 0.5}[f[0]]
            old_names = [int(x) for x in f[1].split(',')] if f[1] else []
            new_names = [int(x) for x in f[2].split(',')] if f[2] else []
            sims = {}
            subconf = {}
            for ent in (f[3].split(',') if f[3] else []):
                a = ent.split(':')
                x, y, s = int(a[0]), int(a[1]), int(a[2])
                sims[(x, y)] = SIM[s]
                if len(a) > 3 and a[3] != '':
                    subconf[(x, y)] = [None if t == 'n' else SIM[int(t)] for t in a[3].split('/')]
            renames = {}
            for ent in (f[4].split(',') if f[4] else []):
                y, x = ent.split(':')
                renames[int(y)] = int(x)
            gd = f[5]
            banned_c, banned_a, banned_d = set(), set(), set()
            guidance = None
            if gd != '-':
                g = gd.split('|')
                banned_c = {int(x) for x in g[0].split(',')} if g[0] else set()
                banned_a = {tuple(int(z) for z in x.split(':')) for x in g[1].split(',')} if g[1] else set()
                banned_d = {int(x) for x in g[2].split(',')} if g[2] else set()

            def nm(i):
                return sn.QualName('m', f'n{i:03d}')
            olds = [Stub(nm(i), 'o') for i in old_names]
            news = [Stub(nm(i), 'n') for i in new_names]
            for o in olds:
                o.sims = {(nm(x), nm(y)): v for (x, y), v in sims.items()}
                o.subconf = {(nm(x), nm(y)): v for (x, y), v in subconf.items()}
            ctx = so.ComparisonContext()
            for y, x in renames.items():
                ctx.renames[(Stub, nm(y))] = FakeRename(nm(y), nm(x))
            if gd != '-':
                ctx.guidance = so.DeltaGuidance(
                    banned_creations=frozenset((Stub, nm(i)) for i in banned_c),
                    banned_deletions=frozenset((Stub, nm(i)) for i in banned_d),
                    banned_alters=frozenset((Stub, (nm(y), nm(x))) for (y, x) in banned_a),
                )
            rec = Recorder()
            sd.DeltaRoot = lambda: rec
            try:
                sd.delta_objects(olds, news, sclass=so.Object, parent_confidence=pc, context=ctx,
                                 old_schema=None, new_schema=None)
            finally:
                sd.DeltaRoot = real_root

            def num(n):
                return int(n.name[1:])

            def cf(v):
                return 'none' if v is None else str(int(round(v * 100)))
            parts = []
            for c in rec.ops:
                if c.kind == 'C':
                    parts.append(f'C{num(c.a)}@{cf(c.get_annotation("confidence"))}')
                elif c.kind == 'D':
                    parts.append(f'D{num(c.a)}@{cf(c.get_annotation("confidence"))}')
                else:
                    parts.append(f'A{num(c.a)}>{num(c.b)}@{cf(c.get_annotation("confidence"))}')
            out.append(' '.join(parts) if parts else '-')
        except Exception as e:  # noqa
            out.append('E ' + type(e).__name__ + ' ' + str(e)[:100].replace('\n', ' '))
    return out


# =====================================================================================
#  mode e2e
# =====================================================================================

_std = None


def std_schema():
    global _std
    if _std is None:
        _std = vrt.std_schema()
    return _std


SKIP_CLASSES = {'Migration', 'SchemaVersion', 'GlobalSchemaVersion'}
# fields never compared by the structural dump, with the reason
SKIP_FIELDS = {
    'id': 'random uuid',
    'backend_id': 'backend oid (never set here)',
    'span': 'source position',
    'sourcectx': 'source position',
}


def _canon(schema, v, depth=0):
    from edb.schema import objects as so
    from edb.schema import expr as s_expr
    from edb.schema import name as sn
    from edb.common import checked
    import enum
    import uuid
    if v is None or isinstance(v, (bool, int, float, str)):
        return v
    if isinstance(v, so.Object):
        try:
            return ['ref', type(v).__name__, str(v.get_name(schema))]
        except Exception as e:  # dangling reference: the id is not in the schema
            return ['DANGLING', type(v).__name__, type(e).__name__]
    if isinstance(v, s_expr.Expression):
        return ['expr', v.text]
    if isinstance(v, s_expr.ExpressionList):
        return ['exprs'] + [_canon(schema, x, depth + 1) for x in v]
    if isinstance(v, s_expr.ExpressionDict):
        return ['exprd'] + [[k, _canon(schema, x, depth + 1)] for k, x in sorted(v.items())]
    if isinstance(v, so.ObjectCollection):
        try:
            if isinstance(v, so.ObjectDict):
                return ['odict'] + [[str(k), _canon(schema, o, depth + 1)] for k, o in v.items(schema)]
            items = [_canon(schema, o, depth + 1) for o in v.objects(schema)]
        except Exception as e:
            return ['DANGLING-COLL', type(v).__name__, type(e).__name__]
        if isinstance(v, (so.ObjectList,)):
            return ['olist'] + items
        return ['oset'] + sorted(items, key=json.dumps)
    if isinstance(v, sn.Name):
        return str(v)
    if isinstance(v, enum.Enum):
        return f'{type(v).__name__}.{v.name}'
    if isinstance(v, uuid.UUID):
        return 'uuid'
    if isinstance(v, (checked.CheckedList, list, tuple)):
        return ['list'] + [_canon(schema, x, depth + 1) for x in v]
    if isinstance(v, (checked.CheckedSet, set, frozenset, checked.FrozenCheckedSet)):
        return ['set'] + sorted((_canon(schema, x, depth + 1) for x in v), key=json.dumps)
    if isinstance(v, (checked.CheckedDict, dict)):
        return ['dict'] + sorted(([str(k), _canon(schema, x, depth + 1)] for k, x in v.items()), key=json.dumps)
    return ['repr', type(v).__name__, str(v)]


_STD_KEYS = None


def std_keys():
    """keys of the objects that already exist in the std-only schema (std collection types such as
    array<std|str> are not in a std module, so exclude_stdlib does not filter them)"""
    global _STD_KEYS
    if _STD_KEYS is None:
        _STD_KEYS = frozenset(dump(std_schema(), raw=True))
    return _STD_KEYS


def dump(schema, raw=False):
    """independent structural dump: every non-std object -> {field: canonical value}, references
    resolved to names.  Keyed by 'Class name'."""
    out = {}
    skip = frozenset() if raw else std_keys()
    for obj in schema.get_objects(exclude_stdlib=True, exclude_global=False, exclude_internal=False):
        cls = type(obj).__name__
        if cls in SKIP_CLASSES:
            continue
        try:
            name = str(obj.get_name(schema))
        except Exception:
            name = '<noname>'
        if f'{cls} {name}' in skip:
            continue
        fields = {}
        for fn, fld in type(obj).get_fields().items():
            if fn in SKIP_FIELDS or getattr(fld, 'ephemeral', False):
                continue     # ephemeral = declaration-time only, never stored (e.g. declared_overloaded)
            try:
                v = obj.get_field_value(schema, fn)
            except Exception as e:  # noqa
                v = ['ERR', type(e).__name__]
            cv = _canon(schema, v)
            if cv is not None and cv != ['oset'] and cv != ['olist'] and cv != ['list'] and cv != ['set'] \
                    and cv != ['odict'] and cv is not False:
                fields[fn] = cv
        out[f'{cls} {name}'] = fields
    return out


def dump_diff(da, db, limit=12):
    """first differences between two dumps"""
    diffs = []
    for k in sorted(set(da) | set(db)):
        if k not in da:
            diffs.append(['missing-in-result', k])
        elif k not in db:
            diffs.append(['extra-in-result', k])
        elif da[k] != db[k]:
            for f in sorted(set(da[k]) | set(db[k])):
                if da[k].get(f) != db[k].get(f):
                    diffs.append(['field', k, f, da[k].get(f), db[k].get(f)])
        if len(diffs) >= limit:
            break
    return diffs


def own_diff(a, b):
    """the repo's own equivalence: delta_schemas(a, b) has no subcommands"""
    from edb.schema import ddl as s_ddl
    d = s_ddl.delta_schemas(a, b)
    subs = list(d.get_subcommands())
    if not subs:
        return None
    try:
        txt = s_ddl.ddl_text_from_delta(a, b, d)
    except Exception as e:  # noqa
        txt = f'<{len(subs)} commands; ddl_text failed: {type(e).__name__}>'
    return txt[:600]


def errinfo(e):
    from edb import errors
    tb = traceback.extract_tb(e.__traceback__)
    where = ''
    for fr in reversed(tb):
        if '/edb/' in fr.filename:
            where = f'{fr.filename.split("/edb/")[-1]}:{fr.name}'
            break
    return {'type': type(e).__name__, 'msg': str(e)[:300], 'where': where,
            'edgedb_error': isinstance(e, errors.EdgeDBError)}


def flat_cmds(cmd, schema_a, depth=0, out=None):
    """flatten a delta tree: (depth, op, metaclass, classname[, new_name])"""
    from edb.schema import delta as sd
    if out is None:
        out = []
    for c in cmd.get_subcommands():
        if isinstance(c, sd.ObjectCommand):
            op = ('create' if isinstance(c, sd.CreateObject) else
                  'delete' if isinstance(c, sd.DeleteObject) else
                  'rename' if isinstance(c, sd.RenameObject) else
                  'alter' if isinstance(c, sd.AlterObject) else type(c).__name__)
            try:
                mcls = c.get_schema_metaclass().__name__
            except Exception:
                mcls = '?'
            ent = [depth, op, mcls, str(c.classname)]
            if isinstance(c, sd.RenameObject):
                ent.append(str(c.new_name))
            out.append(ent)
            flat_cmds(c, schema_a, depth + 1, out)
        else:
            flat_cmds(c, schema_a, depth, out)
    return out


def top_objects(schema):
    """names of the objects that delta_schemas diffs at the top level (non-std, generic /
    non-derived), per class -- the universe of the partition monitor"""
    from edb.schema import objects as so
    from edb.schema import modules as s_mod
    from edb.schema import functions as s_func
    from edb.schema import pseudo as s_pseudo
    from edb.schema import migrations as s_migr
    from edb.schema import types as s_types
    res = {}
    for obj in schema.get_objects(exclude_stdlib=True, exclude_global=True):
        if isinstance(obj, (so.GlobalObject, s_mod.Module, s_func.Parameter, s_pseudo.PseudoType,
                            s_migr.Migration)):
            continue
        if not isinstance(obj, so.QualifiedObject):
            continue
        if obj.get_builtin(schema):
            continue
        if isinstance(obj, so.DerivableObject):
            if not (obj.is_non_concrete(schema) or (isinstance(obj, s_types.Type) and obj.get_from_global(schema))):
                continue
        nm = obj.get_name(schema)
        if str(nm.get_module_name()) in ('__derived__', '__ext_casts__', '__ext_index_matches__'):
            continue
        res[str(nm)] = type(obj).__name__
    return res


def apply_target(cur, sdl_text):
    from edb.edgeql import parser as qlparser
    from edb.schema import ddl as s_ddl
    sdl = qlparser.parse_sdl(sdl_text)
    return s_ddl.apply_sdl(sdl, base_schema=std_schema(), current_schema=cur, testmode=True)[0]


def replay_stmts(schema, stmts):
    from edb.schema import ddl as s_ddl
    for stmt in stmts:
        schema, _ = s_ddl.delta_and_schema_from_ddl(
            stmt, schema=schema, modaliases={None: 'default'}, testmode=True)
    return schema


def migrate_step(cur, sdl_text, want_detail=True, verify=True, full=False):
    """one START MIGRATION TO {sdl}; POPULATE MIGRATION; COMMIT MIGRATION.
    returns (result dict, committed schema or None, target or None).
    status:  invalid-target   START MIGRATION rejects the SDL (not a valid schema)
             diff-error       delta_schemas raised (e.g. reports a dependency cycle)
             rejected         the computed migration is not accepted: generating / replaying its DDL
                              (POPULATE) or CREATE MIGRATION (COMMIT) raised
             accepted         committed; monitors in r['mon'] compare every form with the target"""
    from edb import edgeql
    from edb.edgeql import ast as qlast
    from edb.schema import ddl as s_ddl
    from edb.schema import delta as sd
    from edb.schema import utils as s_utils
    r = {}
    t0 = time.time()
    try:
        B = apply_target(cur, sdl_text)
    except Exception as e:  # noqa
        r['status'] = 'invalid-target'
        r['err'] = errinfo(e)
        return r, None, None
    try:
        diff = s_ddl.delta_schemas(cur, B)
    except Exception as e:  # noqa
        r['status'] = 'diff-error'
        r['err'] = errinfo(e)
        return r, None, B
    r['t_diff'] = round(time.time() - t0, 2)
    try:
        r['cmds'] = flat_cmds(diff, cur)
    except Exception as e:  # noqa
        r['cmds_err'] = errinfo(e)
        r['cmds'] = []
    r['ncmds'] = len(r['cmds'])
    if want_detail:
        r['topA'] = top_objects(cur)
        r['topB'] = top_objects(B)
    else:
        r['cmds'] = [c for c in r['cmds'] if c[0] == 0]
    mon = {}
    # ---- POPULATE: DDL ASTs of the computed migration (applies the command tree step by step)
    try:
        new_ddl = tuple(s_ddl.ddlast_from_delta(cur, B, diff, testmode=True))
    except Exception as e:  # noqa
        r['status'] = 'rejected'
        r['stage'] = 'ddlast'
        r['err'] = errinfo(e)
        return r, None, B
    # ---- COMMIT: CREATE MIGRATION { ddl }
    try:
        last = cur.get_last_migration()
        parent = s_utils.name_to_ast_ref(last.get_name(cur)) if last else None
        cm = qlast.CreateMigration(body=qlast.NestedQLBlock(commands=list(new_ddl)), parent=parent)
        M, _ = s_ddl.delta_and_schema_from_ddl(cm, schema=cur, modaliases={None: 'default'}, testmode=True)
    except Exception as e:  # noqa
        r['status'] = 'rejected'
        r['stage'] = 'commit'
        r['err'] = errinfo(e)
        try:
            r['ddl'] = s_ddl.ddl_text_from_delta(cur, B, diff)[:1500]
        except Exception:
            pass
        return r, None, B
    r['status'] = 'accepted'
    if not verify:
        try:
            r['script'] = M.get_last_migration().get_script(M)[:3000]
        except Exception:
            pass
        r['t'] = round(time.time() - t0, 2)
        return r, M, B
    dB = dump(B)
    dM = dump(M)
    r['nobjs'] = len(dB)
    mon['commit'] = compare(M, B, dB, dM)
    # ---- the command tree applied as a whole
    try:
        ctx = sd.CommandContext()
        ctx.testmode = True
        T = diff.apply(cur, ctx)
        dT = dump(T)
        mon['tree'] = compare(T, B, dB, dT, own=(full or dT != dM))
    except Exception as e:  # noqa
        mon['tree'] = {'rejected': errinfo(e)}
    # ---- the migration's DDL text (what DESCRIBE / the migration file shows) replayed as text
    try:
        mig = M.get_last_migration()
        script = mig.get_script(M)
        r['script_len'] = len(script)
        r['script'] = script[:3000]
        try:
            X = replay_stmts(cur, edgeql.parse_block(script))
            dX = dump(X)
            mon['text'] = compare(X, B, dB, dX, own=(full or dX != dM))
        except Exception as e:  # noqa
            mon['text'] = {'rejected': errinfo(e), 'script': script[:1500]}
    except Exception as e:  # noqa
        mon['text'] = {'rejected': errinfo(e)}
    if SESSION_FORMS[0]:
        mon.update(session_forms(cur, sdl_text, B, dB))
    r['mon'] = mon
    r['t'] = round(time.time() - t0, 2)
    return r, M, B


SESSION_FORMS = [False]
_COMPILER = None


def session_forms(cur, sdl_text, B, dB):
    """the SERVER compiler's migration block (edb/server/compiler/ddl.py), statement by statement
    on a compiler connection state, the way a client session drives it:
      'session'      START MIGRATION TO {B}; POPULATE MIGRATION; COMMIT MIGRATION
      'interactive'  START MIGRATION; loop DESCRIBE CURRENT MIGRATION AS JSON -> execute the proposed
                     statements or ALTER CURRENT MIGRATION REJECT PROPOSED (a deterministic policy
                     rejects some proposals); POPULATE MIGRATION; COMMIT MIGRATION
    Whenever COMMIT MIGRATION is accepted the resulting schema must be the target; a refusal
    ("cannot commit incomplete migration") is a correct outcome of the interactive form."""
    global _COMPILER
    import zlib
    from edb import edgeql, errors
    from edb.schema import schema as s_schema
    from edb.server import compiler as edbcompiler
    from edb.server.compiler import compiler as compiler_mod
    out = {}
    if _COMPILER is None:
        _COMPILER = vrt.new_compiler()
    std = _COMPILER.state.std_schema
    user = cur._top_schema if isinstance(cur, s_schema.ChainedSchema) else cur

    def ctx_of():
        return edbcompiler.new_compiler_context(
            compiler_state=_COMPILER.state, user_schema=user, modaliases={None: 'default'})

    def execute(ctx, text):
        return compiler_mod.compile(ctx=ctx, source=edgeql.Source.from_string(text))

    def result_of(ctx):
        return s_schema.ChainedSchema(std, ctx.state.current_tx().get_user_schema(), s_schema.EMPTY_SCHEMA)

    try:
        ctx = ctx_of()
        for st in (f'START MIGRATION TO {{ {sdl_text} }}', 'POPULATE MIGRATION', 'COMMIT MIGRATION'):
            execute(ctx, st)
        out['session'] = compare(result_of(ctx), B, dB)
    except Exception as e:  # noqa
        # a REFUSED session commits nothing: not a violation of "an accepted migration yields the
        # target" (recorded; the library-level forms above decide whether the diff itself is complete)
        out['session'] = 'eq'
        out['session_refused'] = errinfo(e)
    try:
        ctx = ctx_of()
        execute(ctx, f'START MIGRATION TO {{ {sdl_text} }}')
        log = []
        h = zlib.crc32(sdl_text.encode())
        t_int = time.time()
        for k in range(12):
            if time.time() - t_int > 20:      # wall budget per case; POPULATE completes the rest
                break
            execute(ctx, 'DESCRIBE CURRENT MIGRATION AS JSON')
            mstate = ctx.state.current_tx().get_migration_state()
            if not mstate.last_proposed:
                break
            step = mstate.last_proposed[0]
            text = ' '.join(' '.join(step.statements).split())
            # policy: reject about one proposal in three, preferring destructive ones
            rej = ((h >> k) & 3 == 0) or ('drop ' in text.lower() and (h >> (k + 7)) & 1 == 0)
            if rej and sum(1 for x in log if x[0] == 'R') < 6:
                log.append('R ' + text[:120])
                execute(ctx, 'ALTER CURRENT MIGRATION REJECT PROPOSED')
            else:
                log.append('A ' + text[:120])
                for st in step.statements:
                    execute(ctx, st)
        execute(ctx, 'POPULATE MIGRATION')
        try:
            execute(ctx, 'COMMIT MIGRATION')
        except errors.EdgeDBError as e:
            out['interactive'] = 'eq'       # refused: nothing was committed
            out['interactive_refused'] = str(e)[:120]
            return out
        c = compare(result_of(ctx), B, dB)
        if c != 'eq':
            c['log'] = log[:20]
        out['interactive'] = c
        out['interactive_rejections'] = sum(1 for x in log if x[0] == 'R')
    except errors.EdgeDBError as e:
        out['interactive'] = 'eq'           # the session itself was refused
        out['interactive_refused'] = 'session: ' + str(e)[:120]
    except Exception as e:  # noqa
        out['interactive'] = 'eq'
        out['interactive_refused'] = 'error: ' + json.dumps(errinfo(e))[:200]
    return out


def compare(S, B, dB=None, dS=None, own=True):
    """schema equivalence used by the monitors: repo's own delta_schemas(S, B) empty AND independent
    structural dumps equal.  own=False (quick tier, only when dump(S) is identical to the dump of
    the committed schema, whose own diff IS computed) skips the repo's diff for this form."""
    res = {}
    if own:
        try:
            od = own_diff(S, B)
        except Exception as e:  # noqa
            od = 'delta_schemas raised ' + json.dumps(errinfo(e))
        if od is not None:
            res['own_diff'] = od
    if dB is None:
        dB = dump(B)
    if dS is None:
        dS = dump(S)
    dd = dump_diff(dS, dB)
    if dd:
        res['dump_diff'] = dd
    return res or 'eq'


def _norm_sdl(text):
    """SDL text with the members of every union type `(A | B)` sorted: union_of is an unordered set in the
    schema (the structural dump compares it as a set); the printed order follows object creation order"""
    import re

    def srt(m):
        return '(' + ' | '.join(sorted(x.strip() for x in m.group(1).split('|'))) + ')'
    return re.sub(r'\(([\w:]+(?:\s*\|\s*[\w:]+)+)\)', srt, text)


def _norm_explicit(text):
    """SDL text with explicitly stated default values removed (`on target delete restrict;`,
    `readonly := false;`, the `single` / `optional` qualifiers) and blocks emptied by that collapsed"""
    import re
    t = _norm_sdl(text)
    t = re.sub(r'\n\s*on target delete restrict;', '', t)
    t = re.sub(r'\n\s*readonly := false;', '', t)
    t = re.sub(r'\b(single|optional) (?=(multi |required )?(link|property) )', '', t)
    t = re.sub(r'\b(required )(single )', r'\1', t)
    for _ in range(3):
        t = re.sub(r' \{\n\s*\};', ';', t)
    return t


def run_e2e_case(case):
    res = {'id': case.get('id'), 'steps': []}
    cur = std_schema()
    chain = list(case['chain'])
    if case.get('to_empty'):
        chain.append('module default {}')
    vf = case.get('verify_from', 0)
    SESSION_FORMS[0] = bool(case.get('session'))
    full = bool(case.get('full'))
    for i, sdl in enumerate(chain):
        r, committed, B = migrate_step(cur, sdl, want_detail=case.get('detail', True),
                                       verify=(i >= vf and not case.get('direct')), full=full)
        if case.get('direct') and committed is not None and i > 0 and i < len(case['chain']):
            # C10: the same target reached directly from the std-only schema
            try:
                r2, direct, _ = migrate_step(std_schema(), sdl, want_detail=False, verify=False)
                if direct is None:
                    r['direct'] = {'status': r2['status'], 'err': r2.get('err')}
                else:
                    cmpres = compare(committed, direct)
                    if cmpres == 'eq':
                        # also the SDL the system would DESCRIBE for both schemas must be the same text
                        from edb.schema import ddl as s_ddl
                        ta = s_ddl.sdl_text_from_schema(committed)
                        tb = s_ddl.sdl_text_from_schema(direct)
                        # normalised SDL comparison: union members sorted (union_of is a set) and explicitly
                        # spelled DEFAULT values removed (`on target delete restrict;`, `readonly := false;`,
                        # `single` / `optional`): how DESCRIBE spells a default is not part of "the same schema";
                        # where explicitness matters it reaches the descendants' inherited_fields, which the
                        # structural dump compares.
                        if _norm_explicit(ta) != _norm_explicit(tb):
                            import difflib
                            la, lb = _norm_explicit(ta).split('\n'), _norm_explicit(tb).split('\n')
                            dl = [l for l in difflib.unified_diff(la, lb, 'chain', 'direct', n=1, lineterm='')][:40]
                            cmpres = {'sdl_diff': dl}
                    r['direct'] = {'status': 'accepted', 'cmp': cmpres}
            except Exception as e:  # noqa
                r['direct'] = {'status': 'harness-error', 'err': errinfo(e)}
        if case.get('to_empty') and i == len(chain) - 1 and committed is not None:
            left = sorted(k for k in dump(committed) if k != 'Module default')
            r['left_after_empty'] = left[:20]
        res['steps'].append(r)
        if committed is None:
            if case.get('direct'):
                continue      # C10: a step that is not accepted is skipped; the chain goes on from the current schema
            break
        cur = committed
    return res


def main():
    lines = [l.rstrip('\n') for l in sys.stdin]
    lines = [l for l in lines if l]
    if MODE == 'dobj':
        for o in run_dobj(lines):
            print(o)
        return
    std_schema()
    for l in lines:
        try:
            case = json.loads(l)
            out = run_e2e_case(case)
        except Exception as e:  # noqa
            out = {'harness_error': errinfo(e), 'tb': traceback.format_exc()[-1500:]}
        print(json.dumps(out, default=str), flush=True)


if __name__ == '__main__':
    main()
