"""C03 / C11 -- drives the REAL describe / SDL-ordering code of the repo under test.

usage:  c03_impl.py <repo> <mode>       one case per stdin line -> one result line

mode `describe` (C03)   line = JSON {"id":.., "sdl": text, "sessions": [[[alias|null, module],..],..],
                                      "own": n, "compiler": bool}
    S     = s_ddl.apply_sdl(parse_sdl(sdl), base_schema=std, current_schema=std)      (the schema held)
    DDL   = s_ddl.ddl_text_from_schema(S)          = DESCRIBE SCHEMA AS DDL
    SDL   = s_ddl.sdl_text_from_schema(S)          = DESCRIBE SCHEMA AS SDL
    for every session (a modaliases map: None -> current module, name -> module):
      ddl replay:  every statement of parse_block(DDL) through delta_and_schema_from_ddl(stmt,
                   schema=<std only>, modaliases=session)          (what the server does with a DDL script)
      sdl replay:  START MIGRATION TO {SDL}; POPULATE MIGRATION; [COMMIT MIGRATION] the way
                   edb/server/compiler/ddl.py does it: B = apply_sdl(parse_sdl(SDL)),
                   diff = delta_schemas(std, B), ddlast_from_delta -> every generated statement is
                   re-loaded with delta_and_schema_from_ddl(.., modaliases=session)
      each result must equal S: independent structural dump equal (all) and the repo's own
      delta_schemas(result, S) empty (the first `own` sessions per language).
    `compiler`: additionally obtain the text through the EdgeQL compiler (`describe schema as ddl/sdl`
      compiled to IR; the text is the string constant of the result) and require it to be identical.

mode `perm` (C11)       line = JSON {"id":.., "docs": [sdl0, sdl1, ...], "own": n, "graph": bool}
    every doc_i is the same set of declarations in a different order.  Each is loaded with
    apply_sdl(parse_sdl(doc_i), std, std); all accepted results must have the dump of doc_0 and the
    repo's own diff against result 0 empty (first `own` docs); a rejection must be a rejection for
    every order, with the same error class.  With `graph` the dependency graph handed by
    declarative.sdl_to_ddl to topological.sort is captured (keys in dict order, deps / weak_deps /
    loop_control as the code left them, and the order sort() returned).

mode `resolve` (C03/C11 model correspondence)   line = numeric encoding, see harness/props/c03.py::enc_res
    runs the REAL FlatSchema._search_with_getter, tracer.resolve_name and
    QualifiedObjectCommand._classname_from_ast on generated names / alias maps / object sets.

mode `pairs` (C11 exploration, thorough)   line = JSON {"id", "sdl"}: the DDL statements produced by
    sdl_to_ddl for the document are applied in the computed order and, for every adjacent pair that is
    incomparable in the captured hard-dependency graph, with that pair swapped.

The repo path comes from argv[1] (lib.REPO / VERIF_REPO); nothing of the repo is modified.
"""
import json
import os
import sys
import time
import traceback

REPO = sys.argv[1]
MODE = sys.argv[2] if len(sys.argv) > 2 else 'describe'
HERE = os.path.dirname(os.path.abspath(__file__))
sys.path.insert(0, HERE)
import c02_impl as C2  # noqa: E402   (installs vrt for REPO, asserts edb comes from REPO)

vrt = C2.vrt
std_schema = C2.std_schema
dump = C2.dump
dump_diff = C2.dump_diff
own_diff = C2.own_diff
errinfo = C2.errinfo


# =====================================================================================
#  helpers
# =====================================================================================

_orig_canon = C2._canon


def _canon_with_refs(schema, v, depth=0):
    """c02's structural dump compares a stored expression by its text only; for C03 the OBJECTS the
    expression was resolved to matter as well (a printed name that is re-resolved to another object
    leaves the text unchanged): the names of Expression.refs are added"""
    from edb.schema import expr as s_expr
    if isinstance(v, s_expr.Expression):
        refs = None
        try:
            if v.refs is not None:
                # Expression.refs also holds objects the expression never names (bookkeeping of the
                # compilation it came from: pointers of other types, operators, ... - order dependent);
                # keep the functions / types / globals whose short name occurs in the text as an identifier
                import re
                from edb.schema import functions as s_func
                from edb.schema import types as s_types
                from edb.schema import globals as s_globals
                refs = []
                for o in v.refs.objects(schema):
                    if not isinstance(o, (s_func.Function, s_types.Type, s_globals.Global)):
                        continue        # pointers / operators / casts: polluted, see above
                    try:
                        short = str(o.get_shortname(schema).name)
                    except Exception:  # noqa
                        continue
                    if re.fullmatch(r'[A-Za-z_]\w*', short) and re.search(r'(?<![\w])' + re.escape(short) + r'(?![\w])', v.text):
                        refs.append(str(o.get_name(schema)))
                refs.sort()
        except Exception as e:  # noqa
            refs = ['ERR', type(e).__name__]
        return ['expr', v.text, refs]
    return _orig_canon(schema, v, depth)


C2._canon = _canon_with_refs

def mk_aliases(ses):
    return {(k if k is not None else None): v for k, v in ses}


def replay_ddl_text(text, aliases):
    """what the server does with a DDL script in a session with these module aliases"""
    from edb import edgeql
    from edb.schema import ddl as s_ddl
    schema = std_schema()
    n = 0
    for stmt in edgeql.parse_block(text):
        schema, _ = s_ddl.delta_and_schema_from_ddl(stmt, schema=schema, modaliases=aliases, testmode=True)
        n += 1
    return schema, n


def sdl_target(text):
    from edb.edgeql import parser as qlparser
    from edb.schema import ddl as s_ddl
    doc = qlparser.parse_sdl(text)
    return s_ddl.apply_sdl(doc, base_schema=std_schema(), current_schema=std_schema(), testmode=True)[0]


def populate(B):
    """POPULATE MIGRATION from the std-only schema to B: the generated DDL ASTs"""
    from edb.schema import ddl as s_ddl
    diff = s_ddl.delta_schemas(std_schema(), B)
    return tuple(s_ddl.ddlast_from_delta(std_schema(), B, diff, testmode=True))


def replay_asts(stmts, aliases):
    """POPULATE MIGRATION re-loads every generated statement in the session; the ASTs are copied first:
    compiling a statement imprints the session's aliases into its expression nodes in place"""
    import copy
    from edb.schema import ddl as s_ddl
    schema = std_schema()
    for stmt in copy.deepcopy(list(stmts)):
        schema, _ = s_ddl.delta_and_schema_from_ddl(stmt, schema=schema, modaliases=aliases, testmode=True)
    return schema


def commit(stmts, aliases):
    from edb.edgeql import ast as qlast
    from edb.schema import ddl as s_ddl
    import copy
    cm = qlast.CreateMigration(body=qlast.NestedQLBlock(commands=copy.deepcopy(list(stmts))), parent=None)
    M, _ = s_ddl.delta_and_schema_from_ddl(cm, schema=std_schema(), modaliases=aliases, testmode=True)
    return M


def cmp_to(X, S, dS, own):
    res = {}
    dX = dump(X)
    dd = dump_diff(dX, dS)
    if dd:
        res['dump_diff'] = dd
    if own:
        try:
            od = own_diff(X, S)
        except Exception as e:  # noqa
            od = 'delta_schemas raised ' + json.dumps(errinfo(e))
        if od is not None:
            res['own_diff'] = od
    return res or 'eq'


def describe_via_compiler(S, lang):
    """DESCRIBE SCHEMA AS <lang> through the EdgeQL compiler: the IR's string constant"""
    from edb.ir import ast as irast
    from edb.edgeql import compiler as qlcompiler
    from edb.edgeql import parser as qlparser
    qltree = qlparser.parse_block(f'describe schema as {lang};')[0]
    ir = qlcompiler.compile_ast_to_ir(
        qltree, S, options=qlcompiler.CompilerOptions(modaliases={None: 'default'}))
    e = ir.expr
    for _ in range(6):
        if isinstance(e, irast.StringConstant):
            return e.value
        if isinstance(e, irast.Set):
            e = e.expr
        elif isinstance(e, irast.SelectStmt):
            e = e.result
        else:
            break
    return None


# =====================================================================================
#  mode describe
# =====================================================================================

def run_describe(case):
    from edb.schema import ddl as s_ddl
    r = {'id': case.get('id')}
    t0 = time.time()
    try:
        if case.get('ddl_in'):
            # the schema held was built by a DDL script in a session whose current module is `default`
            S, _ = replay_ddl_text(case['ddl_in'], {None: 'default'})
        else:
            S = sdl_target(case['sdl'])
    except Exception as e:  # noqa
        r['status'] = 'invalid-schema'
        r['err'] = errinfo(e)
        return r
    r['status'] = 'ok'
    dS = dump(S)
    r['nobjs'] = len(dS)
    nown = case.get('own', 1)
    sessions = case['sessions']
    # ---------------- DDL
    ddl = None
    try:
        ddl = s_ddl.ddl_text_from_schema(S)
        r['ddl'] = ddl
    except Exception as e:  # noqa
        r['ddl_err'] = errinfo(e)
    if ddl is not None:
        out = []
        for i, ses in enumerate(sessions):
            try:
                X, n = replay_ddl_text(ddl, mk_aliases(ses))
                out.append(cmp_to(X, S, dS, own=i < nown))
                r['ddl_nstmts'] = n
            except Exception as e:  # noqa
                out.append({'rejected': errinfo(e)})
        r['ddl_replay'] = out
        if case.get('commit'):
            # the same text as the body of one CREATE MIGRATION (what a migration file is)
            try:
                from edb import edgeql
                M = commit(edgeql.parse_block(ddl), mk_aliases(sessions[0]))
                r['ddl_commit'] = cmp_to(M, S, dS, own=False)
            except Exception as e:  # noqa
                r['ddl_commit'] = {'rejected': errinfo(e)}
    # ---------------- SDL
    sdl = None
    try:
        sdl = s_ddl.sdl_text_from_schema(S)
        r['sdl'] = sdl
    except Exception as e:  # noqa
        r['sdl_err'] = errinfo(e)
    if sdl is not None:
        stmts = None
        B = None
        try:
            B = sdl_target(sdl)
            r['sdl_target'] = cmp_to(B, S, dS, own=nown > 0)
        except Exception as e:  # noqa
            r['sdl_target'] = {'rejected': errinfo(e)}
        if B is not None:
            try:
                stmts = populate(B)
            except Exception as e:  # noqa
                r['sdl_populate'] = {'rejected': errinfo(e)}
        if stmts is not None:
            out = []
            for i, ses in enumerate(sessions):
                try:
                    X = replay_asts(stmts, mk_aliases(ses))
                    out.append(cmp_to(X, S, dS, own=False))
                except Exception as e:  # noqa
                    out.append({'rejected': errinfo(e)})
            r['sdl_replay'] = out
            if case.get('commit'):
                try:
                    M = commit(stmts, mk_aliases(sessions[0]))
                    r['sdl_commit'] = cmp_to(M, S, dS, own=False)
                except Exception as e:  # noqa
                    r['sdl_commit'] = {'rejected': errinfo(e)}
    if case.get('compiler'):
        try:
            t1 = describe_via_compiler(S, 'ddl')
            t2 = describe_via_compiler(S, 'sdl')
            r['compiler_same'] = [t1 == ddl, t2 == sdl]
        except Exception as e:  # noqa
            r['compiler_same'] = {'error': errinfo(e)}
    r['t'] = round(time.time() - t0, 2)
    return r


# =====================================================================================
#  mode perm  (C11)
# =====================================================================================

_captured = None


def install_capture():
    """wrap topological.sort as seen by edb.edgeql.declarative: record the graph it is given"""
    from edb.edgeql import declarative as decl
    from edb.common import topological as topo

    class Proxy:
        def __getattr__(self, k):
            return getattr(topo, k)

        @staticmethod
        def sort(graph, **kw):
            global _captured
            cap = {'keys': [str(k) for k in graph],
                   'split': {str(k): [str(k.module), str(k.name)] for k in graph},
                   'deps': {str(k): [str(x) for x in v.deps] for k, v in graph.items()},
                   'weak': {str(k): [str(x) for x in v.weak_deps] for k, v in graph.items()},
                   'lctl': {str(k): [str(x) for x in v.loop_control] for k, v in graph.items()},
                   'dsplit': {str(x): [str(x.module), str(x.name)] for v in graph.values()
                              for x in list(v.deps) + list(v.weak_deps) + list(v.loop_control)},
                   'kinds': {'deps': sorted({type(v.deps).__name__ for v in graph.values()}),
                             'weak': sorted({type(v.weak_deps).__name__ for v in graph.values()}),
                             'lctl': sorted({type(v.loop_control).__name__ for v in graph.values()})}}
            _captured = cap
            try:
                res = topo.sort(graph, **kw)
            except topo.CycleError as e:
                cap['cycle'] = str(e.item)
                raise
            except topo.UnresolvedReferenceError as e:
                cap['unresolved'] = str(e)
                raise
            res = tuple(res)
            inv = {id(v.item): str(k) for k, v in graph.items()}
            cap['order'] = [inv.get(id(x), '?') for x in res]
            return res

    if not isinstance(decl.topological, Proxy):
        decl.topological = Proxy()


def load_doc(text, capture=False):
    global _captured
    _captured = None
    try:
        S = sdl_target(text)
        return S, None, _captured
    except Exception as e:  # noqa
        return None, errinfo(e), _captured


def ddl_of_doc(text):
    """the DDL statements sdl_to_ddl produces for this document (as text, in order)"""
    from edb.edgeql import parser as qlparser
    from edb.edgeql import declarative as s_decl
    from edb.edgeql import codegen
    from edb.schema import ddl as s_ddl  # noqa
    from collections import defaultdict
    doc = qlparser.parse_sdl(text)
    documents = defaultdict(list)
    documents['default'] = []

    def collect(decl, module):
        from edb.edgeql import ast as qlast
        if isinstance(decl, qlast.ModuleDeclaration):
            new_mod = f'{module}::{decl.name.name}' if module else decl.name.name
            documents.setdefault(new_mod, [])
            for sd_ in decl.declarations:
                collect(sd_, new_mod)
        else:
            if decl.name.module is None:
                name = module
            else:
                name = f'{module}::{decl.name.name}' if module else decl.name.module
            documents[name].append(decl)
    for d in doc.declarations:
        collect(d, None)
    stmts = s_decl.sdl_to_ddl(std_schema(), documents)
    return stmts, [codegen.generate_source(s) for s in stmts]


def user_types(S):
    """{object type name: sorted base names} of the user-defined object types"""
    from edb.schema import objtypes as s_objtypes
    out = {}
    for t in S.get_objects(exclude_stdlib=True, type=s_objtypes.ObjectType):
        nm = str(t.get_name(S))
        if nm.startswith('default::T'):
            out[nm] = sorted(str(b.get_name(S)) for b in t.get_bases(S).objects(S))
    return out


def run_perm(case):
    r = {'id': case.get('id'), 'docs': []}
    nown = case.get('own', 1)
    base = None
    dbase = None
    for i, text in enumerate(case['docs']):
        t0 = time.time()
        S, err, cap = load_doc(text)
        e = {}
        if S is None:
            e['status'] = 'rejected'
            e['err'] = err
        else:
            e['status'] = 'ok'
            d = dump(S)
            if base is None:
                base, dbase = S, d
                e['nobjs'] = len(d)
                e['cmp'] = 'eq'
            else:
                e['cmp'] = cmp_to(S, base, dbase, own=(i <= nown))
        if cap is not None and (case.get('graph') and i == 0):
            e['graph'] = cap
        elif cap is not None:
            e['gsum'] = {'n': len(cap['keys']), 'cycle': cap.get('cycle'), 'kinds': cap['kinds']}
            if case.get('orders'):
                e['order'] = cap.get('order')
                e['cycle_item'] = cap.get('cycle')
        if S is not None and case.get('types'):
            e['types'] = user_types(S)
        if S is not None and case.get('digest'):
            import hashlib
            e['digest'] = hashlib.sha256(json.dumps(dump(S), sort_keys=True).encode()).hexdigest()[:20]
        e['t'] = round(time.time() - t0, 2)
        r['docs'].append(e)
    if case.get('ddltext'):
        try:
            r['ddltext'] = ddl_of_doc(case['docs'][0])[1]
        except Exception as e:  # noqa
            r['ddltext'] = {'error': errinfo(e)}
    return r


# =====================================================================================
#  mode pairs (C11 exploration: the hypothesis of the commutation lemma)
# =====================================================================================

def run_pairs(case):
    from edb.schema import ddl as s_ddl
    r = {'id': case.get('id')}
    global _captured
    _captured = None
    try:
        stmts, _ = ddl_of_doc(case['sdl'])
    except Exception as e:  # noqa
        r['status'] = 'rejected'
        r['err'] = errinfo(e)
        return r
    cap = _captured
    r['status'] = 'ok'
    nmods = len(stmts) - len(cap['order'])
    order = cap['order']
    # reachability over hard deps + loop control
    adj = {k: set(cap['deps'][k]) | set(cap['lctl'][k]) for k in cap['keys']}
    reach = {}

    def rch(k):
        if k in reach:
            return reach[k]
        reach[k] = set()
        acc = set()
        for d in adj.get(k, ()):
            if d in adj:
                acc.add(d)
                acc |= rch(d)
        reach[k] = acc
        return acc
    for k in cap['keys']:
        rch(k)

    def apply(seq):
        schema = std_schema()
        for st in seq:
            schema, _ = s_ddl.delta_and_schema_from_ddl(st, schema=schema, modaliases={}, testmode=True)
        return schema
    try:
        base = apply(stmts)
    except Exception as e:  # noqa
        r['status'] = 'base-rejected'
        r['err'] = errinfo(e)
        return r
    dbase = dump(base)
    res = []
    limit = case.get('limit', 12)
    for i in range(len(order) - 1):
        a, b = order[i], order[i + 1]
        if a in reach.get(b, ()) or b in reach.get(a, ()):
            continue
        if len(res) >= limit:
            break
        seq = list(stmts)
        seq[nmods + i], seq[nmods + i + 1] = seq[nmods + i + 1], seq[nmods + i]
        try:
            X = apply(seq)
            res.append([a, b, cmp_to(X, base, dbase, own=False)])
        except Exception as e:  # noqa
            res.append([a, b, {'rejected': errinfo(e)}])
    r['pairs'] = res
    r['weak'] = {k: v for k, v in cap['weak'].items() if v}
    return r


# =====================================================================================
#  mode resolve: the real name-resolution functions
# =====================================================================================

COMP = {1: 'std', 2: '__current__', 3: '__std__', 4: 'default', 5: 'other', 6: 'sub', 7: 'math', 8: 'al',
        9: 'deep', 10: 'cal', 11: 'xx'}
_res_schema = None


def res_schema():
    """std schema + user modules default, other, default::sub, other::deep (has_module() answers)"""
    global _res_schema
    if _res_schema is None:
        from edb.schema import ddl as s_ddl
        s = std_schema()
        for m in ('default', 'other', 'default::sub', 'other::deep'):
            s = s_ddl.apply_ddl_script(f'create module {m};', schema=s, modaliases={})
        _res_schema = s
    return _res_schema


def dec_mod(s):
    """'-' -> None ; '4.6' -> 'default::sub'"""
    if s == '-':
        return None
    return '::'.join(COMP[int(x)] for x in s.split('.'))


def dec_aliases(s):
    """'N' -> None ; '' -> {} ; 'k>m,k>m' (k '-' = None)"""
    if s == 'N':
        return None
    d = {}
    for ent in (s.split(',') if s else []):
        k, m = ent.split('>')
        d[dec_mod(k)] = dec_mod(m)
    return d


def dec_names(s):
    """'mod:name,mod:name' -> set of (module, 'nNN')"""
    out = set()
    for ent in (s.split(',') if s else []):
        m, n = ent.split(':')
        out.add((dec_mod(m), 'n' + n))
    return out


def enc_qname(q):
    inv = {v: k for k, v in COMP.items()}
    mod = str(q.module) if hasattr(q, 'module') else None
    comps = '.'.join(str(inv.get(c, 0)) for c in mod.split('::'))
    return f'{comps}:{q.name[1:]}'


def run_resolve(line):
    """S;<mod>;<name>;<aliases>;<objs>;<disallow comps>          _search_with_getter
       T;<mod>;<name>;<aliases>;<cur mod>;<objs>;<local mods>;<declaration 0/1>;<schema objs>   tracer.resolve_name
       K;<mod>;<name>;<aliases>                                  _classname_from_ast"""
    from edb.schema import name as sn
    from edb.schema import schema as s_schema
    from edb.edgeql import ast as qlast
    f = line.split(';')
    kind = f[0]
    schema = res_schema()
    if kind == 'M':
        return ','.join(str(c) for c, nm in sorted(COMP.items()) if schema.has_module(nm))
    flat = schema
    while not isinstance(flat, s_schema.FlatSchema):
        flat = flat._top_schema if hasattr(flat, '_top_schema') else flat._base_schema
    mod = dec_mod(f[1])
    short = 'n' + f[2]
    aliases = dec_aliases(f[3])
    if kind == 'S':
        objs = dec_names(f[4])
        dis = {COMP[int(x)] for x in f[5].split(',')} if f[5] else None
        name = sn.QualName(mod, short) if mod is not None else sn.UnqualName(short)

        def getter(sch, nm):
            return nm if (str(nm.module), nm.name) in objs else None
        res = flat._search_with_getter(name, getter=getter, default=None, module_aliases=aliases,
                                       disallow_module=(lambda m: m in dis) if dis is not None else None)
        return 'D' if res is None else 'F ' + enc_qname(res)
    if kind == 'T':
        from edb.edgeql import tracer as qltracer
        cur = dec_mod(f[4])
        objs = dec_names(f[5])
        local = frozenset(dec_mod(x) for x in f[6].split(',')) if f[6] else frozenset()
        declaration = f[7] == '1'
        sobjs = dec_names(f[8])
        objects = {sn.QualName(m, n): qltracer.ObjectType(sn.QualName(m, n)) for m, n in objs}

        class FakeSchema:
            """stands in for the schema inside tracer.resolve_name: get(name, default=None, type=Object)
            answers through the REAL _search_with_getter with a scripted getter"""
            def get(self, name, default=None, type=None, **kw):
                def getter(sch, nm):
                    return nm if (str(nm.module), nm.name) in sobjs else None
                return flat._search_with_getter(name, getter=getter, default=default, module_aliases=None,
                                                disallow_module=None)
        ref = qlast.ObjectRef(module=mod, name=short)
        res = qltracer.resolve_name(ref, current_module=cur, schema=FakeSchema(), objects=objects,
                                    modaliases=aliases, local_modules=local, declaration=declaration)
        return 'F ' + enc_qname(res)
    if kind == 'K':
        from edb.schema import delta as sd
        from edb.schema import objtypes as s_objtypes
        from edb import errors
        ref = qlast.ObjectRef(module=mod, name=short)
        node = qlast.CreateObjectType(name=ref)
        ctx = sd.CommandContext(schema=schema, modaliases=aliases or {})
        try:
            res = s_objtypes.CreateObjectType._classname_from_ast(schema, node, ctx)
        except errors.SchemaDefinitionError:
            return 'E'
        return 'F ' + enc_qname(res)
    return '?'


# =====================================================================================

def main():
    lines = [l.rstrip('\n') for l in sys.stdin]
    lines = [l for l in lines if l]
    std_schema()
    if MODE == 'resolve':
        for l in lines:
            try:
                print(run_resolve(l), flush=True)
            except Exception as e:  # noqa
                print('X ' + type(e).__name__ + ' ' + str(e)[:120].replace('\n', ' '), flush=True)
        return
    if MODE in ('perm', 'pairs'):
        install_capture()
    fn = {'describe': run_describe, 'perm': run_perm, 'pairs': run_pairs}[MODE]
    for l in lines:
        try:
            out = fn(json.loads(l))
        except Exception as e:  # noqa
            out = {'harness_error': errinfo(e), 'tb': traceback.format_exc()[-1500:]}
        print(json.dumps(out, default=str), flush=True)


if __name__ == '__main__':
    main()
