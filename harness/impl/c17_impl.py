"""C17 implementation side.  One history per input line (same encoding as the OCaml driver,
see ocaml/c17_main.ml); one output line per history.

usage:  c17_impl.py <repo> [st|mt]        (st = single tenant worker.py, mt = multitenant_worker.py)

REAL code driven (from the repo given in argv[1]):
  edb/server/compiler_pool/pool.py    AbstractPool._compute_compile_preargs (+ sync_worker_state_cb),
                                      AbstractPool.compile / compile_notebook / compile_sql /
                                      compile_graphql / compile_in_tx, AbstractPool._make_init_args,
                                      BaseWorker.call / _request, Worker.__init__ / _attach,
                                      BaseLocalPool._attach_worker / worker_disconnected /
                                      _acquire_worker / _release_worker
                                      (mt: MultiTenantPool._compute_compile_preargs / compile_in_tx /
                                      _acquire_worker / _weighter / drop_tenant, MultiTenantWorker.*)
  edb/server/compiler_pool/queue.py   WorkerQueue.acquire / release (the queue is loaded with the free
                                      workers named by the history before every request)
  edb/server/compiler_pool/worker.py  __init_worker__, __sync__, compile, compile_in_tx, compile_notebook,
                                      compile_sql, compile_graphql, get_handler   (one private module
                                      instance per worker "process": own DBS / GLOBAL_SCHEMA / ...)
  edb/server/compiler_pool/multitenant_worker.py   the same entry points + call_for_client  (mt)
  edb/server/compiler_pool/worker_proc.py   worker(): the request loop (status 0 / 1 / 2 replies)
  edb/server/compiler_pool/state.py   PickledDatabaseState, DatabaseState, FailedStateSync, marker
HARNESS (not /repo):
  - the transport: FakeHubConnection.request() hands the pickled request to worker_proc.worker()
    through a fake amsg.WorkerConnection and returns the pickled reply (object identity is lost
    exactly where it is lost in production: pickle over the wire);
  - a recording COMPILER (edb.server.compiler.new_compiler is replaced inside the private worker
    modules): records the five state values / the (state, root user schema) it is entered with;
  - fault injection: request lost, unpickle failure of one field inside the worker (the worker
    module's `pickle` name is a proxy that raises for the armed field), compiler exception,
    unserialisable result (-> real status 2 reply);
  - values are small tokens with identity: user/global schema pickles = bytes objects, reflection
    cache / configs = immutables.Map objects (ids >= 100: EMPTY maps / b''), 0 = None.
"""
import sys
import os
import pickle
import importlib.util
import asyncio
import collections
import types

REPO = sys.argv[1]
MODE = sys.argv[2] if len(sys.argv) > 2 else 'st'
os.environ.setdefault('VRT_REPO', REPO)
sys.path.insert(0, os.path.join(os.path.dirname(os.path.abspath(__file__)), '..', 'rt'))
import vrt  # noqa
vrt.install()
import edb  # noqa
assert os.path.realpath(edb.__path__[0]).startswith(os.path.realpath(REPO)), edb.__path__

import immutables  # noqa
from edb.server.compiler_pool import state as st_mod, pool as pool_mod  # noqa
from edb.server.compiler_pool import worker_proc, queue as queue_mod  # noqa

sys.modules.setdefault('c17_impl', sys.modules['__main__'])

FIELDS = ('us', 'rc', 'gs', 'dc', 'sc')      # wire order of _compute_compile_preargs
RAW = ('us', 'gs')
EMPTY_CODE = 50
FALSY_FROM = 100


# ---------------------------------------------------------------- tokens
class Tok:
    """an unpickled user/global schema: field tag + content"""

    def __init__(self, f, c):
        self.f = f
        self.c = c


Tok.__module__ = 'c17_impl'


class CState:
    """stands for dbstate.CompilerConnectionState: pickles WITHOUT the root user schema"""

    def __init__(self, sid, root=None):
        self.sid = sid
        self.root = root

    def __getstate__(self):
        return self.sid

    def __setstate__(self, s):
        self.sid = s
        self.root = None

    def set_root_user_schema(self, s):
        self.root = s


CState.__module__ = 'c17_impl'

_OBJ = {}       # (field, ident) -> object     (identity of the caller's objects)
_IDENT = {}     # id(object) -> ident


def cont0(x):
    return 0 if x == 0 else (EMPTY_CODE if x >= FALSY_FROM else x // 2)


def obj(field, x):
    """the caller-side object with identity x for the given field"""
    if x == 0:
        return None
    k = (field, x)
    o = _OBJ.get(k)
    if o is None:
        if field in RAW:
            o = b'' if x >= FALSY_FROM else pickle.dumps(Tok(field, x // 2), -1)
        else:
            o = immutables.Map() if x >= FALSY_FROM else immutables.Map({field: x // 2})
        _OBJ[k] = o
        _IDENT[(field, id(o))] = x
    return o


def ident(field, o):
    if o is None:
        return 0
    return _IDENT.get((field, id(o)), -1)


def code(field, v):
    """content code of a worker-side value (must equal Model.cont0 of the supplied ident)"""
    if v is None:
        return 0
    if field in RAW:
        if isinstance(v, Tok) and v.f == field:
            return v.c
        return -1
    if isinstance(v, immutables.Map):
        if len(v) == 0:
            return EMPTY_CODE
        if field in v and len(v) == 1:
            return v[field]
    return -1


# ---------------------------------------------------------------- recording compiler
class Boom(Exception):
    pass


Boom.__module__ = 'c17_impl'


class Unpicklable:
    def __reduce__(self):
        raise TypeError('cannot pickle this result')


class Ctl:
    fault = 'n'
    ret_state = True
    nxt = 1
    log = []
    msgs = []
    served_proc = None


def _finish():
    if Ctl.fault == 'c':
        raise Boom('compiler failure')
    return Unpicklable() if Ctl.fault == 'r' else 'units'


class RecCompiler:
    class state:
        compilation_config_serializer = None

    def _rec5(self, us, gs, rc, dc, sc):
        Ctl.log.append(('C', code('us', us), code('gs', gs), code('rc', rc), code('dc', dc),
                        code('sc', sc)))

    def compile_serialized_request(self, us, gs, rc, dc, sc, *a, **kw):
        self._rec5(us, gs, rc, dc, sc)
        units = _finish()
        cst = None
        if Ctl.ret_state:
            cst = CState(Ctl.nxt, us)
        return units, cst

    def compile_notebook(self, us, gs, rc, dc, sc, *a, **kw):
        self._rec5(us, gs, rc, dc, sc)
        return _finish()

    def compile_sql(self, us, gs, rc, dc, sc, *a, **kw):
        self._rec5(us, gs, rc, dc, sc)
        return _finish()

    def compile(self, *, user_schema, global_schema, reflection_cache, database_config,
                system_config, request):
        # second half of worker.compile_graphql
        self._rec5(user_schema, global_schema, reflection_cache, database_config, system_config)
        return _finish(), None

    def compile_serialized_request_in_tx(self, cstate, txid, *a, **kw):
        Ctl.log.append(('T', cstate.sid, code('us', cstate.root)))
        units = _finish()
        cstate.sid = Ctl.nxt           # the real compiler returns the same (mutated) object
        return units, cstate


class _Ns(types.SimpleNamespace):
    pass


def _fake_compiler_ns():
    def new_compiler(*a, **kw):
        return RecCompiler()

    class Req:
        def __init__(self, **kw):
            self.kw = kw
    return _Ns(new_compiler=new_compiler, CompilationRequest=Req,
               OutputFormat=_Ns(JSON='json'), InputFormat=_Ns(JSON='json'),
               Compiler=RecCompiler, QueryUnitGroup=object, dbstate=_Ns(CompilerConnectionState=CState))


def _fake_graphql_ns():
    def compile_graphql(std, us, gs, dc, sc, *a, **kw):
        Ctl.log.append(('G', code('us', us), code('gs', gs), code('dc', dc), code('sc', sc)))
        return _Ns(edgeql_ast='ast')
    return _Ns(compile_graphql=compile_graphql, TranspiledOperation=object)


def _fake_edgeql_ns():
    return _Ns(Source=_Ns(from_string=lambda s: s), generate_source=lambda ast, pretty=True: 'src')


class PickleProxy:
    """the worker module's `pickle`: raises for the armed field"""
    armed = None       # field name | 'st' | None

    def __init__(self):
        self.HIGHEST_PROTOCOL = pickle.HIGHEST_PROTOCOL

    def loads(self, data, *a, **kw):
        v = pickle.loads(data, *a, **kw)
        k = None
        if isinstance(v, Tok):
            k = v.f
        elif isinstance(v, CState):
            k = 'st'
        elif isinstance(v, immutables.Map) and len(v) == 1:
            k = next(iter(v))
        if k is not None and k == PickleProxy.armed:
            raise pickle.UnpicklingError(f'injected unpickle failure of {k}')
        return v

    def dumps(self, *a, **kw):
        return pickle.dumps(*a, **kw)


def load_worker_module(name):
    fn = 'multitenant_worker.py' if MODE == 'mt' else 'worker.py'
    path = os.path.join(REPO, 'edb', 'server', 'compiler_pool', fn)
    spec = importlib.util.spec_from_file_location('edb.server.compiler_pool.' + name, path)
    mod = importlib.util.module_from_spec(spec)
    sys.modules[spec.name] = mod
    spec.loader.exec_module(mod)
    mod.compiler = _fake_compiler_ns()
    mod.graphql = _fake_graphql_ns()
    mod.edgeql = _fake_edgeql_ns()
    mod.pickle = PickleProxy()
    return mod


# ---------------------------------------------------------------- transport
class FakeWorkerConnection:
    """amsg.WorkerConnection for one request: yields it, captures the reply"""

    def __init__(self, req):
        self.req = req
        self.replies = []
        self.aborted = False

    def iter_request(self):
        yield 1, self.req

    def reply(self, req_id, payload):
        self.replies.append(bytes(payload))

    def abort(self):
        self.aborted = True


class _FakeAmsg:
    current = None

    @staticmethod
    def WorkerConnection(sockname, version):
        return _FakeAmsg.current


worker_proc.amsg = _FakeAmsg
worker_proc.debug = types.SimpleNamespace(flags=types.SimpleNamespace(server=False))


class FakeHubConnection:
    def __init__(self, proc):
        self.proc = proc

    def is_closed(self):
        return False

    async def request(self, msg):
        Ctl.msgs.append(pickle.loads(msg))          # what is on the wire
        if Ctl.fault == 'q':
            raise ConnectionError('lost connection to the worker during a call')
        Ctl.served_proc = self.proc
        con = FakeWorkerConnection(msg)
        _FakeAmsg.current = con
        worker_proc.worker('sock', 0, self.proc.mod.get_handler)      # REAL request loop
        assert len(con.replies) == 1 and con.aborted
        return con.replies[0]

    def abort(self):
        pass


class Proc:
    """a worker process: private module instance"""
    _pool = []

    def __init__(self):
        if Proc._pool:
            self.mod = Proc._pool.pop()
        else:
            self.mod = load_worker_module(f'c17w_{id(self)}')
        m = self.mod
        m.INITED = False
        m.LAST_STATE = None
        if MODE == 'mt':
            m.clients = immutables.Map()
        else:
            m.DBS = immutables.Map()
            for n in ('GLOBAL_SCHEMA', 'INSTANCE_CONFIG'):
                if hasattr(m, n):
                    delattr(m, n)

    def free(self):
        Proc._pool.append(self.mod)


class FakeServer:
    def __init__(self):
        self.procs = {}

    def get_by_pid(self, pid):
        return FakeHubConnection(self.procs[pid])

    def kill_outdated_worker(self, v):
        pass


class FakeDbIndex:
    args = None

    def get_cached_compiler_args(self):
        return self.args


def mk_pool(loop):
    base = pool_mod.MultiTenantPool if MODE == 'mt' else pool_mod.FixedPool
    kw = dict(loop=loop, runstate_dir='/nonexistent', pool_size=64, backend_runtime_params=None,
              std_schema=None, refl_schema=None, schema_class_layout=None, dbindex=FakeDbIndex())
    if MODE == 'mt':
        kw['cache_size'] = 2
    p = base(**kw)
    p._running = True
    p._workers_queue = queue_mod.WorkerQueue(loop)
    p._server = FakeServer()
    return p


# ---------------------------------------------------------------- canonical error names
def err_name(e):
    worker_side = hasattr(e, '__formatted_error__')
    if isinstance(e, st_mod.FailedStateSync):
        return 'sync'
    if isinstance(e, Boom):
        return 'comp'
    if worker_side and isinstance(e, RuntimeError) and 'could not serialize' in str(e):
        return 'reply'
    if worker_side:
        return 'wk'
    if isinstance(e, ConnectionError):
        return 'req'
    if isinstance(e, AssertionError):
        return 'assert'
    return 'srv:' + type(e).__name__


# ---------------------------------------------------------------- single tenant system
class System:
    def __init__(self, loop):
        self.loop = loop
        self.pool = mk_pool(loop)
        self.pid_of = {}          # history worker name -> pid
        self.next_pid = 1000
        self.states = {}          # sid -> pickled state object returned to the server
        Ctl.nxt = 1

    def close(self):
        for pid, pr in self.pool._server.procs.items():
            pr.free()

    # ---- state dumps
    def dump(self, w):
        pid = self.pid_of.get(w)
        if pid is None or pid not in self.pool._workers:
            return '-'
        sw = self.pool._workers[pid]
        m = self.pool._server.procs[pid].mod
        last = sw._last_pickled_state
        b = 'B%d,%d,%d' % (ident('gs', sw._global_schema_pickle), ident('sc', sw._system_config),
                           0 if last is None else pickle.loads(last).sid)
        for db in sorted(sw._dbs):
            d = sw._dbs[db]
            b += ' %d:%d:%d:%d' % (db, ident('us', d.user_schema_pickle),
                                   ident('rc', d.reflection_cache), ident('dc', d.database_config))
        ls = m.LAST_STATE
        r = 'W%d,%d,%s' % (code('gs', getattr(m, 'GLOBAL_SCHEMA', None)),
                           code('sc', getattr(m, 'INSTANCE_CONFIG', None)),
                           '-' if ls is None else '%d.%d' % (ls.sid, code('us', ls.root)))
        for db in sorted(m.DBS):
            d = m.DBS[db]
            r += ' %d:%d:%d:%d' % (db, code('us', d.user_schema), code('rc', d.reflection_cache),
                                   code('dc', d.database_config))
        return b + ' ' + r

    def set_queue(self, ws):
        q = collections.deque()
        for w in ws:
            pid = self.pid_of.get(w)
            if pid is not None and pid in self.pool._workers:
                sw = self.pool._workers[pid]
                if sw not in q:
                    q.append(sw)
        self.pool._workers_queue._queue = q
        return q

    def name_of(self, sw):
        for w, pid in self.pid_of.items():
            if self.pool._workers.get(pid) is sw:
                return w
        return -1

    # ---- ops
    def restart(self, w, gs, sc, dbs):
        pool = self.pool
        old = self.pid_of.pop(w, None)
        if old is not None:
            pool.worker_disconnected(old)                 # REAL
            pool._server.procs.pop(old).free()
        m = immutables.Map()
        for db, us, rc, dc in dbs:
            m = m.set(db, st_mod.PickledDatabaseState(
                user_schema_pickle=obj('us', us), reflection_cache=obj('rc', rc),
                database_config=obj('dc', dc)))
        pool._dbindex.args = (m, obj('gs', gs), obj('sc', sc))
        pool.__dict__.pop('___make_init_args_cached', None)   # lru(1) keyed by equality: see props/c17.py
        pid = self.next_pid
        self.next_pid += 1
        pool._server.procs[pid] = Proc()
        Ctl.fault = 'n'
        PickleProxy.armed = None
        try:
            self.loop.run_until_complete(pool._attach_worker(pid))     # REAL
        except Exception as e:
            pool._server.procs.pop(pid).free()
            return 'initfail ' + self.dump(w)
        self.pid_of[w] = pid
        return 'ok ' + self.dump(w)

    def arm(self, f):
        Ctl.fault = f if f in ('n', 'q', 'c', 'r') else 'n'
        PickleProxy.armed = None
        if f[0] == 'u':
            PickleProxy.armed = ('us', 'rc', 'gs', 'dc', 'sc', 'st')[int(f[1])]

    def compile(self, w, meth, db, us, gs, rc, dc, sc, f):
        q = self.set_queue([w])
        if not q:
            return 'nw'
        Ctl.ret_state = meth == 'c1'
        Ctl.log = []
        Ctl.msgs = []
        self.arm(f)
        name = {'c1': 'compile', 'c0': 'compile', 'nb': 'compile_notebook', 'sq': 'compile_sql',
                'gq': 'compile_graphql'}[meth]
        try:
            res = self.loop.run_until_complete(getattr(self.pool, name)(
                db, obj('us', us), obj('gs', gs), obj('rc', rc), obj('dc', dc), obj('sc', sc),
                b'req', 'text'))
            if name == 'compile':
                ps = res[1]
                if ps is not None:
                    self.states[pickle.loads(ps).sid] = ps
                r = 'ok:%d' % (0 if ps is None else pickle.loads(ps).sid)
            else:
                r = 'ok:0'
        except Exception as e:
            if os.environ.get('C17_DEBUG'):
                import traceback
                traceback.print_exc()
            r = 'E' + err_name(e)
        return r + '|' + self.obs(meth, (us, gs, rc, dc, sc)) + '|x' + self.mask(name) + '|' + self.dump(w)

    def mask(self, name):
        if len(Ctl.msgs) != 1 or Ctl.msgs[0][0] != name or len(Ctl.msgs[0][1]) != 8:
            return '?%d' % len(Ctl.msgs)
        a = Ctl.msgs[0][1]
        return ''.join('0' if v is None else '1' for v in a[1:6])

    def obs(self, meth, supplied):
        """what the compiler entry point saw; '!...' = monitor failure text"""
        log = Ctl.log
        cs = [e for e in log if e[0] == 'C']
        gsx = [e for e in log if e[0] == 'G']
        if not cs and not gsx:
            return '-'
        out = ''
        if cs:
            out = 'C' + ','.join(map(str, cs[-1][1:]))
        else:
            out = 'g'
        if gsx:
            # graphql.compile_graphql(std, us, gs, dc, sc) must see the same values
            g = gsx[-1][1:]
            if cs and (g[0], g[1], g[2], g[3]) != (cs[-1][1], cs[-1][2], cs[-1][4], cs[-1][5]):
                out += '!gql-args-differ'
        if len(cs) > 1:
            out += '!entered-twice'
        return out

    def compile_tx(self, avail, db, us, ps, f):
        q = self.set_queue(avail)
        if not q:
            return 'nw'
        Ctl.log = []
        Ctl.msgs = []
        self.arm(f)
        if ps == 0:
            pso = None
        else:
            pso = self.states.get(ps)
            if pso is None:
                pso = pickle.dumps(CState(ps), -1)      # a state this server never got back from a worker
        before = {id(sw): sw for sw in q}
        try:
            res = self.loop.run_until_complete(self.pool.compile_in_tx(
                db, obj('us', us), 7, pso, 0, b'req', 'text', False))
            sid = pickle.loads(res[1]).sid
            self.states[sid] = res[1]
            r = 'ok:%d' % sid
        except Exception as e:
            if os.environ.get('C17_DEBUG'):
                import traceback
                traceback.print_exc()
            r = 'E' + err_name(e)
        # which worker served: the one the real queue handed out (it is put back at the end)
        qq = self.pool._workers_queue._queue
        served = qq[-1] if qq else None
        w = self.name_of(served)
        ts = [e for e in Ctl.log if e[0] == 'T']
        o = 'T%d,%d' % ts[-1][1:] if ts else '-'
        if len(Ctl.msgs) == 1 and Ctl.msgs[0][0] == 'compile_in_tx':
            mk = 'm1' if Ctl.msgs[0][1][2] == st_mod.REUSE_LAST_STATE_MARKER else 'm0'
        else:
            mk = 'm?%d' % len(Ctl.msgs)
        return r + '|' + o + '|' + mk + '|w%d ' % w + self.dump(w)


# ---------------------------------------------------------------- multi tenant system
class MTSystem(System):
    """MultiTenantPool + multitenant_worker.py.  ops:
         R w | C w1,w2 cid m db us gs rc dc sc f | T w1,w2 cid db us ps f | D cid
       output: one JSON list per history (monitors only, no model)"""

    def restart(self, w):
        pool = self.pool
        old = self.pid_of.pop(w, None)
        if old is not None:
            pool.worker_disconnected(old)
            pool._server.procs.pop(old).free()
        pid = self.next_pid
        self.next_pid += 1
        pool._server.procs[pid] = Proc()
        Ctl.fault = 'n'
        PickleProxy.armed = None
        self.loop.run_until_complete(pool._attach_worker(pid))
        self.pid_of[w] = pid
        return {'res': 'ok', 'w': w, 'dump': self.mdump(w)}

    def mdump(self, w):
        pid = self.pid_of.get(w)
        if pid is None or pid not in self.pool._workers:
            return None
        sw = self.pool._workers[pid]
        m = self.pool._server.procs[pid].mod
        last = sw._last_pickled_state
        srv = {}
        for cid, ts in sw._cache.items():
            srv[str(cid)] = {'pending_invalidation': cid in sw._invalidated_clients,
                             'gs': ident('gs', ts.global_schema_pickle), 'sc': ident('sc', ts.system_config),
                             'dbs': {str(db): [ident('us', d.user_schema_pickle), ident('rc', d.reflection_cache),
                                               ident('dc', d.database_config)] for db, d in ts.dbs.items()}}
        wk = {}
        for cid, cs in m.clients.items():
            wk[str(cid)] = {'gs': code('gs', cs.global_schema), 'sc': code('sc', cs.instance_config),
                            'dbs': {str(db): [code('us', d.user_schema), code('rc', d.reflection_cache),
                                              code('dc', d.database_config)] for db, d in cs.dbs.items()}}
        ls = m.LAST_STATE
        return {'blast': 0 if last is None else pickle.loads(last).sid, 'srv': srv,
                'wlast': None if ls is None else [ls.sid, code('us', ls.root)], 'wk': wk}

    def mcompile(self, avail, cid, meth, db, us, gs, rc, dc, sc, f):
        q = self.set_queue(avail)
        if not q:
            return {'res': 'nw'}
        before = list(q)
        Ctl.ret_state = meth == 'c1'
        Ctl.log = []
        Ctl.msgs = []
        self.arm(f)
        name = {'c1': 'compile', 'c0': 'compile', 'nb': 'compile_notebook', 'sq': 'compile_sql',
                'gq': 'compile_graphql'}[meth]
        try:
            res = self.loop.run_until_complete(getattr(self.pool, name)(
                db, obj('us', us), obj('gs', gs), obj('rc', rc), obj('dc', dc), obj('sc', sc),
                b'req', 'text', client_id=cid))
            r = 'ok:0'
            if name == 'compile':
                ps = res[1]
                if ps is not None:
                    self.states[pickle.loads(ps).sid] = ps
                    r = 'ok:%d' % pickle.loads(ps).sid
        except Exception as e:
            if os.environ.get('C17_DEBUG'):
                import traceback
                traceback.print_exc()
            r = 'E' + err_name(e)
        w = self.who(before)
        o = self.obs(meth, None)
        return {'res': r, 'obs': o.split('!')[0], 'flags': o.split('!')[1:], 'w': w, 'dump': self.mdump(w),
                'sent': self.mt_sent()}

    def who(self, before):
        """the worker the real queue handed out: the one whose process received the request; if the
        request was lost before reaching a process, the worker released to the front of the queue"""
        if Ctl.msgs:
            for w, pid in self.pid_of.items():
                if self.pool._server.procs.get(pid) is Ctl.served_proc:
                    return w
        after = list(self.pool._workers_queue._queue)
        return self.name_of(after[0]) if after else -1

    def mt_sent(self):
        if len(Ctl.msgs) != 1:
            return None
        name, a = Ctl.msgs[0]
        if name == 'call_for_client':
            ps = a[1]
            if ps is None:
                return {'schema': None, 'invalidation': list(a[2])}
            dbs = None if ps.dbs is None else {str(k): [x is not None for x in v] for k, v in ps.dbs.items()}
            return {'schema': {'dbs': dbs, 'gs': ps.global_schema is not None, 'sc': ps.instance_config is not None},
                    'invalidation': list(a[2])}
        if name == 'compile_in_tx':
            return {'reuse': a[4] == st_mod.REUSE_LAST_STATE_MARKER, 'client': a[1], 'db': a[2], 'us': a[3] is not None}
        return None

    def mtx(self, avail, cid, db, us, ps, f):
        q = self.set_queue(avail)
        if not q:
            return {'res': 'nw'}
        before = list(q)
        Ctl.log = []
        Ctl.msgs = []
        self.arm(f)
        pso = None
        if ps != 0:
            pso = self.states.get(ps)
            if pso is None:
                pso = pickle.dumps(CState(ps), -1)
        try:
            res = self.loop.run_until_complete(self.pool.compile_in_tx(
                db, obj('us', us), 7, pso, 0, b'req', 'text', False, client_id=cid))
            sid = pickle.loads(res[1]).sid
            self.states[sid] = res[1]
            r = 'ok:%d' % sid
        except Exception as e:
            if os.environ.get('C17_DEBUG'):
                import traceback
                traceback.print_exc()
            r = 'E' + err_name(e)
        qq = self.pool._workers_queue._queue
        w = self.name_of(qq[-1]) if qq else -1
        ts = [e for e in Ctl.log if e[0] == 'T']
        o = 'T%d,%d' % ts[-1][1:] if ts else '-'
        return {'res': r, 'obs': o, 'flags': [], 'w': w, 'dump': self.mdump(w), 'sent': self.mt_sent()}

    def drop(self, cid):
        self.pool.drop_tenant(cid)
        return {'res': 'ok'}


def run_history_mt(loop, line):
    import json
    s = MTSystem(loop)
    out = []
    try:
        n = 0
        for part in line.split(';'):
            p = part.split()
            if not p:
                continue
            n += 1
            Ctl.nxt = n
            if p[0] == 'R':
                out.append(s.restart(int(p[1])))
            elif p[0] == 'C':
                avail = [int(x) for x in p[1].split(',')]
                out.append(s.mcompile(avail, int(p[2]), p[3], *[int(x) for x in p[4:10]], p[10]))
            elif p[0] == 'T':
                avail = [int(x) for x in p[1].split(',')]
                out.append(s.mtx(avail, int(p[2]), int(p[3]), int(p[4]), int(p[5]), p[6]))
            elif p[0] == 'D':
                out.append(s.drop(int(p[1])))
            else:
                raise ValueError(part)
    finally:
        s.close()
    return json.dumps(out, separators=(',', ':'))


def run_history(loop, line):
    s = System(loop)
    out = []
    try:
        n = 0
        for part in line.split(';'):
            p = part.split()
            if not p:
                continue
            n += 1
            Ctl.nxt = n            # identity of a state produced by this request = its position
            if p[0] == 'R':
                dbs = []
                if len(p) > 4:
                    for d in p[4].split(','):
                        dbs.append(tuple(int(x) for x in d.split(':')))
                out.append(s.restart(int(p[1]), int(p[2]), int(p[3]), dbs))
            elif p[0] == 'C':
                out.append(s.compile(int(p[1]), p[2], *[int(x) for x in p[3:9]], p[9]))
            elif p[0] == 'T':
                avail = [int(x) for x in p[1].split(',')]
                out.append(s.compile_tx(avail, int(p[2]), int(p[3]), int(p[4]), p[5]))
            else:
                raise ValueError(part)
    finally:
        s.close()
    return ' ; '.join(out)


def main():
    loop = asyncio.new_event_loop()
    import logging
    logging.disable(logging.CRITICAL)
    out = []
    if MODE == 'mt':
        runner = lambda l: run_history_mt(loop, l)
    else:
        runner = lambda l: run_history(loop, l)
    for line in sys.stdin:
        line = line.rstrip('\n')
        if not line.strip():
            out.append('')
            continue
        out.append(runner(line))
    sys.stdout.write('\n'.join(out) + '\n')


if __name__ == '__main__':
    main()
