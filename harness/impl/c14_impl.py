"""C14 implementation driver: runs the REAL edb/server/compiler/sertypes.py.

Usage:  python c14_impl.py <repo> [mode]      one case per stdin line -> one result line

The EdgeQL compiler cannot run here (no std schema), so this tier drives sertypes
through the entry points the compiler itself calls
    sertypes.describe(schema, typ, view_shapes, view_shapes_metadata, protocol_version=...,
                      inline_typenames=..., follow_links=..., name_filter=...)
    sertypes.describe_params(schema=..., params=[(name, type, required)], protocol_version=...)
    sertypes.describe_input_shape(type, input_shapes, ctx=Context(...))
    sertypes.parse(bytes, protocol_version)
on REAL schema objects (edb.schema ScalarType / Tuple / Array / Range / MultiRange /
ObjectType (+ derived view types) / Property / Link) that are created directly in a
FlatSchema with Object.create_in_schema from a generated *type term*.

Case line grammar (tokens separated by one blank; strings are hex of UTF-8, '-' = empty):
  D <pv> <inline01> <follow01> <filter> [@<n>] <ty>       describe()  (@n: first view-name number)
  P <pv> <n> (<name> <req01> <ty>)*                        describe_params()
  I <pv> <ty>                                              describe_input_shape() (ty = i-term)
  X <pv> <hexbytes>                                        parse() on raw bytes
  S <nset> (<name> <kind> <setof01> <affects01> <system01>)* <ncalls> <call>*
                                                           a SEQUENCE of calls on ONE StateSerializerFactory
     call := M <pv> <ng> (<gname> <req01> <multi01> <ty>)* <ne> (<pname> <kind> <multi01>)*   factory.make()
           | K                                              make_compilation_config_serializer()
           | P <pv> <n> (<name> <req01> <ty>)*              describe_params() in between
     kind := str | int64 | bool
  ty  := s <sc> | t <named01> <pers01> <name> <n> (<elname> <ty>)* | a <pers01> <name> <ty>
       | r <pers01> <name> <ty> | m <pers01> <name> <ty> | o <sh>
       | i <basename> <n> (<elname> <card> <ty>)*          (input shape; card in o A m M)
  sc  := <id32hex> <name> <abstract01> <n> <sc>* <k> <label>*
  sh  := <ot> <free01> <implicit01> <n> <ptr>* <k> <ptr>*
  ptr := <name> <link01> <req01> <multi01> <ty> <ot>
  ot  := R <id32hex> <name> | C <id32hex> <name> <n> <ot>* <k> <ot>*
  pv  := <major>.<minor>

Result line:   <observed-case> '\t' <result> '\t' <parse> ('\t!' <monitor failure>)*
  observed-case : the case re-read from the real schema objects through the getters that
                  sertypes itself uses (this is what the Coq model is run on)
  result        : ok <hex stream> <hex id>   |  err <ExceptionClass>
  parse         : ok <canonical TypeDesc>    |  err <ExceptionClass>  |  -
"""
import os
import sys

REPO = sys.argv[1] if len(sys.argv) > 1 else '/repo'
os.environ['VRT_REPO'] = REPO
sys.setrecursionlimit(20000)

HERE = os.path.dirname(os.path.abspath(__file__))
sys.path.insert(0, os.path.join(os.path.dirname(HERE), 'rt'))
if REPO not in sys.path:
    sys.path.insert(0, REPO)


def _install_stubs():
    try:
        import vrt
        vrt.install()
        return 'vrt'
    except Exception:       # pragma: no cover - fallback when the substrate is broken
        import importlib.abc, importlib.machinery, types, uuid as _uuid

        class _U(_uuid.UUID):
            __slots__ = ()

            def __init__(self, inp):
                if isinstance(inp, (bytes, bytearray, memoryview)):
                    super().__init__(bytes=bytes(inp))
                elif isinstance(inp, _uuid.UUID):
                    super().__init__(int=inp.int)
                else:
                    super().__init__(hex=inp)

            def __reduce__(self):
                return (type(self), (self.bytes,))

        class _Any:
            def __init__(self, *a, **k): pass
            def __call__(self, *a, **k):
                return a[0] if len(a) == 1 and callable(a[0]) and not k else _Any()
            def __getattr__(self, n):
                if n.startswith('__'):
                    raise AttributeError(n)
                return _Any()
            def __iter__(self): return iter(())
            def __mro_entries__(self, bases): return (object,)
            def __getitem__(self, k): return self
            def __or__(self, o): return self
            __ror__ = __or__

        class _M(types.ModuleType):
            def __getattr__(self, n):
                if n.startswith('__'):
                    raise AttributeError(n)
                v = _Any()
                setattr(self, n, v)
                return v

        names = ('edb._edgeql_parser', 'edb.common.turbo_uuid', 'edb.server._rust_native',
                 'edb.pgsql.parser.parser', 'uvloop', 'graphql', 'setproctitle', 'parsing',
                 'edb.server.pgproto', 'edb.server.compiler.rpc')

        class _F(importlib.abc.MetaPathFinder, importlib.abc.Loader):
            def find_spec(self, fullname, path=None, target=None):
                if any(fullname == n or fullname.startswith(n + '.') for n in names):
                    return importlib.machinery.ModuleSpec(fullname, self, is_package=True)
                return None

            def create_module(self, spec):
                m = _M(spec.name)
                m.__path__ = []
                if spec.name == 'edb.common.turbo_uuid':
                    m.UUID = _U
                return m

            def exec_module(self, module): pass
        sys.meta_path.append(_F())
        return 'local'


STUBS = _install_stubs()

import edb  # noqa: E402
assert os.path.realpath(edb.__path__[0]).startswith(os.path.realpath(REPO)), edb.__path__

import struct  # noqa: E402
import immutables  # noqa: E402
from edb.server.compiler import sertypes  # noqa: E402
from edb.server.compiler import enums as c_enums  # noqa: E402
from edb.schema import schema as s_schema, scalars as s_scalars, types as s_types  # noqa: E402
from edb.schema import name as sn, objects as so, objtypes as s_objtypes  # noqa: E402
from edb.schema import links as s_links, properties as s_props, modules as s_mod  # noqa: E402
from edb.common import uuidgen  # noqa: E402
from edb.edgeql import qltypes  # noqa: E402
from edb.ir import ast as irast  # noqa: E402

assert sertypes.__file__.startswith(os.path.realpath(REPO)) or sertypes.__file__.startswith(REPO)

UUID = uuidgen.UUID


# ------------------------------------------------------------------ term syntax

def hx(s: str) -> str:
    b = s.encode('utf-8')
    return b.hex() if b else '-'


def unhx(t: str) -> str:
    return '' if t == '-' else bytes.fromhex(t).decode('utf-8')


class Toks:
    def __init__(self, line):
        self.t = line.split(' ')
        self.i = 0

    def next(self):
        v = self.t[self.i]
        self.i += 1
        return v

    def flag(self):
        return self.next() == '1'

    def num(self):
        return int(self.next())

    def s(self):
        return unhx(self.next())

    def end(self):
        return self.i >= len(self.t)


def p_sc(k):
    i = k.next(); name = k.s(); ab = k.flag()
    anc = [p_sc(k) for _ in range(k.num())]
    labels = [k.s() for _ in range(k.num())]
    return (i, name, ab, anc, labels)


def p_ot(k):
    tag = k.next()
    if tag == 'R':
        return ('R', k.next(), k.s())
    assert tag == 'C', tag
    i = k.next(); name = k.s()
    un = [p_ot(k) for _ in range(k.num())]
    it = [p_ot(k) for _ in range(k.num())]
    return ('C', i, name, un, it)


def p_ptr(k):
    name = k.s(); link = k.flag(); req = k.flag(); multi = k.flag()
    ty = p_ty(k)
    return (name, link, req, multi, ty, p_ot(k))


def p_sh(k):
    ot = p_ot(k); free = k.flag(); impl = k.flag()
    ptrs = [p_ptr(k) for _ in range(k.num())]
    lps = [p_ptr(k) for _ in range(k.num())]
    return (ot, free, impl, ptrs, lps)


def p_ty(k):
    tag = k.next()
    if tag == 's':
        return ('s', p_sc(k))
    if tag == 't':
        named = k.flag(); pers = k.flag(); name = k.s()
        els = [(k.s(), p_ty(k)) for _ in range(k.num())]
        return ('t', named, pers, name, els)
    if tag in 'arm':
        pers = k.flag(); name = k.s()
        return (tag, pers, name, p_ty(k))
    if tag == 'o':
        return ('o', p_sh(k))
    if tag == 'i':
        base = k.s()
        els = []
        for _ in range(k.num()):
            nm = k.s(); c = k.next(); els.append((nm, c, p_ty(k)))
        return ('i', base, els)
    raise ValueError('bad type tag ' + tag)


def e_sc(sc):
    i, name, ab, anc, labels = sc
    return ' '.join([i, hx(name), '1' if ab else '0', str(len(anc))] + [e_sc(a) for a in anc]
                    + [str(len(labels))] + [hx(x) for x in labels])


def e_ot(ot):
    if ot[0] == 'R':
        return f'R {ot[1]} {hx(ot[2])}'
    _, i, name, un, it = ot
    return ' '.join(['C', i, hx(name), str(len(un))] + [e_ot(x) for x in un]
                    + [str(len(it))] + [e_ot(x) for x in it])


def e_ptr(p):
    name, link, req, multi, ty, ot = p
    b = lambda x: '1' if x else '0'
    return ' '.join([hx(name), b(link), b(req), b(multi), e_ty(ty), e_ot(ot)])


def e_sh(sh):
    ot, free, impl, ptrs, lps = sh
    b = lambda x: '1' if x else '0'
    return ' '.join([e_ot(ot), b(free), b(impl), str(len(ptrs))] + [e_ptr(p) for p in ptrs]
                    + [str(len(lps))] + [e_ptr(p) for p in lps])


def e_ty(ty):
    b = lambda x: '1' if x else '0'
    tag = ty[0]
    if tag == 's':
        return 's ' + e_sc(ty[1])
    if tag == 't':
        _, named, pers, name, els = ty
        return ' '.join(['t', b(named), b(pers), hx(name), str(len(els))]
                        + [hx(n) + ' ' + e_ty(t) for n, t in els])
    if tag in 'arm':
        _, pers, name, el = ty
        return ' '.join([tag, b(pers), hx(name), e_ty(el)])
    if tag == 'o':
        return 'o ' + e_sh(ty[1])
    if tag == 'i':
        _, base, els = ty
        return ' '.join(['i', hx(base), str(len(els))] + [f'{hx(n)} {c} {e_ty(t)}' for n, c, t in els])
    raise ValueError(tag)


def parse_pv(s):
    a, b = s.split('.')
    return (int(a), int(b))


# ------------------------------------------------------------------ base schema

Q = sn.QualName
ANYSCALAR_ID = '00000000000000000000000000000a01'


def base_schema():
    schema = s_schema.EMPTY_SCHEMA
    for m in ('std', 'default', '__derived__', '__', 'cfg', 'std::cal', 'ext'):
        schema, _ = s_mod.Module.create_in_schema(schema, name=sn.UnqualName(m))
    schema, anys = s_scalars.ScalarType.create_in_schema(
        schema, id=UUID(ANYSCALAR_ID), name=Q('std', 'anyscalar'), abstract=True)
    schema, _ = s_scalars.ScalarType.create_in_schema(
        schema, name=Q('std', 'uuid'), bases=[anys], ancestors=[anys])
    schema, _ = s_objtypes.ObjectType.create_in_schema(
        schema, id=UUID('00000000000000000000000000000b01'), name=Q('std', 'BaseObject'), abstract=True)
    schema, _ = s_objtypes.ObjectType.create_in_schema(
        schema, id=UUID('00000000000000000000000000000b02'), name=Q('std', 'FreeObject'))
    return schema


BASE = base_schema()
FREE_ID = '00000000000000000000000000000b02'


class Inconsistent(Exception):
    pass


def qname(name: str):
    if '::' in name:
        mod, _, nm = name.rpartition('::')
        return Q(mod, nm)
    raise Inconsistent('unqualified schema object name ' + name)


class Builder:
    """Realises a term as real schema objects in a fresh FlatSchema derived from BASE."""

    def __init__(self, schema=None):
        self.schema = BASE if schema is None else schema
        self.view_shapes = {}
        self.md = {}
        self.n = 0
        self.modules = {'std', 'default', '__derived__', '__', 'cfg', 'std::cal', 'ext'}
        self.input_shapes = {}

    def fresh(self, p):
        self.n += 1
        return f'{p}{self.n}'

    def need_module(self, mod):
        if mod not in self.modules:
            self.schema, _ = s_mod.Module.create_in_schema(self.schema, name=sn.UnqualName(mod))
            self.modules.add(mod)

    def scalar(self, sc):
        i, name, ab, anc, labels = sc
        uid = UUID(i)
        ex = self.schema.get_by_id(uid, default=None)
        if ex is not None:
            if not isinstance(ex, s_scalars.ScalarType) or str(ex.get_name(self.schema)) != name:
                raise Inconsistent(f'id {i} reused')
            return ex
        ancs = [self.scalar(a) for a in anc]
        qn = qname(name)
        self.need_module(qn.module)
        kw = dict(id=uid, name=qn, abstract=ab, bases=ancs[:1], ancestors=ancs)
        if labels:
            kw['enum_values'] = labels
        self.schema, obj = s_scalars.ScalarType.create_in_schema(self.schema, **kw)
        return obj

    def objtype(self, ot, free=False):
        uid = UUID(ot[1])
        ex = self.schema.get_by_id(uid, default=None)
        if ex is not None:
            if not isinstance(ex, s_objtypes.ObjectType) or str(ex.get_name(self.schema)) != ot[2]:
                raise Inconsistent(f'id {ot[1]} reused')
            return ex
        qn = qname(ot[2])
        self.need_module(qn.module)
        kw = dict(id=uid, name=qn)
        if ot[0] == 'C':
            un = [self.objtype(c) for c in ot[3]]
            it = [self.objtype(c) for c in ot[4]]
            if un:
                kw['union_of'] = so.ObjectSet.create(self.schema, un)
            if it:
                kw['intersection_of'] = so.ObjectSet.create(self.schema, it)
            kw['abstract'] = True
        if free:
            fo = self.schema.get('std::FreeObject')
            kw['bases'] = [fo]
            kw['ancestors'] = [fo]
        self.schema, obj = s_objtypes.ObjectType.create_in_schema(self.schema, **kw)
        return obj

    def pointer(self, cls, source, nm, target, req, multi, base=None):
        srcname = source.get_name(self.schema)
        pname = Q(srcname.module if isinstance(srcname, sn.QualName) else '__',
                  sn.get_specialized_name(Q('__', nm), str(srcname)))
        if self.schema.get(pname, default=None) is not None:
            pname = Q(pname.module, pname.name + '@' + self.fresh('d'))
        C = qltypes.SchemaCardinality
        kw = dict(name=pname, source=source, target=target,
                  cardinality=C.Many if multi else C.One, required=req)
        if base is not None:
            kw.update(bases=[base], ancestors=[base], is_derived=True)
        self.schema, p = cls.create_in_schema(self.schema, **kw)
        return p

    def shape(self, sh, rptr_needed=True):
        ot, free, impl, ptrs, lps = sh
        if free and ot[1] == FREE_ID:
            mt = self.schema.get('std::FreeObject')
        else:
            mt = self.objtype(ot, free=free)
            if mt.is_free_object_type(self.schema) != free:
                raise Inconsistent('free flag differs from an earlier use of the same object type')
        self.schema, view = s_objtypes.ObjectType.create_in_schema(
            self.schema, name=Q('__derived__', self.fresh('view')),
            bases=[mt], ancestors=[mt] + list(mt.get_ancestors(self.schema).objects(self.schema)),
            is_derived=True, from_alias=True)
        vps = []
        for (nm, link, req, multi, ty, src) in ptrs:
            cls = s_links.Link if link else s_props.Property
            tgt = self.ty(ty)
            srct = self.objtype(src) if not (src[1] == FREE_ID) else self.schema.get('std::FreeObject')
            bp = self.pointer(cls, srct, nm, tgt, req, multi)
            vp = self.pointer(cls, view, nm, tgt, req, multi, base=bp)
            vps.append(vp)
        if vps:
            self.view_shapes[view] = vps
        if impl:
            self.md[view] = irast.ViewShapeMetadata(has_implicit_id=True)
        if lps:
            # a link that points at this view and carries the link properties
            holder = self.objtype(('R', '00000000000000000000000000000b03', 'default::LinkHolder'))
            rl = self.pointer(s_links.Link, holder, self.fresh('rl'), view, False, True)
            self.schema = view.set_field_value(self.schema, 'rptr', rl)
            lpp = []
            for (nm, link, req, multi, ty, src) in lps:
                tgt = self.ty(ty)
                lpp.append(self.pointer(s_props.Property, rl, nm, tgt, req, multi))
            self.view_shapes[rl] = lpp
        return view

    def ty(self, t):
        tag = t[0]
        if tag == 's':
            return self.scalar(t[1])
        if tag == 'o':
            return self.shape(t[1])
        if tag == 't':
            _, named, pers, name, els = t
            ets = {}
            for n, e in els:
                if n in ets:
                    raise Inconsistent('duplicate tuple element name')
                ets[n] = self.ty(e)
            kw = {}
            if pers:
                kw['is_persistent'] = True
            self.schema, r = s_types.Tuple.create(self.schema, element_types=ets, named=named, **kw)
            return r
        if tag in 'arm':
            _, pers, name, el = t
            cls = {'a': s_types.Array, 'r': s_types.Range, 'm': s_types.MultiRange}[tag]
            kw = {}
            if pers:
                kw['is_persistent'] = True
            elt = self.ty(el)
            self.schema, r = cls.create(self.schema, element_type=elt, **kw)
            return r
        if tag == 'i':
            _, base, els = t
            if base == 'std::FreeObject':
                mt = self.schema.get('std::FreeObject')
            else:
                mt = self.objtype(('R', uuidgen.uuid5(so.TYPE_ID_NAMESPACE, 'c14-input-' + base).hex, base))
            self.schema, view = s_objtypes.ObjectType.create_in_schema(
                self.schema, name=Q('__derived__', self.fresh('input')),
                bases=[mt], ancestors=[mt], is_derived=True, from_alias=True)
            cm = {'o': c_enums.Cardinality.AT_MOST_ONE, 'A': c_enums.Cardinality.ONE,
                  'm': c_enums.Cardinality.MANY, 'M': c_enums.Cardinality.AT_LEAST_ONE}
            self.input_shapes[view] = tuple((n, self.ty(e), cm[c]) for n, c, e in els)
            return view
        raise ValueError(tag)


# ------------------------------------------------------------------ observation
# Re-reads a case from the real objects with the getters sertypes uses.

CARD_CH = {c_enums.Cardinality.AT_MOST_ONE: 'o', c_enums.Cardinality.ONE: 'A',
           c_enums.Cardinality.MANY: 'm', c_enums.Cardinality.AT_LEAST_ONE: 'M'}


class Observer:
    def __init__(self, schema, view_shapes, md, input_shapes=None):
        self.schema = schema
        self.vs = view_shapes
        self.md = md
        self.ins = input_shapes or {}

    def sc(self, t):
        s = self.schema
        _, t = t.material_type(s)
        ev = t.get_enum_values(s)
        return (t.id.hex, str(t.get_name(s)), bool(t.get_abstract(s)),
                [self.sc(a) for a in t.get_ancestors(s).objects(s)], list(ev) if ev else [])

    def ot(self, t):
        s = self.schema
        if t.is_compound_type(s):
            return ('C', t.id.hex, str(t.get_name(s)),
                    [self.ot(c) for c in t.get_union_of(s).objects(s)],
                    [self.ot(c) for c in t.get_intersection_of(s).objects(s)])
        return ('R', t.id.hex, str(t.get_name(s)))

    def ptr(self, p, mt):
        s = self.schema
        _, mp = p.material_type(s)
        src = mp.get_source(s)
        if isinstance(src, s_objtypes.ObjectType):
            _, src = src.material_type(s)
            srct = self.ot(src)
        else:
            srct = self.ot(mt)       # link properties: sertypes uses the shape's material type
        tgt = p.get_target(s)
        card = sertypes.cardinality_from_ptr(p, s)
        req = card in (c_enums.Cardinality.ONE, c_enums.Cardinality.AT_LEAST_ONE)
        return (p.get_shortname(s).name, isinstance(p, s_links.Link), req, not p.singular(s),
                self.ty(tgt), srct)

    def sh(self, t):
        s = self.schema
        _, mt = t.material_type(s)
        m = self.md.get(t)
        impl = m is not None and m.has_implicit_id
        ptrs = [self.ptr(p, mt) for p in self.vs.get(t, ())]
        rptr = t.get_rptr(s)
        lps = []
        if rptr is not None and self.vs.get(rptr):
            lps = [self.ptr(p, mt) for p in self.vs.get(rptr)]
        return (self.ot(mt), bool(t.is_free_object_type(s)), bool(impl), ptrs, lps)

    def ty(self, t):
        s = self.schema
        if t in self.ins:
            _, mt = t.material_type(s)
            return ('i', str(mt.get_name(s)), [(n, CARD_CH[c], self.ty(st)) for n, st, c in self.ins[t]])
        if isinstance(t, s_scalars.ScalarType):
            return ('s', self.sc(t))
        if isinstance(t, s_types.Tuple):
            named = bool(t.is_named(s))
            names = list(t.get_element_names(s))
            sts = list(t.get_subtypes(s))
            return ('t', named, bool(t.get_is_persistent(s)), str(t.get_name(s)),
                    [(n, self.ty(x)) for n, x in zip(names, sts)])
        for tag, cls in (('a', s_types.Array), ('r', s_types.Range), ('m', s_types.MultiRange)):
            if isinstance(t, cls):
                (st,) = t.get_subtypes(s)
                return (tag, bool(t.get_is_persistent(s)), str(t.get_name(s)), self.ty(st))
        if isinstance(t, s_objtypes.ObjectType):
            return ('o', self.sh(t))
        raise ValueError(f'cannot observe {t!r}')


# ------------------------------------------------------------------ canonical TypeDesc

def cn(s):
    return '-' if s is None else ('~' + s.encode('utf-8').hex())


def cb(b):
    return '-' if b is None else ('1' if b else '0')


def canon(d, memo, wild=False):
    k = id(d)
    if k in memo:
        return memo[k]
    T = sertypes
    C = lambda x, m: canon(x, m, wild)
    L = lambda xs: '-' if xs is None else '[' + ','.join(C(x, memo) for x in xs) + ']'
    tid = d.tid.hex
    if isinstance(d, T.SetDesc):
        r = f'Set({tid},{C(d.subtype, memo)})'
    elif isinstance(d, T.ObjectDesc):
        r = f'Obj({tid},{cn(d.name)},{cb(d.schema_defined)})'
    elif isinstance(d, T.CompoundDesc):
        r = f'Cmp({tid},{cn(d.name)},{cb(d.schema_defined)},{int(d.op)},{L(d.components)})'
    elif isinstance(d, T.ShapeDesc):
        els = []
        for name, sub in d.fields.items():
            src = d.sources.get(name)
            card = d.cardinalities.get(name)
            if wild and d.type is None and src is not None:
                srcs = '*'
            else:
                srcs = C(src, memo) if src is not None else '-'
            els.append(f'{cn(name)}:{d.flags[name]}:{card.value if card is not None else "-"}:'
                       f'{C(sub, memo)}:{srcs}')
        r = f'Shp({tid},{C(d.type, memo) if d.type is not None else "-"},[{",".join(els)}])'
    elif isinstance(d, T.InputShapeDesc):
        fl = ','.join(f'{cn(n)}:{C(s, memo)}' for n, s in d.fields_list)
        els = []
        for name, (idx, sub) in d.fields.items():
            card = d.cardinalities.get(name)
            els.append(f'{cn(name)}:{idx}:{d.flags[name]}:{card.value if card is not None else "-"}')
        r = f'Inp({tid},[{fl}],[{",".join(els)}])'
    elif isinstance(d, T.ScalarDesc):
        r = (f'Sca({tid},{cn(d.name)},{cb(d.schema_defined)},'
             f'{C(d.fundamental_type, memo) if d.fundamental_type is not None else "-"},{L(d.ancestors)})')
    elif isinstance(d, T.BaseScalarDesc):
        r = f'Bas({tid})'
    elif isinstance(d, T.TupleDesc):
        r = f'Tup({tid},{cn(d.name)},{cb(d.schema_defined)},{L(d.ancestors)},{L(d.fields)})'
    elif isinstance(d, T.NamedTupleDesc):
        els = ','.join(f'{cn(n)}:{C(s, memo)}' for n, s in d.fields.items())
        r = f'Ntp({tid},{cn(d.name)},{cb(d.schema_defined)},{L(d.ancestors)},[{els}])'
    elif isinstance(d, T.EnumDesc):
        r = (f'Enm({tid},{cn(d.name)},{cb(d.schema_defined)},{L(d.ancestors)},'
             f'[{",".join(cn(x) for x in d.names)}])')
    elif isinstance(d, T.ArrayDesc):
        r = f'Arr({tid},{cn(d.name)},{cb(d.schema_defined)},{L(d.ancestors)},{C(d.subtype, memo)})'
    elif isinstance(d, T.MultiRangeDesc):
        r = f'Mrg({tid},{cn(d.name)},{cb(d.schema_defined)},{L(d.ancestors)},{C(d.inner, memo)})'
    elif isinstance(d, T.RangeDesc):
        r = f'Rng({tid},{cn(d.name)},{cb(d.schema_defined)},{L(d.ancestors)},{C(d.inner, memo)})'
    else:
        r = f'?{type(d).__name__}'
    memo[k] = r
    return r


def run_parse(data: bytes, pv, wild=False):
    try:
        d = sertypes.parse(data, pv)
    except RecursionError:
        raise
    except BaseException as e:     # noqa
        return 'err ' + type(e).__name__
    return 'ok ' + canon(d, {}, wild)


# ------------------------------------------------------------------ expected description
# Independent of the Coq model AND of sertypes: what the property says the descriptor
# must decode to, computed from the (observed) term.  Rendered in the same syntax as canon().

KNOWN_UUID = '00000000000000000000000000000100'
KNOWN_STR = '00000000000000000000000000000101'
EMPTY_TUPLE = '000000000000000000000000000000ff'
CARDV = {'o': 0x6f, 'A': 0x41, 'm': 0x6d, 'M': 0x4d}
NS = so.TYPE_ID_NAMESPACE


def h5(s: str) -> str:
    import hashlib
    import uuid
    d = hashlib.sha1(bytes.fromhex('00e50276250211e797f227fe51238dbd') + s.encode('utf-8')).digest()
    return uuid.UUID(bytes=d[:16], version=5).hex


def dashed(h):
    return f'{h[:8]}-{h[8:12]}-{h[12:16]}-{h[16:20]}-{h[20:]}'


class Expect:
    """expected (id, description) of a term; v2 = protocol >= 2.0"""

    def __init__(self, v2, follow=True, flt='', uuid_sc=None):
        self.v2 = v2
        self.follow = follow
        self.flt = flt
        self.uuid_sc = uuid_sc
        self.tags = {}      # entity id -> descriptor tag of docs/reference/reference/protocol/typedesc.rst

    def _t(self, i, tag):
        self.tags[i] = tag

    def fundamental(self, sc):
        i, name, ab, anc, labels = sc
        for a in reversed(anc):
            if not a[2]:
                return a
        return None if ab else sc

    def sc(self, sc):
        i, name, ab, anc, labels = sc
        fund = self.fundamental(sc)
        if labels:
            if self.v2:
                al = []
                if fund is not None and fund[0] != i:
                    for a in anc:
                        al.append(a)
                        if a[0] == fund[0]:
                            break
                elif fund is None:
                    raise KeyError('no concrete base')
                ad = '[' + ','.join(self.sc(a)[1] for a in al) + ']'
                self._t(i, 7)
                return i, f'Enm({i},{cn(name)},1,{ad},[{",".join(cn(x) for x in labels)}])'
            self._t(i, 7)
            return i, f'Enm({i},-,-,-,[{",".join(cn(x) for x in labels)}])'
        if fund is None:
            raise KeyError('no concrete base')
        if self.v2:
            al = []
            if fund[0] != i:
                for a in anc:
                    al.append(a)
                    if a[0] == fund[0]:
                        break
            ads = [self.sc(a)[1] for a in al]
            self._t(i, 3)
            return i, f'Sca({i},{cn(name)},1,{ads[-1] if ads else "-"},[{",".join(ads)}])'
        if fund[0] == i:
            self._t(i, 2)
            return i, f'Bas({i})'
        self._t(i, 3)
        return i, f'Sca({i},-,-,{self.sc(fund)[1]},-)'

    def ot(self, ot):
        if ot[0] == 'R':
            self._t(ot[1], 10)
            return ot[1], f'Obj({ot[1]},{cn(ot[2])},1)'
        _, i, name, un, it = ot
        comps, op = (un, 1) if un else (it, 2)
        self._t(i, 11)
        return i, f'Cmp({i},{cn(name)},0,{op},[{",".join(self.ot(c)[1] for c in comps)}])'

    def wrap_set(self, idd):
        i, d = idd
        si = h5('set-of::' + dashed(i))
        self._t(si, 0)
        return si, f'Set({si},{d})'

    def sh(self, sh):
        ot, free, impl, ptrs, lps = sh
        els = []       # (name, flags, card, (id, desc), srcdesc)
        for (nm, link, req, multi, ty, src) in ptrs:
            if not nm.startswith(self.flt):
                continue
            nm = nm[len(self.flt):] if self.flt else nm
            if link and not self.follow:
                sub = self.sc(self.uuid_sc)
            else:
                sub = self.ty(ty)
            if multi:
                sub = self.wrap_set(sub)
            card = {(False, False): 'o', (True, False): 'A', (False, True): 'm', (True, True): 'M'}[(req, multi)]
            els.append((nm, False, link, card, sub, src))
        for (nm, link, req, multi, ty, src) in lps:
            sub = self.ty(ty)
            if multi:
                sub = self.wrap_set(sub)
            card = {(False, False): 'o', (True, False): 'A', (False, True): 'm', (True, True): 'M'}[(req, multi)]
            els.append((nm, True, False, card, sub, ot))
        parts = [ot[2], ':'.join(dashed(e[4][0]) for e in els)]
        if els:
            parts.append(':'.join(e[0] for e in els))
            parts.append(':'.join(chr(CARDV[e[3]]) for e in els))
        sid = '\x00'.join(parts) + f'{impl!r};{[e[1] for e in els]!r};{[e[2] for e in els]!r}'
        i = h5(sid)
        rel = []
        seen = {}
        for (nm, lp, link, card, sub, src) in els:
            flags = (2 if lp else 0) | (4 if link else 0)
            if (impl and nm == 'id') or nm == '__tid__' or nm == '__tname__':
                flags |= 1
            srcd = '-'
            if self.v2:
                # documented: source type of ephemeral free shapes is position 0
                srcd = '*' if free else self.ot(src)[1]
            ent = f'{cn(nm)}:{flags}:{CARDV[card]}:{sub[1]}:{srcd}'
            if nm in seen:
                rel[seen[nm]] = ent
            else:
                seen[nm] = len(rel)
                rel.append(ent)
        typ = '-'
        if self.v2 and not free:
            typ = self.ot(ot)[1]
        self._t(i, 1)
        return i, f'Shp({i},{typ},[{",".join(rel)}])'

    def ty(self, t):
        tag = t[0]
        if tag == 's':
            return self.sc(t[1])
        if tag == 'o':
            return self.sh(t[1])
        if tag == 't':
            _, named, pers, name, els = t
            subs = [self.ty(e) for _, e in els]
            if not subs:
                i = EMPTY_TUPLE
            else:
                sid = 'tuple\x00' + ':'.join(dashed(x[0]) for x in subs)
                if named and els:
                    sid += '\x00' + ':'.join(n for n, _ in els)
                i = h5(sid)
            hdr = f'{cn(name)},{cb(pers)},[]' if self.v2 else '-,-,-'
            self._t(i, 5 if named else 4)
            if named:
                body = ','.join(f'{cn(n)}:{s[1]}' for (n, _), s in zip(els, subs))
                return i, f'Ntp({i},{hdr},[{body}])'
            return i, f'Tup({i},{hdr},[{",".join(s[1] for s in subs)}])'
        if tag in 'arm':
            _, pers, name, el = t
            sub = self.ty(el)
            kind = {'a': 'array', 'r': 'range', 'm': 'multirange'}[tag]
            i = h5(f'{kind}\x00{dashed(sub[0])}')
            self._t(i, {'a': 6, 'r': 9, 'm': 12}[tag])
            hdr = f'{cn(name)},{cb(pers)},[]' if self.v2 else '-,-,-'
            return i, f'{ {"a": "Arr", "r": "Rng", "m": "Mrg"}[tag] }({i},{hdr},{sub[1]})'
        raise ValueError(tag)


# ------------------------------------------------------------------ stream monitors

def split_v2(data: bytes):
    """walk a protocol>=2 stream by its length prefixes -> list of blobs, or None"""
    out = []
    i = 0
    while i < len(data):
        if i + 4 > len(data):
            return None
        (n,) = struct.unpack('!L', data[i:i + 4])
        if i + 4 + n > len(data) or n < 17:
            return None
        out.append(data[i + 4:i + 4 + n])
        i += 4 + n
    return out


def strip_annotations_v1(data: bytes, pv):
    """v1 + inline type names: annotation records (tag 0xff, 16-byte id, len32 string) are
    appended after all descriptors.  Returns the descriptor part, or None."""
    def all_annos(i):
        while i < len(data):
            if data[i] != 0xff or i + 21 > len(data):
                return False
            (ln,) = struct.unpack('!L', data[i + 17:i + 21])
            i += 21 + ln
        return i == len(data)
    for start in range(0, len(data) + 1):
        if all_annos(start) and (start == 0 or run_parse(data[:start], pv).startswith('ok ')):
            return data[:start]
    return None


# ------------------------------------------------------------------ running one case

def errname(e):
    return type(e).__name__


def do_describe(k):
    pv = parse_pv(k.next())
    inline = k.flag(); follow = k.flag(); flt = k.s()
    b = Builder()
    if k.t[k.i].startswith('@'):
        # '@n': start numbering the (compiler-generated, arbitrary) view type names at n
        b.n = int(k.next()[1:])
    term = p_ty(k)
    try:
        typ = b.ty(term)
    except RecursionError:
        raise
    except Exception as e:          # the schema layer refuses to build this type
        return 'D - \tskip ' + (type(e).__name__ + ':' + str(e)).replace(' ', '_')[:80] + '\t-'
    schema = b.schema
    vs = immutables.Map(b.view_shapes)
    md = immutables.Map(b.md)
    ob = Observer(schema, b.view_shapes, b.md)
    oterm = ob.ty(typ)
    uu = ob.sc(schema.get('std::uuid'))
    case = f'D {pv[0]}.{pv[1]} {"1" if inline else "0"} {"1" if follow else "0"} {hx(flt)} {e_sc(uu)} {e_ty(oterm)}'
    bad = []
    try:
        data, tid = sertypes.describe(schema, typ, vs, md, protocol_version=pv,
                                      follow_links=follow, inline_typenames=inline, name_filter=flt)
        res = f'ok {data.hex() or "-"} {tid.hex}'
    except RecursionError:
        raise
    except BaseException as e:      # noqa
        return f'{case}\terr {errname(e)}\t-'
    # determinism: same call again, and through a fresh Context
    data2, tid2 = sertypes.describe(schema, typ, vs, md, protocol_version=pv,
                                    follow_links=follow, inline_typenames=inline, name_filter=flt)
    if (data2, tid2) != (data, tid):
        bad.append('nondeterministic')
    pr = run_parse(data, pv)
    # --- monitors (property predicates on the real output) ---
    v2 = pv >= (2, 0)
    body = data
    if inline and not v2:
        # parse() cannot read annotation records; the documented layout puts them last
        nb = strip_annotations_v1(data, pv)
        if nb is None:
            bad.append('annotation-block-not-a-suffix')
        else:
            body = nb
    exp = Expect(v2, follow, flt, uu)
    try:
        exp_id, exp_desc = exp.ty(oterm)
    except KeyError:
        exp_id = exp_desc = None
    if exp_id is not None:
        if exp_id != tid.hex:
            bad.append('root-id-differs-from-documented-construction')
        got = run_parse(body, pv, wild=True)
        if got.startswith('ok '):
            g = got[3:]
            if g != exp_desc:
                bad.append('decoded-description-differs-from-type')
        else:
            bad.append('descriptor-does-not-decode:' + got[4:])
    if v2:
        blobs = split_v2(data)
        if blobs is None:
            bad.append('v2-length-prefixes-inconsistent')
        else:
            ids = [bl[1:17] for bl in blobs]
            if len(set(ids)) != len(ids):
                bad.append('descriptor-emitted-twice')
            if ids and ids[-1] != tid.bytes:
                bad.append('root-descriptor-not-last')
            if exp_id is not None and any(
                    exp.tags.get(bl[1:17].hex(), bl[0]) != bl[0] for bl in blobs):
                bad.append('descriptor-tag-differs-from-documented-protocol')
    return case + '\t' + res + '\t' + pr + ''.join('\t!' + x for x in bad)


def do_params(k):
    pv = parse_pv(k.next())
    n = k.num()
    b = Builder()
    params = []
    terms = []
    try:
        for _ in range(n):
            nm = k.s(); req = k.flag(); term = p_ty(k)
            params.append((nm, b.ty(term), req))
    except RecursionError:
        raise
    except Exception as e:
        return 'P - \tskip ' + (type(e).__name__ + ':' + str(e)).replace(' ', '_')[:80] + '\t-'
    schema = b.schema
    ob = Observer(schema, b.view_shapes, b.md)
    ops = [(nm, req, ob.ty(t)) for nm, t, req in params]
    case = f'P {pv[0]}.{pv[1]} {len(ops)}' + ''.join(
        f' {hx(nm)} {"1" if req else "0"} {e_ty(t)}' for nm, req, t in ops)
    bad = []
    try:
        data, tid = sertypes.describe_params(schema=schema, params=params, protocol_version=pv)
        res = f'ok {data.hex() or "-"} {tid.hex}'
    except RecursionError:
        raise
    except BaseException as e:      # noqa
        return f'{case}\terr {errname(e)}\t-'
    data2, tid2 = sertypes.describe_params(schema=schema, params=params, protocol_version=pv)
    if (data2, tid2) != (data, tid):
        bad.append('nondeterministic')
    if not params:
        pr = '-'
        if data != b'' or tid.hex != '0' * 32:
            bad.append('empty-params-not-null-descriptor')
        return case + '\t' + res + '\t' + pr + ''.join('\t!' + x for x in bad)
    pr = run_parse(data, pv)
    v2 = pv >= (2, 0)
    # expected: a free-object shape whose elements are the parameters, in order
    ex = Expect(v2)
    try:
        subs = [ex.ty(t) for _, _, t in ops]
    except KeyError:
        subs = None
    if subs is not None:
        cards = ['A' if req else 'o' for _, req, _ in ops]
        parts = ['std::FreeObject', ':'.join(dashed(s[0]) for s in subs),
                 ':'.join(nm for nm, _, _ in ops), ':'.join(chr(CARDV[c]) for c in cards)]
        i = h5('\x00'.join(parts) + 'False;None;None')
        rel = []
        seen = {}
        for (nm, req, _), s, c in zip(ops, subs, cards):
            ent = f'{cn(nm)}:0:{CARDV[c]}:{s[1]}:{"*" if v2 else "-"}'
            if nm in seen:
                rel[seen[nm]] = ent
            else:
                seen[nm] = len(rel)
                rel.append(ent)
        exp = f'Shp({i},-,[{",".join(rel)}])'
        if i != tid.hex:
            bad.append('root-id-differs-from-documented-construction')
        prw = run_parse(data, pv, wild=True)
        if prw.startswith('ok '):
            if prw[3:] != exp:
                bad.append('decoded-description-differs-from-params')
        else:
            bad.append('descriptor-does-not-decode:' + pr[4:])
    if v2:
        blobs = split_v2(data)
        if blobs is None:
            bad.append('v2-length-prefixes-inconsistent')
        else:
            ids = [bl[1:17] for bl in blobs]
            if len(set(ids)) != len(ids):
                bad.append('descriptor-emitted-twice')
            if ids and ids[-1] != tid.bytes:
                bad.append('root-descriptor-not-last')
    return case + '\t' + res + '\t' + pr + ''.join('\t!' + x for x in bad)


def do_input(k):
    pv = parse_pv(k.next())
    term = p_ty(k)
    b = Builder()
    try:
        typ = b.ty(term)
    except RecursionError:
        raise
    except Exception as e:
        return 'I - \tskip ' + (type(e).__name__ + ':' + str(e)).replace(' ', '_')[:80] + '\t-'
    schema = b.schema
    ob = Observer(schema, b.view_shapes, b.md, b.input_shapes)
    oterm = ob.ty(typ)
    case = f'I {pv[0]}.{pv[1]} {e_ty(oterm)}'
    try:
        ctx = sertypes.Context(schema=schema, protocol_version=pv)
        tid = sertypes.describe_input_shape(typ, b.input_shapes, ctx=ctx)
        data = b''.join(ctx.buffer)
        res = f'ok {data.hex() or "-"} {tid.hex}'
    except RecursionError:
        raise
    except BaseException as e:      # noqa
        return f'{case}\terr {errname(e)}\t-'
    pr = run_parse(data, pv)
    return case + '\t' + res + '\t' + pr



# ------------------------------------------------------------------ call sequences on one factory

from edb.server import config as s_config  # noqa: E402
from edb.schema import globals as s_globals  # noqa: E402

_STD_SCALARS = [
    ('00000000000000000000000000000a02', 'std::anyreal', True, ['00000000000000000000000000000a01']),
    ('00000000000000000000000000000a03', 'std::anyint', True,
     ['00000000000000000000000000000a02', '00000000000000000000000000000a01']),
    ('00000000000000000000000000000101', 'std::str', False, ['00000000000000000000000000000a01']),
    ('00000000000000000000000000000105', 'std::int64', False,
     ['00000000000000000000000000000a03', '00000000000000000000000000000a02', '00000000000000000000000000000a01']),
    ('00000000000000000000000000000107', 'std::float64', False,
     ['00000000000000000000000000000a02', '00000000000000000000000000000a01']),
    ('00000000000000000000000000000109', 'std::bool', False, ['00000000000000000000000000000a01']),
    ('00000000000000000000000000000102', 'std::bytes', False, ['00000000000000000000000000000a01']),
    ('0000000000000000000000000000010f', 'std::json', False, ['00000000000000000000000000000a01']),
]
KIND = {'str': (str, 'std::str'), 'int64': (int, 'std::int64'), 'bool': (bool, 'std::bool')}


def factory_std_schema():
    schema = BASE
    for i, name, ab, anc in _STD_SCALARS:
        ancs = [schema.get_by_id(UUID(a)) for a in anc]
        mod, _, nm = name.rpartition('::')
        schema, _ = s_scalars.ScalarType.create_in_schema(
            schema, id=UUID(i), name=Q(mod, nm), abstract=ab, bases=ancs[:1], ancestors=ancs)
    schema, cobj = s_objtypes.ObjectType.create_in_schema(
        schema, id=UUID('00000000000000000000000000000c01'), name=Q('cfg', 'ConfigObject'), abstract=True)
    schema, _ = s_objtypes.ObjectType.create_in_schema(
        schema, id=UUID('00000000000000000000000000000c02'), name=Q('cfg', 'ExtensionConfig'), abstract=True)
    return schema


FSTD = None


class Capture:
    """records the arguments of every top-level sertypes.describe_input_shape call (the harness
    process wraps the module attribute; /repo is not touched)"""

    def __init__(self):
        self.calls = []
        self.depth = 0
        self.orig = sertypes.describe_input_shape

    def __enter__(self):
        cap = self

        def wrapper(t, input_shapes, *, prepare_state=False, ctx):
            if cap.depth == 0:
                cap.calls.append((t, input_shapes, prepare_state, ctx.protocol_version))
            cap.depth += 1
            try:
                return cap.orig(t, input_shapes, prepare_state=prepare_state, ctx=ctx)
            finally:
                cap.depth -= 1
        sertypes.describe_input_shape = wrapper
        return self

    def __exit__(self, *a):
        sertypes.describe_input_shape = self.orig


def make_factory(settings):
    spec = s_config.FlatSpec(*[
        s_config.Setting(nm, type=KIND[kd][0], default=(frozenset() if so_ else None), required=False,
                         schema_type_name=qname(KIND[kd][1]), set_of=so_, affects_compilation=af, system=sy)
        for nm, kd, so_, af, sy in settings])
    return sertypes.StateSerializerFactory(FSTD, spec)


def build_user(std, globs, exts):
    """user schema with the given globals and one extension config type"""
    user = s_schema.EMPTY_SCHEMA
    ch = s_schema.ChainedSchema(std, user, s_schema.EMPTY_SCHEMA)
    b = Builder(ch)
    b.modules = {'std', 'default', '__derived__', '__', 'cfg', 'std::cal', 'ext'}
    for m in ('default', 'ext', 'ext::e'):
        b.schema, _ = s_mod.Module.create_in_schema(b.schema, name=sn.UnqualName(m))
    C = qltypes.SchemaCardinality
    for nm, req, multi, term in globs:
        tgt = b.ty(term)
        b.schema, _ = s_globals.Global.create_in_schema(
            b.schema, name=Q('default', nm), target=tgt, required=req,
            cardinality=C.Many if multi else C.One)
    if exts:
        ext = std.get('cfg::ExtensionConfig')
        b.schema, ec = s_objtypes.ObjectType.create_in_schema(
            b.schema, name=Q('ext::e', 'Config'), bases=[ext], ancestors=[ext])
        ps = []
        for nm, kd, multi in exts:
            pn = Q('ext::e', sn.get_specialized_name(Q('__', nm), 'ext::e::Config'))
            b.schema, p = s_props.Property.create_in_schema(
                b.schema, name=pn, source=ec, target=b.schema.get(KIND[kd][1]),
                cardinality=C.Many if multi else C.One, required=False)
            ps.append(p)
        b.schema = ec.set_field_value(b.schema, 'pointers', so.ObjectIndexByUnqualifiedName.create(b.schema, ps))
    return b.schema.get_top_schema(), b.schema.get_global_schema(), b.schema


def exp_input(term, v2):
    """expected canonical description of an input-shape term (same syntax as canon())"""
    ex = Expect(v2)

    def go(t, as_input):
        if t[0] == 'i' and as_input:
            _, base, els = t
            subs = []
            for n, c, e in els:
                if c in 'mM':
                    subs.append(ex.wrap_set(go(e, False)))
                else:
                    subs.append(go(e, True))
            parts = [base, ':'.join(dashed(x[0]) for x in subs)]
            if els:
                parts.append(':'.join(n for n, _, _ in els))
                parts.append(':'.join(chr(CARDV[c]) for _, c, _ in els))
            i = h5('\x00'.join(parts) + 'False;None;None')
            fl = ','.join(f'{cn(n)}:{x[1]}' for (n, _, _), x in zip(els, subs))
            d = {}
            order = []
            for idx, (n, c, _) in enumerate(els):
                if n not in d:
                    order.append(n)
                d[n] = f'{cn(n)}:{idx}:0:{CARDV[c]}'
            return i, f'Inp({i},[{fl}],[{",".join(d[n] for n in order)}])'
        if t[0] == 'i':
            raise KeyError('input shape reached through plain _describe_type')
        return ex.ty(t)
    return go(term, True)


def do_sequence(k):
    global FSTD
    if FSTD is None:
        FSTD = factory_std_schema()
    settings = []
    for _ in range(k.num()):
        nm = k.s(); kd = k.next(); so_ = k.flag(); af = k.flag(); sy = k.flag()
        settings.append((nm, kd, so_, af, sy))
    calls = []
    for _ in range(k.num()):
        kind = k.next()
        if kind == 'M':
            pv = parse_pv(k.next())
            globs = []
            for _ in range(k.num()):
                nm = k.s(); req = k.flag(); multi = k.flag(); globs.append((nm, req, multi, p_ty(k)))
            exts = []
            for _ in range(k.num()):
                nm = k.s(); kd = k.next(); multi = k.flag(); exts.append((nm, kd, multi))
            calls.append(('M', pv, globs, exts))
        elif kind == 'K':
            calls.append(('K',))
        elif kind == 'P':
            pv = parse_pv(k.next())
            ps = []
            for _ in range(k.num()):
                nm = k.s(); req = k.flag(); ps.append((nm, req, p_ty(k)))
            calls.append(('P', pv, ps))
        else:
            raise ValueError('bad call kind ' + kind)
    bad = []
    obs_calls = []
    results = []
    parses = []
    try:
        factory = make_factory(settings)
    except Exception as e:      # noqa
        return 'S -\tskip ' + (type(e).__name__ + ':' + str(e)).replace(' ', '_')[:80] + '\t-'
    seen = {}            # call inputs -> first result (equal inputs => identical bytes and id)
    prepared = {}        # pv -> (len(buffer), dict(uuid_to_pos)) right after the first make at that pv
    base_terms = {}
    for call in calls:
        try:
            if call[0] == 'M':
                _, pv, globs, exts = call
                user, glob, full = build_user(FSTD, globs, exts)
                with Capture() as cap:
                    ser = factory.make(user, glob, pv)
                tid, data = ser.describe()
                tops = [c for c in cap.calls if not c[2]]
                preps = [c for c in cap.calls if c[2]]
                if preps:
                    t, shapes, _, _ = preps[0]
                    base_terms[pv] = Observer(factory._schema, {}, {}, dict(shapes)).ty(t)
                t, shapes, _, _ = tops[-1]
                call_term = Observer(s_schema.ChainedSchema(factory._schema, user, glob), {}, {},
                                     dict(shapes)).ty(t)
                obs_calls.append(f'M {pv[0]}.{pv[1]} {e_ty(base_terms[pv])} {e_ty(call_term)}')
                results.append(f'ok {data.hex() or "-"} {tid.hex}')
                parses.append(run_parse(data, pv))
                # -- monitors
                cctx = factory._contexts[pv]
                snap = (len(cctx.buffer), dict(cctx.uuid_to_pos), len(cctx.anno_buffer))
                if pv in prepared and prepared[pv] != snap:
                    bad.append('cached-context-modified-by-make')
                prepared.setdefault(pv, snap)
                key = repr(call)
                if key in seen and seen[key] != (data, tid):
                    bad.append('equal-inputs-different-descriptor-across-calls')
                seen.setdefault(key, (data, tid))
                fresh = make_factory(settings).make(user, glob, pv)
                if fresh.describe() != (tid, data):
                    bad.append('reused-context-result-differs-from-fresh-factory')
                try:
                    exp_id, exp_desc = exp_input(call_term, pv >= (2, 0))
                    if exp_id != tid.hex:
                        bad.append('state-id-differs-from-documented-construction')
                    if parses[-1] != 'ok ' + exp_desc:
                        bad.append('state-descriptor-does-not-decode-to-the-state-shape')
                except KeyError:
                    pass
                gnames = sorted('default::' + g[0] for g in globs)
                d = sertypes.parse(data, pv)
                cnames = sorted(st[0] for st in settings if not st[4]) + sorted('ext::e::Config::' + e[0] for e in exts)
                if list(d.fields) != ['module', 'aliases', 'config', 'globals'] or \
                        list(d.fields['globals'][1].fields) != gnames or \
                        list(d.fields['config'][1].fields) != cnames:
                    bad.append('state-fields-wrong')
                if pv >= (2, 0) and split_v2(data) is None:
                    bad.append('v2-length-prefixes-inconsistent')
            elif call[0] == 'K':
                with Capture() as cap:
                    ser = factory.make_compilation_config_serializer()
                tid, data = ser.describe()
                t, shapes, _, pvk = cap.calls[-1]
                term = Observer(factory._schema, {}, {}, dict(shapes)).ty(t)
                obs_calls.append(f'K {pvk[0]}.{pvk[1]} {e_ty(term)}')
                results.append(f'ok {data.hex() or "-"} {tid.hex}')
                parses.append(run_parse(data, pvk))
                key = 'K'
                if key in seen and seen[key] != (data, tid):
                    bad.append('equal-inputs-different-descriptor-across-calls')
                seen.setdefault(key, (data, tid))
                try:
                    exp_id, exp_desc = exp_input(term, pvk >= (2, 0))
                    if exp_id != tid.hex or parses[-1] != 'ok ' + exp_desc:
                        bad.append('config-descriptor-does-not-decode-to-the-config-shape')
                except KeyError:
                    pass
            else:
                _, pv, ps = call
                b = Builder(s_schema.ChainedSchema(FSTD, s_schema.EMPTY_SCHEMA, s_schema.EMPTY_SCHEMA))
                params = [(nm, b.ty(t), req) for nm, req, t in ps]
                data, tid = sertypes.describe_params(schema=b.schema, params=params, protocol_version=pv)
                ob = Observer(b.schema, {}, {})
                obs_calls.append(f'P {pv[0]}.{pv[1]} {len(params)}' + ''.join(
                    f' {hx(nm)} {"1" if req else "0"} {e_ty(ob.ty(t))}' for nm, t, req in params))
                results.append(f'ok {data.hex() or "-"} {tid.hex}')
                parses.append(run_parse(data, pv) if params else '-')
                key = repr(call)
                if key in seen and seen[key] != (data, tid):
                    bad.append('equal-inputs-different-descriptor-across-calls')
                seen.setdefault(key, (data, tid))
        except RecursionError:
            raise
        except BaseException as e:      # noqa
            import traceback
            obs_calls.append('?')
            results.append('err ' + errname(e))
            parses.append('-')
            bad.append('call-raised:' + errname(e) + ':' + str(e).replace(' ', '_').replace('\t', '_')[:60])
            break
    case = f'S {len(obs_calls)} ' + ' '.join(obs_calls)
    return case + '\t' + ' ; '.join(results) + '\t' + ' ; '.join(parses) + ''.join('\t!' + x for x in sorted(set(bad)))


def do_raw(k):
    pv = parse_pv(k.next())
    h = k.next()
    data = b'' if h == '-' else bytes.fromhex(h)
    return f'X {pv[0]}.{pv[1]} {h}\t-\t{run_parse(data, pv)}'


def run_line(line):
    k = Toks(line)
    kind = k.next()
    if kind == 'D':
        return do_describe(k)
    if kind == 'P':
        return do_params(k)
    if kind == 'I':
        return do_input(k)
    if kind == 'X':
        return do_raw(k)
    if kind == 'S':
        return do_sequence(k)
    raise ValueError('bad case kind ' + kind)


def main():
    out = []
    first = {}          # kind -> (index, line): re-run after all other calls of this process
    for line in sys.stdin:
        line = line.rstrip('\n')
        if not line:
            continue
        if line[0] in 'DPI' and line[0] not in first:
            first[line[0]] = (len(out), line)
        out.append(run_line(line))
    # multi-call monitor for the fresh-context entry points: the same call repeated after every
    # other call made by this process must give the same answer
    for kind, (idx, line) in first.items():
        again = run_line(line)
        if again.split('\t')[:3] != out[idx].split('\t')[:3]:
            out[idx] += '\t!result-changed-after-other-calls-in-the-same-process'
    sys.stdout.write('\n'.join(out) + '\n')


if __name__ == '__main__':
    main()
