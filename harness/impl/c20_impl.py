"""Runs the real edb.common.topological.sort_ex on one graph per input line and
evaluates the C20 monitors on its answer.  Output per line:
   <result>[ !<monitor failure>]...
result:  S k,k,..  |  C item  |  U dep item  |  E <exception type>
"""
import sys, re
import edb
assert edb.__path__[0].startswith(sys.argv[1]), edb.__path__
from edb.common import topological as T
from edb.common.ordered import OrderedSet

USE_OSET = len(sys.argv) > 2 and sys.argv[2] == 'oset'
USE_STR = len(sys.argv) > 2 and sys.argv[2] == 'str'   # string keys: hash-seed sensitive if any set() sneaks in
NAMES = ['alpha', 'bravo', 'charlie', 'delta', 'echo', 'foxtrot', 'golf', 'hotel', 'india', 'juliet', 'kilo', 'lima']


def sk(k):
    return f'{NAMES[k % len(NAMES)]}{k}' if USE_STR else k


def parse(line):
    parts = line.split(';')
    allow = parts[0] == '1'
    nodes = []
    for p in parts[1:]:
        if not p:
            continue
        k, rest = p.split(':')
        w, m, d, c = rest.split('|')
        f = lambda s: [int(x) for x in s.split(',')] if s else []
        nodes.append((int(k), f(w), None if m == '-' else f(m), f(d), f(c)))
    return allow, nodes


def wrap(xs):
    if xs is None:
        return None
    return OrderedSet(xs) if USE_OSET else list(xs)


def run(allow, nodes):
    g = {}
    back = {}
    for k, w, m, d, c in nodes:
        back[str(sk(k))] = k
        for x in list(w) + list(m or []) + list(d) + list(c):
            back[str(sk(x))] = x
        mp = lambda xs: None if xs is None else [sk(x) for x in xs]
        g[sk(k)] = T.DepGraphEntry(item=sk(k), deps=wrap(mp(d)), merge=wrap(mp(m)),
                                   loop_control=wrap(mp(c)), weak_deps=wrap(mp(w)))
    try:
        out = [back[str(k)] for k, _ in T.sort_ex(g, allow_unresolved=allow)]
        return 'S ' + ','.join(map(str, out))
    except T.CycleError as e:
        return f'C {back[str(e.item)]}'
    except T.UnresolvedReferenceError as e:
        m = re.match(r'reference to an undefined item (\S+) in (\S+)$', str(e))
        return f'U {back.get(m.group(1), m.group(1))} {back.get(m.group(2), m.group(2))}' if m else 'U ? ?'
    except Exception as e:   # noqa
        return 'E ' + type(e).__name__


def has_cycle(keys, edges):
    # iterative colouring DFS, independent of the code under test
    color = {k: 0 for k in keys}
    for r in keys:
        if color[r]:
            continue
        stack = [(r, iter(edges.get(r, ())))]
        color[r] = 1
        while stack:
            n, it = stack[-1]
            for m in it:
                if color[m] == 1:
                    return True
                if color[m] == 0:
                    color[m] = 1
                    stack.append((m, iter(edges.get(m, ()))))
                    break
            else:
                color[n] = 2
                stack.pop()
    return False


def monitors(allow, nodes, res):
    bad = []
    keys = [n[0] for n in nodes]
    ks = set(keys)
    dangling = []
    for k, w, m, d, c in nodes:           # same scan order as documented: weak, merge, deps, lc
        for x in list(w) + list(m or []) + list(d) + list(c):
            if x not in ks:
                dangling.append((x, k))
    hard = {k: [x for x in list(m or []) + list(d) if x in ks] for k, w, m, d, c in nodes}
    lc = {k: [x for x in c if x in ks] for k, w, m, d, c in nodes}
    weak = {k: [x for x in w if x in ks] for k, w, m, d, c in nodes}
    hlc = {k: hard[k] + lc[k] for k in keys}
    allg = {k: hard[k] + lc[k] + weak[k] for k in keys}
    kind = res[0]
    if kind == 'E':
        bad.append('unexpected-exception')
        return bad
    if kind == 'U':
        if allow:
            bad.append('unresolved-raised-though-allowed')
        _, d, k = res.split(' ')
        if (int(d), int(k)) not in dangling:
            bad.append('unresolved-names-a-resolvable-reference')
        return bad
    if dangling and not allow:
        bad.append('dangling-reference-not-reported')
        return bad
    cyc = has_cycle(keys, hlc)
    if kind == 'C':
        if not cyc:
            bad.append('cycle-reported-but-hard-deps-acyclic')
        return bad
    # Sorted
    if cyc:
        bad.append('hard-cycle-not-reported')
    o = [int(x) for x in res[2:].split(',')] if len(res) > 2 else []
    if sorted(o) != sorted(keys) or len(set(o)) != len(o):
        bad.append('not-a-permutation')
        return bad
    pos = {k: i for i, k in enumerate(o)}
    for k in keys:
        for d in hard[k]:
            if not pos[d] < pos[k]:
                bad.append('hard-dependency-after-dependent')
                return bad
    if not has_cycle(keys, allg):
        for k in keys:
            for d in weak[k]:
                if not pos[d] < pos[k]:
                    bad.append('soft-dependency-not-honoured-in-acyclic-graph')
                    return bad
    return bad


def main():
    out = []
    for line in sys.stdin:
        line = line.rstrip('\n')
        if not line:
            continue
        allow, nodes = parse(line)
        r = run(allow, nodes)
        r2 = run(allow, nodes)
        bad = monitors(allow, nodes, r)
        if r2 != r:
            bad.append('nondeterministic')
        out.append(r + ''.join(' !' + b for b in bad))
    sys.stdout.write('\n'.join(out) + '\n')


main()
