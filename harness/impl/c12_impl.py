"""C12 implementation driver: runs the REAL EdgeQL compiler (and the real schema type algebra)
of the tree given as argv[1] on one case per stdin line, prints one result line per case.

Usage:  python c12_impl.py <repo> <spec.json>

spec.json (written by harness/props/c12.py):
  {"manifest": <path of Gen_StdSig.manifest.json>, "user_sdl": <SDL text of the user schema>,
   "user_ids": {"scalar": {name: id}, "objtype": {name: id}, "callable": {name: id}, "name": {name: id}}}

Case lines (the same lines the OCaml-extracted model reads; <ext> is skipped here, the user
schema is loaded from user_sdl by the real SDL machinery):
  T <ext> <expr>        render <expr> to EdgeQL text, parse + compile with the real compiler
                        -> "OK <ty>" | "ERR <kind>"   followed by "\t" <query text> and monitor flags
  C|D|S|K|P|I <ext> <ty> <ty>   the real find_common_implicitly_castable_type / get_implicit_cast_distance /
                        issubclass / is_type_compatible / get_common_parent_type_distance /
                        implicitly_castable_to on real schema type objects
  SIGDUMP               canonical JSON of the real schema's scalars / casts / operators / functions
  Q <hex utf8 text>     compile raw EdgeQL text (corpus / seed queries): "OK <ty>" | "ERR <kind>"

Monitors (on the real code only, independent of the Coq model), appended as " !<name>":
  desc-mismatch      sertypes.describe(ir.schema, ir.stype, ...) parsed back does not denote ir.stype
  expr-type-mismatch ir.expr.typeref does not name the same type as ir.stype
  toy-value-type     a value computed by edb.tools.toy_eval_model for the query does not belong
                     to the type the compiler inferred
  arg-nonconforming  an argument passed to a call in the IR has a type that does not structurally
                     conform to the type of the parameter it is bound to (no cast was inserted)
  nondeterministic   compiling the same text twice gives different types
"""
import json
import os
import sys

REPO = sys.argv[1] if len(sys.argv) > 1 else '/repo'
os.environ['VRT_REPO'] = REPO
sys.setrecursionlimit(20000)
HERE = os.path.dirname(os.path.abspath(__file__))
sys.path.insert(0, os.path.join(os.path.dirname(HERE), 'rt'))
if REPO in sys.path:
    sys.path.remove(REPO)
sys.path.insert(0, REPO)

import vrt  # noqa: E402
vrt.install()
import edb  # noqa: E402
assert os.path.realpath(edb.__path__[0]).startswith(os.path.realpath(REPO)), edb.__path__

from edb import errors  # noqa: E402
from edb.edgeql import compiler as qlcompiler  # noqa: E402
from edb.edgeql import parser as qlparser  # noqa: E402
from edb.edgeql import ast as qlast  # noqa: E402
from edb.ir import ast as irast  # noqa: E402
from edb.schema import types as s_types  # noqa: E402
from edb.schema import scalars as s_scalars  # noqa: E402
from edb.schema import objtypes as s_objtypes  # noqa: E402
from edb.schema import pseudo as s_pseudo  # noqa: E402
from edb.schema import operators as s_oper  # noqa: E402
from edb.schema import functions as s_func  # noqa: E402
from edb.schema import casts as s_casts  # noqa: E402
from edb.schema import name as sn  # noqa: E402

SPEC = json.load(open(sys.argv[2]))
MAN = json.load(open(SPEC['manifest']))
IDS = {k: dict(v) for k, v in MAN['ids'].items()}
for k, v in SPEC.get('user_ids', {}).items():
    IDS[k].update(v)
REV = {k: {i: n for n, i in v.items()} for k, v in IDS.items()}

STD = vrt.std_schema()
SCHEMA = vrt.load_sdl(STD, SPEC['user_sdl']) if SPEC.get('user_sdl') else STD


# ----------------------------------------------------------------------------- s-expressions

def parse_sexps(s):
    out, stack, i, n = [], [], 0, len(s)
    cur = out
    while i < n:
        c = s[i]
        if c == ' ':
            i += 1
        elif c == '(':
            new = []
            cur.append(new)
            stack.append(cur)
            cur = new
            i += 1
        elif c == ')':
            cur = stack.pop()
            i += 1
        else:
            j = i
            while j < n and s[j] not in ' ()':
                j += 1
            cur.append(s[i:j])
            i = j
    return out


def split_ext(line):
    """returns (cmd, rest after <ext>)"""
    cmd = line[0]
    i = 2
    if line[i] == '-':
        return cmd, line[i + 1:]
    depth = 0
    while i < len(line):
        if line[i] == '(':
            depth += 1
        elif line[i] == ')':
            depth -= 1
            if depth == 0:
                i += 1
                break
        i += 1
    return cmd, line[i:]


# ----------------------------------------------------------------------------- rendering

LIT = {
    'std::int64': '1', 'std::float64': '2.5', 'std::str': "'ab'", 'std::bool': 'true',
    'std::bigint': '5n', 'std::decimal': '1.5n', 'std::bytes': "b'ab'",
}


def ty_text(t):
    if t == 'any':
        return 'anytype'
    if t == 'anytuple':
        return 'anytuple'
    if t == 'anyobject':
        return 'anyobject'
    k = t[0]
    if k == 's':
        return REV['scalar'][int(t[1])]
    if k == 'obj':
        return REV['objtype'][int(t[1])]
    if k == 'arr':
        return f'array<{ty_text(t[1])}>'
    if k == 'rng':
        return f'range<{ty_text(t[1])}>'
    if k == 'mrng':
        return f'multirange<{ty_text(t[1])}>'
    if k == 'tup':
        named = t[1] == '1'
        els = t[2:]
        if named:
            return 'tuple<' + ', '.join(f'{REV["name"][int(n)]}: {ty_text(e)}' for n, e in els) + '>'
        return 'tuple<' + ', '.join(ty_text(e) for _, e in els) + '>'
    raise ValueError(f'type {t}')


OPKIND = {}
for _o in MAN['sig']['operators']:
    OPKIND.setdefault(_o['name'], set()).add(_o['kind'])


def short(name):
    return name[5:] if name.startswith('std::') else name


def render(e):
    if e == 'empty':
        return '{}'
    k = e[0]
    if k == 'lit':
        return LIT[REV['scalar'][int(e[1])]]
    if k == 'cast':
        return f'<{ty_text(e[1])}>{render(e[2])}'
    if k == 'tuple':
        named = e[1] == '1'
        els = e[2:]
        if named:
            return '(' + ', '.join(f'{REV["name"][int(n)]} := {render(x)}' for n, x in els) + ')'
        if len(els) == 1:
            return f'({render(els[0][1])},)'
        return '(' + ', '.join(render(x) for _, x in els) + ')'
    if k == 'array':
        return '[' + ', '.join(render(x) for x in e[1:]) + ']'
    if k == 'set':
        return '{' + ', '.join(render(x) for x in e[1:]) + '}'
    if k == 'op':
        name = REV['callable'][int(e[1])]
        args = e[2:]
        o = short(name)
        if o == 'IF' and len(args) == 3:
            return f'({render(args[0])} IF {render(args[1])} ELSE {render(args[2])})'
        if len(args) == 1:
            return f'({o} {render(args[0])})'
        if len(args) == 2:
            return f'({render(args[0])} {o} {render(args[1])})'
        raise ValueError(f'operator arity {name}/{len(args)}')
    if k == 'call':
        name = short(REV['callable'][int(e[1])])
        parts = [render(x) for x in e[2]] + [f'{REV["name"][int(n)]} := {render(x)}' for n, x in e[3]]
        return f'{name}(' + ', '.join(parts) + ')'
    if k == 'tidx':
        return f'({render(e[1])}).{REV["name"][int(e[2])]}'
    if k == 'idx':
        return f'({render(e[1])})[{render(e[2])}]'
    if k == 'objset':
        return REV['objtype'][int(e[1])]
    if k == 'ptr':
        inner = render(e[1])
        if e[1][0] != 'objset' and not (e[1][0] == 'ptr'):
            inner = f'({inner})'
        return f'{inner}.{REV["name"][int(e[2])]}'
    raise ValueError(f'expr {e}')


# ----------------------------------------------------------------------------- types <-> sexp

def ty_sexp(t, schema):
    """real schema type -> the model's type term (text)"""
    if isinstance(t, s_pseudo.PseudoType):
        return {'anytype': 'any', 'anytuple': 'anytuple', 'anyobject': 'anyobject'}[str(t.get_name(schema))]
    if isinstance(t, s_scalars.ScalarType):
        schema, m = t.material_type(schema)
        nm = str(m.get_name(schema))
        return f'(s {IDS["scalar"].get(nm, "?" + nm)})'
    if isinstance(t, s_types.Array):
        return f'(arr {ty_sexp(t.get_element_type(schema), schema)})'
    if isinstance(t, s_types.Range):
        return f'(rng {ty_sexp(t.get_element_type(schema), schema)})'
    if isinstance(t, s_types.MultiRange):
        return f'(mrng {ty_sexp(t.get_element_type(schema), schema)})'
    if isinstance(t, s_types.Tuple):
        named = t.is_named(schema)
        els = []
        for n, st in t.iter_subtypes(schema):
            els.append(f' ({IDS["name"].get(n, "?" + n)} {ty_sexp(st, schema)})')
        return f'(tup {1 if named else 0}{"".join(els)})'
    if isinstance(t, s_objtypes.ObjectType):
        schema, m = t.material_type(schema)
        u = m.get_union_of(schema)
        if u:
            ids = sorted(IDS['objtype'].get(str(c.material_type(schema)[1].get_name(schema)), -1)
                         for c in u.objects(schema))
            return '(union ' + ' '.join(map(str, ids)) + ')'
        nm = str(m.get_name(schema))
        return f'(obj {IDS["objtype"].get(nm, "?" + nm)})'
    return f'?{type(t).__name__}'


class TyBuilder:
    """model type term -> real schema type object (collections are created in a scratch schema)"""

    def __init__(self, schema):
        self.schema = schema

    def build(self, t):
        if t == 'any':
            return s_pseudo.PseudoType.get(self.schema, 'anytype')
        if t == 'anytuple':
            return s_pseudo.PseudoType.get(self.schema, 'anytuple')
        if t == 'anyobject':
            return s_pseudo.PseudoType.get(self.schema, 'anyobject')
        k = t[0]
        if k == 's':
            return self.schema.get(REV['scalar'][int(t[1])])
        if k == 'obj':
            return self.schema.get(REV['objtype'][int(t[1])])
        if k in ('arr', 'rng', 'mrng'):
            el = self.build(t[1])          # (threads self.schema)
            cls = {'arr': s_types.Array, 'rng': s_types.Range, 'mrng': s_types.MultiRange}[k]
            self.schema, r = cls.from_subtypes(self.schema, [el])
            return r
        if k == 'tup':
            named = t[1] == '1'
            els = {}
            for i, (n, e) in enumerate(t[2:]):
                els[REV['name'][int(n)] if named else str(i)] = self.build(e)
            self.schema, r = s_types.Tuple.from_subtypes(self.schema, els, {'named': named})
            return r
        raise ValueError(f'type {t}')


# ----------------------------------------------------------------------------- errors

def err_kind(e):
    msg = str(e)
    if isinstance(e, errors.InvalidTypeError) and ('cannot be applied to' in msg or 'incompatible types' in msg):
        return 'NoMatch'
    if isinstance(e, errors.QueryError):
        if 'is ambiguous for' in msg:
            return 'Ambiguous'
        if 'does not exist' in msg and msg.startswith('function'):
            return 'NoFunc'
        if 'is not unique' in msg:
            return 'NotUnique'
        if 'cannot cast into generic type' in msg or 'indeterminate type' in msg:
            return 'Generic'
        if 'cannot cast' in msg or 'cannot unambiguously cast' in msg:
            return 'Cast'
        if 'could not determine array type' in msg or 'nested arrays are not supported' in msg \
                or 'cannot determine common type' in msg:
            return 'ArrayType'
        if 'duplicate field' in msg:
            return 'DupName'
        if msg.startswith('cannot index') or 'index indirection cannot' in msg or 'has no element' in msg \
                or 'is not a member of a tuple' in msg or 'has no link or property' in msg:
            return 'Index'
    if isinstance(e, errors.InvalidReferenceError) and (
            'is not a member of' in msg or 'invalid property reference on a primitive' in msg
            or 'has no link or property' in msg):
        return 'Index'
    if isinstance(e, errors.UnsupportedFeatureError) and 'nested arrays are not supported' in msg:
        return 'NestedArr'
    if isinstance(e, errors.QueryError) and any(x in msg for x in (
            'possibly more than one element', 'possibly an empty set', 'can not take cross product of volatile',
            'mutations are invalid', 'cannot be called on')):
        # accepted by type inference, rejected by a cardinality / volatility / DML rule: outside C12's model
        return 'NonType:' + '_'.join(msg.split()[:5])
    if isinstance(e, TypeError):
        return 'TypeError'
    if isinstance(e, (errors.InternalServerError, errors.SchemaError)):
        return 'Internal'
    return f'Other:{type(e).__name__}:{"_".join(msg.split()[:6])}'


# ----------------------------------------------------------------------------- monitors

def desc_sexp(d, schema):
    """parsed output descriptor (sertypes.TypeDesc) -> model type term"""
    from edb.server.compiler import sertypes as S
    if isinstance(d, S.SetDesc):
        return desc_sexp(d.subtype, schema)
    if isinstance(d, S.ArrayDesc):
        return f'(arr {desc_sexp(d.subtype, schema)})'
    if isinstance(d, S.RangeDesc):
        return f'(rng {desc_sexp(d.inner, schema)})'
    if isinstance(d, S.MultiRangeDesc):
        return f'(mrng {desc_sexp(d.inner, schema)})'
    if isinstance(d, S.NamedTupleDesc):
        return '(tup 1' + ''.join(f' ({IDS["name"].get(n, "?" + n)} {desc_sexp(f, schema)})'
                                  for n, f in d.fields.items()) + ')'
    if isinstance(d, S.TupleDesc):
        return '(tup 0' + ''.join(f' ({i} {desc_sexp(f, schema)})' for i, f in enumerate(d.fields)) + ')'
    if isinstance(d, (S.EnumDesc, S.BaseScalarDesc)):       # ScalarDesc is a BaseScalarDesc
        nm = d.name
        return f'(s {IDS["scalar"].get(nm, "?" + str(nm))})'
    if isinstance(d, S.ShapeDesc):
        if d.type is None:       # an ephemeral free-object shape carries no type reference
            return f'(obj {IDS["objtype"].get("std::FreeObject", "?")})'
        return desc_sexp(d.type, schema)
    if isinstance(d, S.ObjectDesc):
        return f'(obj {_obj_id(d.name, schema)})'
    if isinstance(d, S.CompoundDesc):
        ids = sorted(_obj_id(c.name, schema) if isinstance(c, S.ObjectDesc) else -2 for c in d.components)
        return '(union ' + ' '.join(map(str, ids)) + ')'
    return f'?{type(d).__name__}'


def _obj_id(name, schema):
    """object type name in a descriptor -> model id; an ephemeral view type (shape) is reported under
    its own derived name: it denotes its material type"""
    if name in IDS['objtype']:
        return IDS['objtype'][name]
    try:
        t = schema.get(name)
        m = t.material_type(schema)[1]
        return IDS['objtype'].get(str(m.get_name(schema)), '?' + str(name))
    except Exception:      # noqa
        return '?' + str(name)


def monitor_descriptor(ir):
    from edb.server.compiler import sertypes as S
    from edb.server import defines as edbdef
    pv = edbdef.CURRENT_PROTOCOL
    data, tid = S.describe(ir.schema, ir.stype, ir.view_shapes, ir.view_shapes_metadata, protocol_version=pv)
    d = S.parse(data, pv)
    got = desc_sexp(d, ir.schema)
    want = ty_sexp(ir.stype, ir.schema)
    if got != want:
        return [f'desc-mismatch[{got}<>{want}]'.replace(' ', '_')]
    if d.tid != tid:
        return ['desc-mismatch[type-id]']
    return []


def monitor_expr_type(ir):
    """ir.expr.typeref must name the same (material) type as ir.stype"""
    tr = ir.expr.typeref
    tr = tr.real_material_type
    schema, mt = ir.stype.material_type(ir.schema)
    if tr.id != mt.id:
        # collection typerefs of views may differ in id; compare display structure
        try:
            a = str(tr.name_hint)
            b = str(mt.get_name(schema))
            if a != b:
                return [f'expr-type-mismatch[{a} vs {b}]']
        except Exception as e:     # noqa
            return [f'expr-type-mismatch[{type(e).__name__}]']
    return []


_TOY = None


def toy():
    global _TOY
    if _TOY is None:
        from edb.tools import toy_eval_model as M
        _TOY = (M, M.mk_DB1())
    return _TOY


INTS = {'std::int16', 'std::int32', 'std::int64', 'std::bigint'}
FLOATS = {'std::float32', 'std::float64'}


def value_conforms(v, t, schema, M, db):
    """does the toy model's Python value v belong to schema type t?  None = cannot tell.
    The toy evaluator does not apply implicit casts, so an int where a float/decimal is
    inferred is accepted (int -> float is an implicit cast); the converse is not."""
    import uuid
    import decimal
    if isinstance(t, s_scalars.ScalarType):
        base = t.get_topmost_concrete_base(schema)
        nm = str(base.get_name(schema))
        if nm in INTS:
            return isinstance(v, int) and not isinstance(v, bool)
        if nm in FLOATS:
            return isinstance(v, (int, float)) and not isinstance(v, bool)
        if nm == 'std::decimal':
            return isinstance(v, (int, decimal.Decimal)) and not isinstance(v, bool)
        if nm == 'std::str':
            return isinstance(v, str)
        if nm == 'std::bool':
            return isinstance(v, bool)
        if nm == 'std::uuid':
            return isinstance(v, uuid.UUID)
        return None
    if isinstance(t, s_types.Tuple):
        sts = list(t.iter_subtypes(schema))
        # the toy evaluator applies no implicit casts: a named-tuple value (dict) may stand where an
        # unnamed tuple type was inferred and vice versa (both implicit casts exist, positionally);
        # a named value in a named type must carry the same names
        if isinstance(v, dict):
            if t.is_named(schema):
                # a named-tuple value in a named-tuple type: the SAME field names in the SAME order, and
                # every field typed BY NAME
                names = [n for n, _ in sts]
                if list(v.keys()) != names:
                    return False
                by_name = dict(sts)
                res = True
                for k, x in v.items():
                    r = value_conforms(x, by_name[k], schema, M, db)
                    if r is False:
                        return False
                    if r is None:
                        res = None
                return res
            vals = list(v.values())
        elif isinstance(v, tuple):
            vals = list(v)
        else:
            return False
        if len(vals) != len(sts):
            return False
        res = True
        for x, (_, st) in zip(vals, sts):
            r = value_conforms(x, st, schema, M, db)
            if r is False:
                return False
            if r is None:
                res = None
        return res
    if isinstance(t, s_types.Array):
        if not isinstance(v, list):
            return False
        res = True
        for x in v:
            r = value_conforms(x, t.get_element_type(schema), schema, M, db)
            if r is False:
                return False
            if r is None:
                res = None
        return res
    if isinstance(t, s_objtypes.ObjectType):
        if not isinstance(v, M.Obj):
            return False
        tn = db.data.get(v.id, {}).get('__type__')
        if tn is None:
            return None
        dyn = schema.get(f'default::{tn}', default=None)
        if dyn is None:
            return None
        schema, mt = t.material_type(schema)
        u = mt.get_union_of(schema)
        if u:       # components of a union may be ephemeral view types: compare with what they are views of
            return any(dyn.issubclass(schema, c.material_type(schema)[1]) for c in u.objects(schema))
        return dyn.issubclass(schema, mt)
    return None


def monitor_toy(text, ir):
    if '__type__' in text:      # the toy database stores __type__ as a plain type-name string
        return [], 0
    M, db = toy()
    try:
        q = M.parse(text)
        vals = M.toplevel_query(q, db)
    except Exception:      # the toy model does not implement the query (or it fails at run time)
        return [], 0
    bad = []
    n = 0
    for v in vals:
        r = value_conforms(v, ir.stype, ir.schema, M, db)
        if r is not None:
            n += 1
        if r is False:
            bad.append(f'toy-value-type[{type(v).__name__}:{str(v)[:40].replace(" ", "_")}]')
            break
    return bad, n


def conforms_struct(vt, pt, schema):
    """structural conformance of an argument type to a (non-polymorphic) parameter type:
    same collection kind, same tuple arity; scalar / object: subclass"""
    if pt.is_polymorphic(schema):
        return True
    if isinstance(pt, s_types.Tuple):
        if not isinstance(vt, s_types.Tuple):
            return False
        a = list(vt.iter_subtypes(schema))
        b = list(pt.iter_subtypes(schema))
        if len(a) != len(b):
            return False
        return all(conforms_struct(x, y, schema) for (_, x), (_, y) in zip(a, b))
    if isinstance(pt, (s_types.Array, s_types.Range, s_types.MultiRange)):
        if type(vt).__mro__[0] is not type(pt).__mro__[0] and not (
                isinstance(vt, type(pt)) or isinstance(pt, type(vt))):
            return False
        return conforms_struct(vt.get_subtypes(schema)[0], pt.get_subtypes(schema)[0], schema)
    if isinstance(pt, (s_scalars.ScalarType, s_objtypes.ObjectType)):
        if isinstance(vt, s_pseudo.PseudoType):
            return True          # empty sets
        return vt.issubclass(schema, pt)
    return True


def monitor_args(ir):
    """every argument of a user-defined / std FUNCTION call in the IR must structurally conform to
    the declared type of the parameter of the overload that was chosen (found again by its id)"""
    from edb.ir import utils as irutils
    from edb.common import ast as edbast
    bad = []
    schema = ir.schema
    for call in edbast.find_children(ir.expr, irast.FunctionCall):
        try:
            funcs = schema.get_functions(call.func_shortname)
        except Exception:
            continue
        cands = [f for f in funcs if f.get_backend_name(schema) == call.backend_name]
        if len(cands) != 1:
            continue
        f = cands[0]
        params = f.get_params(schema).get_in_canonical_order(schema)
        pos = [p for p in params if p.get_kind(schema) is not s_func.ft.ParameterKind.NamedOnlyParam]
        for key, arg in call.args.items():
            if isinstance(key, int) and 0 <= key < len(pos):
                p = pos[min(key, len(pos) - 1)]
                pt = p.get_type(schema)
                if p.get_kind(schema) is s_func.ft.ParameterKind.VariadicParam:
                    pt = pt.get_subtypes(schema)[0]
                try:
                    vt = irutils_type(arg.expr, schema)
                except Exception:
                    continue
                if vt is not None and not conforms_struct(vt, pt, schema):
                    bad.append(f'arg-nonconforming[{call.func_shortname}:{key}:'
                               f'{vt.get_displayname(schema)}->{pt.get_displayname(schema)}]'.replace(' ', ''))
    return bad[:1]


def irutils_type(ir_set, schema):
    from edb.ir import typeutils
    try:
        _, t = typeutils.ir_typeref_to_type(schema, ir_set.typeref)
        return t
    except Exception:
        return None


# ----------------------------------------------------------------------------- commands

def compile_text(text):
    tree = qlparser.parse_query(text)
    return qlcompiler.compile_ast_to_ir(
        tree, SCHEMA, options=qlcompiler.CompilerOptions(modaliases={None: 'default'}))


STATS = {'toy_checked': 0}


def do_T(text, with_monitors=True):
    try:
        ir = compile_text(text)
    except Exception as e:      # noqa
        return 'ERR ' + err_kind(e), []
    res = 'OK ' + ty_sexp(ir.stype, ir.schema)
    bad = []
    if with_monitors:
        for mon in (monitor_descriptor, monitor_expr_type, monitor_args):
            try:
                bad += mon(ir)
            except Exception as e:  # noqa
                bad.append(f'{mon.__name__}-crash[{type(e).__name__}:{"_".join(str(e).split()[:5])}]')
        b, n = monitor_toy(text, ir)
        bad += b
        STATS['toy_checked'] += 1 if n else 0
        if n:
            res += ' #toy'
    return res, bad


def do_pair(cmd, a, b):
    tb = TyBuilder(SCHEMA)
    try:
        x, y = tb.build(a), tb.build(b)
    except errors.UnsupportedFeatureError:
        return 'SKIP'           # e.g. range<str>: not a constructible type
    sch = tb.schema
    try:
        if cmd == 'C':
            sch2, r = x.find_common_implicitly_castable_type(y, sch)
            return 'NONE' if r is None else 'OK ' + ty_sexp(r, sch2)
        if cmd == 'D':
            return str(x.get_implicit_cast_distance(y, sch))
        if cmd == 'S':
            return 'true' if x.issubclass(sch, y) else 'false'
        if cmd == 'K':
            return 'true' if s_types.is_type_compatible(x, y, schema=sch) else 'false'
        if cmd == 'P':
            return str(x.get_common_parent_type_distance(y, sch))
        if cmd == 'I':
            return 'true' if x.implicitly_castable_to(y, sch) else 'false'
    except Exception as e:      # noqa
        return 'EXC ' + type(e).__name__
    return 'BAD'


def type_json(t, schema):
    if isinstance(t, s_pseudo.PseudoType):
        return ['pseudo', str(t.get_name(schema))]
    if isinstance(t, s_types.Array):
        return ['array', type_json(t.get_element_type(schema), schema)]
    if isinstance(t, s_types.Range):
        return ['range', type_json(t.get_element_type(schema), schema)]
    if isinstance(t, s_types.MultiRange):
        return ['multirange', type_json(t.get_element_type(schema), schema)]
    if isinstance(t, s_types.Tuple):
        return ['tuple', t.is_named(schema), [[n, type_json(st, schema)] for n, st in t.iter_subtypes(schema)]]
    return ['name', str(t.get_name(schema))]


def sigdump():
    """the std part of the REAL schema in the translator's vocabulary"""
    sch = STD
    out = {'scalars': {}, 'casts': [], 'operators': [], 'functions': [], 'objtypes': {}}
    for s in sch.get_objects(type=s_scalars.ScalarType):
        out['scalars'][str(s.get_name(sch))] = {
            'abstract': bool(s.get_abstract(sch)),
            'enum': s.get_enum_values(sch) is not None and len(s.get_enum_values(sch)) > 0,
            'ancestors': [str(a.get_name(sch)) for a in s.get_ancestors(sch).objects(sch)],
        }
    for o in sch.get_objects(type=s_objtypes.ObjectType):
        nm = str(o.get_name(sch))
        if o.get_union_of(sch) or o.get_intersection_of(sch) or o.is_view(sch):
            continue
        out['objtypes'][nm] = {'ancestors': [str(a.get_name(sch)) for a in o.get_ancestors(sch).objects(sch)]}
    for c in sch.get_objects(type=s_casts.Cast):
        out['casts'].append([type_json(c.get_from_type(sch), sch), type_json(c.get_to_type(sch), sch),
                             bool(c.get_allow_implicit(sch)), bool(c.get_allow_assignment(sch))])

    def params(f):
        return [[p.get_parameter_name(sch), str(p.get_kind(sch)), str(p.get_typemod(sch)),
                 type_json(p.get_type(sch), sch), p.get_default(sch) is not None]
                for p in f.get_params(sch).get_in_canonical_order(sch)]
    for o in sch.get_objects(type=s_oper.Operator):
        d = o.get_derivative_of(sch)
        out['operators'].append([str(o.get_shortname(sch)), str(o.get_operator_kind(sch)),
                                 bool(o.get_abstract(sch)), bool(o.get_recursive(sch)),
                                 None if d is None else str(d), params(o),
                                 str(o.get_return_typemod(sch)), type_json(o.get_return_type(sch), sch)])
    for f in sch.get_objects(type=s_func.Function):
        out['functions'].append([str(f.get_shortname(sch)), params(f), str(f.get_return_typemod(sch)),
                                 type_json(f.get_return_type(sch), sch)])
    out['casts'].sort(key=json.dumps)
    out['operators'].sort(key=json.dumps)
    out['functions'].sort(key=json.dumps)
    return json.dumps(out, sort_keys=True)


def main():
    out = []
    for line in sys.stdin:
        line = line.rstrip('\n')
        if not line:
            continue
        try:
            if line == 'SIGDUMP':
                out.append(sigdump())
                continue
            if line[0] == 'Q':
                text = bytes.fromhex(line[2:]).decode()
                r, bad = do_T(text)
                out.append(r + '\t' + text.replace('\n', ' ').replace('\t', ' ') + '\t'
                           + ' '.join('!' + b.replace(' ', '_') for b in bad))
                continue
            cmd, rest = split_ext(line)
            items = parse_sexps(rest)
            if cmd == 'T':
                text = 'select ' + render(items[0])
                r, bad = do_T(text)
                if 'N' in SPEC.get('flags', ''):
                    r2, _ = do_T(text, with_monitors=False)
                    if r2.split(' #')[0] != r.split(' #')[0]:
                        bad.append('nondeterministic')
                out.append(r + '\t' + text + '\t' + ' '.join('!' + b.replace(' ', '_') for b in bad))
            else:
                out.append(do_pair(cmd, items[0], items[1]))
        except Exception as e:     # noqa  - harness-side failure, reported as such
            out.append('HARNESS-ERROR ' + type(e).__name__ + ': ' + ' '.join(str(e).split())[:200])
    sys.stdout.write('\n'.join(out) + '\n')


main()
