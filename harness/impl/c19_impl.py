"""C19 -- runs the REAL configuration layer of /repo (edb.server.config.ops / types / __init__,
edb.ir.statypes, edb.schema.utils.const_ast_from_python, edb.edgeql codegen + parser) on one case
per stdin line and evaluates the C19 monitors on its behaviour.

usage:  c19_impl.py <repo> [noql]
case :  {"spec": {...}, "ops": [[code, scope, name, payload, label?], ...], "q": [name, ...]}
output: O:<op results> S:[..] D:[..] I:[..] L:<lookups> J:<json x3> R:<json round trips x3>[ ##<monitor failure>]...
        (same canonical text as ocaml/c19_main.ml up to the ` ##` suffixes)
"""
import json
import os
import sys

REPO = sys.argv[1]
NOQL = len(sys.argv) > 2 and sys.argv[2] == 'noql'
os.environ['VRT_REPO'] = REPO
HERE = os.path.dirname(os.path.abspath(__file__))
sys.path.insert(0, os.path.join(HERE, '..', 'rt'))
sys.setrecursionlimit(10000)

SUBSTRATE = None
try:
    import vrt
    vrt.install()
    SUBSTRATE = 'vrt'
except Exception as _e:                      # minimal local stub installer (import-only placeholders)
    import importlib.abc
    import importlib.machinery
    import types as _types

    class _Any(_types.ModuleType):
        __path__ = []

        def __getattr__(self, name):
            if name.startswith('__'):
                raise AttributeError(name)
            v = type(name, (), {'__init__': lambda self, *a, **k: None, '__class_getitem__': classmethod(lambda c, i: c)})
            setattr(self, name, v)
            return v

    class _Finder(importlib.abc.MetaPathFinder, importlib.abc.Loader):
        NAMES = ('edb._edgeql_parser', 'edb.common.turbo_uuid', 'edb.server._rust_native',
                 'edb.pgsql.parser.parser', 'uvloop', 'graphql', 'setproctitle', 'parsing')

        def find_spec(self, fullname, path=None, target=None):
            if any(fullname == n or fullname.startswith(n + '.') for n in self.NAMES):
                return importlib.machinery.ModuleSpec(fullname, self, is_package=True)
            return None

        def create_module(self, spec):
            m = _Any(spec.name)
            if spec.name == 'edb.common.turbo_uuid':
                import uuid
                m.UUID = uuid.UUID
            return m

        def exec_module(self, module):
            pass

    sys.path.insert(0, REPO)
    sys.meta_path.append(_Finder())
    SUBSTRATE = 'local-stubs'
    NOQL = True

import edb  # noqa: E402
assert os.path.realpath(edb.__path__[0]).startswith(os.path.realpath(REPO)), edb.__path__

import immutables  # noqa: E402
from edb.server import config  # noqa: E402
from edb.server.config import ops, spec as cspec, types as ctypes  # noqa: E402
from edb.ir import statypes  # noqa: E402
from edb.edgeql import qltypes  # noqa: E402

FLOATS = [0.0, 0.5, 1.5, -2.25, 1e300, 3.0, 1e-9, 100.0]
ENUMS = [statypes.TransactionIsolation, statypes.EnabledDisabledType, statypes.TransactionAccessMode,
         statypes.TransactionDeferrability]
SCOPES = ['SESSION', 'DATABASE', 'INSTANCE']
SRC = {'INSTANCE': 'system override', 'DATABASE': 'database', 'SESSION': 'session'}


# ------------------------------------------------------------------ decoding
class Ctx:
    pass


def dec_val(j, tsp=None):
    """payload / stored-value JSON -> Python value handed to the real code"""
    if j is None or isinstance(j, (bool, int, str)):
        return j
    if isinstance(j, list):
        return [dec_val(x, tsp) for x in j]
    (k, v), = j.items()
    if k == 'f':
        return FLOATS[v]
    if k == 'dur':
        return statypes.Duration(microseconds=v)
    if k == 'mem':
        return statypes.ConfigMemory(v)
    if k == 'memb':
        return statypes.ConfigMemory(bool(v))
    if k == 'enum':
        return ENUMS[v[0]](v[1])
    if k == 'fs':
        return frozenset(dec_val(x, tsp) for x in v)
    if k == 'd':
        return {kk: dec_val(vv, tsp) for kk, vv in v}
    if k == 'obj':
        return tsp[v[0]](**{fn: dec_val(fv, tsp) for fn, _u, fv in v[1]})
    raise ValueError(j)


def py_prim(p):
    if isinstance(p, list):
        return ENUMS[p[1]]
    return {'bool': bool, 'int': int, 'str': str, 'float': float,
            'dur': statypes.Duration, 'mem': statypes.ConfigMemory}[p]


_SPEC_CACHE = {}
_REAL = {}


def real_spec():
    """the REAL configuration spec: config.load_spec_from_schema(<std schema built from edb/lib>)"""
    if 'sp' not in _REAL:
        std = vrt.std_schema()
        _REAL['std'] = std
        _REAL['sp'] = config.load_spec_from_schema(std)
        _REAL['json'] = dump_spec(_REAL['sp'])
    return _REAL['sp'], _REAL['std'], _REAL['json']


def enc_val(v):
    """inverse of dec_val for spec defaults"""
    if v is None or isinstance(v, (bool, int, str)):
        return v
    if isinstance(v, float):
        return {'f': next(i for i, f in enumerate(FLOATS) if f == v)}
    if isinstance(v, statypes.Duration):
        return {'dur': v._value}
    if isinstance(v, statypes.ConfigMemory):
        return {'mem': v._value}
    if isinstance(v, statypes.EnumScalarType):
        return {'enum': [ENUMS.index(type(v)), str(v._val)]}
    if isinstance(v, (frozenset, set)):
        return {'fs': sorted((enc_val(x) for x in v), key=json.dumps)}
    if isinstance(v, (tuple, list)):
        return [enc_val(x) for x in v]
    if isinstance(v, ctypes.CompositeConfigType):
        ck = set(v._compare_keys)
        return {'obj': [v._tspec.name, [[f, f in ck, enc_val(getattr(v, f))] for f in sorted(v._tspec.fields)]]}
    raise ValueError('cannot encode default ' + repr(v))


def enc_prim(t):
    from edb.common import typing_inspect
    if isinstance(t, type) and issubclass(t, statypes.EnumScalarType):
        return ['enum', ENUMS.index(t), [str(m) for m in t.type]]
    for py, nm in ((bool, 'bool'), (int, 'int'), (str, 'str'), (float, 'float'),
                   (statypes.Duration, 'dur'), (statypes.ConfigMemory, 'mem')):
        if t is py:
            return nm
    raise ValueError('unsupported python type in the spec: ' + repr(t))


def dump_spec(sp):
    from edb.common import typing_inspect
    types_ = []
    done = set()

    def emit(ts):
        if ts.name in done:
            return
        if ts.parent is not None:
            emit(ts.parent)
        done.add(ts.name)
        fields = []
        for fn in sorted(ts.fields):
            f = ts.fields[fn]
            if isinstance(f.type, ctypes.ConfigTypeSpec):
                emit(f.type)
                ft = ['obj', f.type.name]
            elif typing_inspect.is_generic_type(f.type) and not (
                    isinstance(f.type, type) and issubclass(f.type, statypes.EnumScalarType)):
                assert typing_inspect.get_origin(f.type) is frozenset, f.type
                ft = ['set', enc_prim(typing_inspect.get_args(f.type, evaluate=True)[0])]
            else:
                ft = ['p', enc_prim(f.type)]
            d = {'n': fn, 't': ft, 'u': bool(f.unique)}
            if f.default is not statypes.MISSING:
                d['d'] = enc_val(f.default)
            if f.secret:
                d['secret'] = True
            if f.protected:
                d['protected'] = True
            fields.append(d)
        types_.append({'name': ts.name, 'parent': ts.parent.name if ts.parent is not None else None,
                       'fields': fields})
    for name in sorted(sp._types_by_name):
        emit(sp._types_by_name[name])
    settings = []
    for name in sp:
        st = sp[name]
        if isinstance(st.type, ctypes.ConfigTypeSpec):
            t = ['obj', st.type.name]
        else:
            t = ['p', enc_prim(st.type)]
        settings.append({'n': name, 't': t, 'so': bool(st.set_of), 'd': enc_val(st.default),
                         'sec': bool(st.secret), 'sys': bool(st.system), 'protected': bool(st.protected),
                         'internal': bool(st.internal)})
    return {'types': types_, 'settings': settings}


def build_spec(js):
    key = json.dumps(js, sort_keys=True)
    if key in _SPEC_CACHE:
        return _SPEC_CACHE[key]
    if js.get('real'):
        sp, std, dumped = real_spec()
        want = dict(js)
        want.pop('real')
        assert json.dumps(dumped, sort_keys=True) == json.dumps(want, sort_keys=True), \
            'the case was generated for a different real spec'
        _SPEC_CACHE[key] = (sp, dict(sp._types_by_name))
        return _SPEC_CACHE[key]
    tsp = {}
    for t in js['types']:
        fields = {}
        for f in t['fields']:
            kind = f['t'][0]
            if kind == 'p':
                ty = py_prim(f['t'][1])
            elif kind == 'set':
                ty = frozenset[py_prim(f['t'][1])]
            else:
                ty = tsp[f['t'][1]]
            kw = {}
            if 'd' in f:
                kw['default'] = dec_val(f['d'], tsp)
            fields[f['n']] = statypes.CompositeTypeSpecField(f['n'], ty, unique=f['u'], **kw)
        parent = tsp[t['parent']] if t['parent'] is not None else None
        ts = ctypes.ConfigTypeSpec(name=t['name'], fields=immutables.Map(fields), parent=parent)
        if parent is not None:
            parent.children.append(ts)
        tsp[t['name']] = ts
    settings = []
    for s in js['settings']:
        ty = py_prim(s['t'][1]) if s['t'][0] == 'p' else tsp[s['t'][1]]
        settings.append(cspec.Setting(s['n'], type=ty, default=dec_val(s['d'], tsp), set_of=s['so'],
                                      secret=s['sec'], required=False))
    sp = cspec.FlatSpec(*settings)
    assert set(sp._types_by_name) == set(tsp), (set(sp._types_by_name), set(tsp))
    # enum member lists carried by the case must be the real ones
    def chk(p):
        if isinstance(p, list):
            assert [str(m) for m in ENUMS[p[1]].type] == p[2], ('enum members differ', p)
    for t in js['types']:
        for f in t['fields']:
            if f['t'][0] in ('p', 'set'):
                chk(f['t'][1])
    for s in js['settings']:
        if s['t'][0] == 'p':
            chk(s['t'][1])
    _SPEC_CACHE[key] = (sp, tsp)
    return sp, tsp


# ------------------------------------------------------------------ canonical printing
def esc(s):
    out = []
    for ch in s:
        c = ord(ch)
        if 32 <= c < 127 and c != 34 and c != 92:
            out.append(ch)
        else:
            out.append('\\u{%x}' % c)
    return ''.join(out)


def pv(v):
    if v is None:
        return 'N'
    if v is True:
        return 'T'
    if v is False:
        return 'F'
    if isinstance(v, statypes.EnumScalarType):
        return 'e%d:%s' % (ENUMS.index(type(v)), esc(str(v._val)))
    if isinstance(v, int):
        return 'i%d' % v
    if isinstance(v, float):
        for i, f in enumerate(FLOATS):
            if f == v and repr(f) == repr(v):
                return 'f%d' % i
        return 'f?' + repr(v)
    if isinstance(v, str):
        return '"' + esc(v) + '"'
    if isinstance(v, statypes.Duration):
        return 'd%d' % v._value
    if isinstance(v, statypes.ConfigMemory):
        if isinstance(v._value, bool):
            return 'mT' if v._value else 'mF'
        return 'm%d' % v._value
    if isinstance(v, (frozenset, set, list, tuple)):
        return '{' + ','.join(sorted(pv(x) for x in v)) + '}'
    if isinstance(v, dict):
        return 'D{' + ','.join(sorted('"' + esc(k) + '":' + pv(x) for k, x in v.items())) + '}'
    if isinstance(v, ctypes.CompositeConfigType):
        ck = set(v._compare_keys)
        return '<' + esc(v._tspec.name) + '|' + ','.join(sorted(
            esc(f) + ('*=' if f in ck else '=') + pv(getattr(v, f)) for f in v._tspec.fields)) + '>'
    return '?' + type(v).__name__


def pstorage(m):
    return '[' + ';'.join(sorted(
        esc(k) + '=' + pv(x.value) + '@' + esc(x.source) + '@' + str(x.scope) + '@' + ('1' if x.secret else '0')
        for k, x in m.items())) + ']'


def ename(e):
    return type(e).__name__


# ------------------------------------------------------------------ CONFIGURE text -> operations
# (stand-in for compile + static evaluation, which need the std schema: the text produced by the real
#  to_edgeql is parsed with the repo's grammar, and the literal ASTs are turned into Operations)
_QL = None


def ql_mods():
    global _QL
    if _QL is None:
        from edb.edgeql import parser as qlparser
        from edb.edgeql import ast as qlast
        from edb.ir import staeval
        _QL = (qlparser, qlast, staeval)
    return _QL


def ql_eval(node):
    qlparser, qlast, staeval = ql_mods()
    if isinstance(node, qlast.Constant):
        k = node.kind
        if k == qlast.ConstantKind.STRING:
            return node.value
        if k == qlast.ConstantKind.INTEGER:
            return int(node.value)
        if k == qlast.ConstantKind.FLOAT:
            return float(node.value)
        if k == qlast.ConstantKind.BOOLEAN:
            return node.value.lower() == 'true'
        raise ValueError('constant kind ' + str(k))
    if isinstance(node, qlast.UnaryOp) and node.op == '-':
        return -ql_eval(node.operand)
    if isinstance(node, qlast.TypeCast):
        mt = node.type.maintype
        mod = 'std' if mt.module in (None, '__std__', 'std') else mt.module
        pytype = statypes.maybe_get_python_type_for_scalar_type_name(f'{mod}::{mt.name}')
        if pytype is None:
            raise ValueError('cast to ' + f'{mod}::{mt.name}')
        return staeval.python_cast(ql_eval(node.expr), pytype)
    if isinstance(node, qlast.Set):
        if not node.elements:
            return None
        return tuple(ql_eval(e) for e in node.elements)
    if isinstance(node, qlast.InsertQuery):
        d = {}
        for el in node.shape:
            d[el.expr.steps[0].name] = ql_eval(el.compexpr)
        d['_tname'] = node.subject.name if not node.subject.module else f'{node.subject.module}::{node.subject.name}'
        return d
    raise ValueError('unsupported expression ' + type(node).__name__)


def ql_to_ops(text, sp, tsp, std=None):
    qlparser, qlast, staeval = ql_mods()
    from edb.common import typeutils
    out = []
    for st in qlparser.parse_block(text):
        if std is not None and isinstance(st, (qlast.ConfigSet, qlast.ConfigReset)):
            # the REAL path of compiler._compile_ql_config_op (minus SQL generation):
            # compile_ast_to_ir + evaluate_to_config_op on the real std schema
            from edb.edgeql import compiler as qlcompiler
            ir = qlcompiler.compile_ast_to_ir(
                st, schema=std,
                options=qlcompiler.CompilerOptions(modaliases={None: 'default'}, in_server_config_op=True))
            out.append(staeval.evaluate_to_config_op(ir, schema=std))
        elif isinstance(st, qlast.ConfigSet):
            name = st.name.name
            val = ql_eval(st.expr)
            if sp[name].set_of:
                if val is None:
                    val = []
                elif not typeutils.is_container(val):
                    val = [val]
            out.append(ops.Operation(ops.OpCode.CONFIG_SET, st.scope, name, val))
        elif isinstance(st, qlast.ConfigInsert):
            tname = st.name.name if not st.name.module else f'{st.name.module}::{st.name.name}'
            ts = tsp[tname]
            target = None
            while ts is not None and target is None:
                for s in sp.values():
                    if s.type is ts:
                        target = s.name
                        break
                ts = ts.parent
            if target is None:
                raise ValueError('no setting holds ' + tname)
            d = {}
            for el in st.shape:
                d[el.expr.steps[0].name] = ql_eval(el.compexpr)
            d['_tname'] = tname
            out.append(ops.Operation(ops.OpCode.CONFIG_ADD, st.scope, target, d))
        else:
            raise ValueError('unexpected statement ' + type(st).__name__)
    return out


def edgeql_roundtrip(sp, tsp, m, std=None):
    """returns (status, detail).  status: 'ok' | 'raise:<phase>:<exc>' | 'differs'"""
    try:
        text = ops.to_edgeql(sp, m, with_secrets=True)
    except Exception as e:
        return 'raise:to_edgeql:' + ename(e), str(e)[:120]
    try:
        oplist = ql_to_ops(text, sp, tsp, std)
    except Exception as e:
        return 'raise:parse:' + ename(e), (str(e)[:120] + ' | ' + text[:200])
    m2 = immutables.Map()
    try:
        for o in oplist:
            m2 = o.apply(sp, m2)
    except Exception as e:
        return 'raise:apply:' + ename(e), (str(e)[:120] + ' | ' + text[:200])
    # "the same effective configuration": value of every setting (stored, else default) and the scope
    # recorded for the stored ones.  (An empty object set yields no statement: it reloads as
    # "not set", whose effective value is the empty default.)
    def eff(mm):
        return sorted((n, pv(mm[n].value if n in mm else sp[n].default)) for n in sp if not sp[n].protected)
    a, b = eff(m), eff(m2)
    if a != b:
        da = [t for t in a if t not in b]
        db = [t for t in b if t not in a]
        return 'differs', (repr(da)[:200] + ' vs ' + repr(db)[:200] + ' | ' + text[:200])
    for n in m2:
        if n in m and str(m[n].scope) != str(m2[n].scope):
            return 'differs', f'scope of {n}'
    return 'ok', ''


# ------------------------------------------------------------------ monitors
def unique_sites(js):
    """independent computation (from the case's spec data) of the exclusivity key of each field:
       tname -> {field -> top-most ancestor (or self) that declares it unique}"""
    byname = {t['name']: t for t in js['types']}
    res = {}
    for t in js['types']:
        r = {}
        for f in t['fields']:
            site = None
            cur = t
            while cur is not None:
                for g in cur['fields']:
                    if g['n'] == f['n'] and g['u']:
                        site = cur['name']
                cur = byname[cur['parent']] if cur['parent'] is not None else None
            if site is not None:
                r[f['n']] = site
        res[t['name']] = r
    return res


def obj_conflicts(js_sites, a, b):
    """do two stored objects collide on an exclusive field (or compare equal)?"""
    ka = {(site, f): getattr(a, f) for f, site in js_sites[a._tspec.name].items() if getattr(a, f, None) is not None}
    kb = {(site, f): getattr(b, f) for f, site in js_sites[b._tspec.name].items() if getattr(b, f, None) is not None}
    for k in ka:
        if k in kb and pv(ka[k]) == pv(kb[k]):
            return True
    if a._tspec.name == b._tspec.name:
        uf = [f['n'] for f in next(t for t in JS_TYPES[0] if t['name'] == a._tspec.name)['fields'] if f['u']]
        if all(pv(getattr(a, f)) == pv(getattr(b, f)) for f in uf):
            return True
    return False


JS_TYPES = [None]


def run_case(js):
    sp, tsp = build_spec(js['spec'])
    JS_TYPES[0] = js['spec']['types']
    sites = unique_sites(js['spec'])
    sdesc = {s['n']: s for s in js['spec']['settings']}
    maps = {s: immutables.Map() for s in SCOPES}
    defined = {s: {} for s in SCOPES}            # monitor bookkeeping: (scope) -> name -> True
    res = []
    bad = []
    info = []

    def fail(tag):
        if tag not in bad:
            bad.append(tag)

    for idx, opj in enumerate(js['ops']):
        code, scope, name, payload = opj[:4]
        label = opj[4] if len(opj) > 4 else None
        before = maps[scope]
        before_dump = pstorage(before)
        others = {s: maps[s] for s in SCOPES if s != scope}
        o = ops.Operation(ops.OpCode(code), qltypes.ConfigScope(scope), name, dec_val(payload, tsp))
        try:
            after = o.apply(sp, before)
            r = 'ok'
        except Exception as e:
            after = before
            r = ename(e)
        res.append(r)
        # -- atomic reject
        if r != 'ok':
            if pstorage(before) != before_dump:
                fail(f'reject-not-atomic@{idx}')
            if label is not None and label[0] in ('v', 'A'):
                fail(f'valid-value-rejected@{idx}:{r}')
            if label is not None and label[0] == 'a' and code == 'ADD':
                # a valid object may only be refused for an exclusivity conflict with the current set
                # (or because the set would exceed the size bound)
                sd0 = sdesc.get(name)
                old0 = before[name].value if name in before else sp[name].default
                try:
                    cand = ctypes.CompositeConfigType.from_pyvalue(
                        dec_val(payload, tsp), tspec=tsp[sd0['t'][1]], spec=sp)
                    conflict = any(obj_conflicts(sites, cand, x) for x in old0)
                    if not ((r == 'ConstraintViolationError' and conflict)
                            or (r == 'ConfigurationError' and len(old0) >= 128)):
                        fail(f'valid-object-rejected@{idx}:{r}')
                except Exception as e2:
                    fail(f'valid-object-rejected@{idx}:{r}/{ename(e2)}')
        else:
            if label is not None and label[0] == 'x':
                fail(f'invalid-value-accepted@{idx}')
            if pstorage(before) != before_dump:
                fail(f'input-map-mutated@{idx}')
            # -- frame
            for k, x in before.items():
                if k != name and after.get(k) is not x:
                    fail(f'frame-violated@{idx}')
            for k in after:
                if k != name and k not in before:
                    fail(f'frame-violated@{idx}')
            # -- definedness bookkeeping
            if code == 'RESET':
                defined[scope].pop(name, None)
            else:
                defined[scope][name] = True
            if set(after.keys()) != set(defined[scope].keys()):
                fail(f'definedness@{idx}')
            if name in after:
                sv = after[name]
                if str(sv.scope) != scope or sv.source != SRC[scope] or sv.name != name:
                    fail(f'scope-or-source@{idx}')
                sd = sdesc.get(name)
                if sd is not None and sd['t'][0] == 'p':
                    pt = py_prim(sd['t'][1])
                    vals = list(sv.value) if sd['so'] and isinstance(sv.value, frozenset) else [sv.value]
                    if sd['so'] and not isinstance(sv.value, frozenset):
                        fail(f'stored-type@{idx}')
                    if code == 'SET' and not all(isinstance(x, pt) for x in vals):
                        fail(f'stored-type@{idx}')
                    if sd['so'] and isinstance(sv.value, frozenset) and len(sv.value) > 128:
                        fail(f'set-too-large-stored@{idx}')
                if label is not None and label[0] == 'v' and pv(sv.value) != label[1]:
                    fail(f'stored-value-differs@{idx}:{pv(sv.value)[:60]}')
                # -- no path may store more than MAX_CONFIG_SET_SIZE (128) elements
                if isinstance(sv.value, (frozenset, set)) and len(sv.value) > 128:
                    fail(f'set-too-large-stored@{idx}')
                # -- set semantics of INSERT / filtered RESET on object sets
                sd = sdesc.get(name)
                if sd is not None and sd['t'][0] == 'obj' and sd['so'] and code in ('ADD', 'REM') \
                        and isinstance(sv.value, frozenset):
                    old = before[name].value if name in before else sp[name].default
                    new = sv.value
                    oldp = sorted(pv(x) for x in old)
                    newp = sorted(pv(x) for x in new)
                    if code == 'ADD':
                        extra = [x for x in new if pv(x) not in oldp]
                        if len(new) != len(old) + 1 or len(extra) != 1 or any(p not in newp for p in oldp):
                            fail(f'insert-not-union@{idx}')
                        # fields the payload does not give (or gives as None) carry the spec's default
                        if len(extra) == 1 and isinstance(payload, dict) and 'd' in payload:
                            given = {k for k, v in payload['d'] if v is not None}
                            tdesc = next((t for t in js['spec']['types'] if t['name'] == extra[0]._tspec.name), None)
                            for f in (tdesc['fields'] if tdesc else []):
                                if f['n'] not in given and 'd' in f:
                                    if pv(getattr(extra[0], f['n'])) != pv(dec_val(f['d'], tsp)):
                                        fail(f'field-default-not-applied@{idx}')
                        # the old elements were checked when they were added: pairs with the new one
                        for nw in extra:
                            for x in new:
                                if x is not nw and obj_conflicts(sites, nw, x):
                                    fail(f'exclusive-violated@{idx}')
                        if len(new) > 128:
                            fail(f'set-too-large-stored@{idx}')
                    else:
                        if any(p not in oldp for p in newp):
                            fail(f'remove-not-subset@{idx}')
                        if len(old) - len(new) > 1:
                            fail(f'remove-too-many@{idx}')
                        try:
                            cand = ctypes.CompositeConfigType.from_pyvalue(
                                dec_val(payload, tsp), tspec=tsp[sd['t'][1]], spec=sp, allow_missing=True)
                            if cand is not None:
                                if any(x == cand for x in new):
                                    fail(f'remove-left-equal-element@{idx}')
                                if any((x not in new) and not (x == cand) for x in old):
                                    fail(f'remove-took-unequal-element@{idx}')
                        except Exception as e2:
                            fail(f'remove-candidate@{idx}:{ename(e2)}')
        for s_, m_ in others.items():
            if maps[s_] is not m_:
                fail(f'other-scope-touched@{idx}')
        maps[scope] = after
        # -- lookup: most specific defining scope, else default (after every op, for the op's name)
        if name in sp:
            try:
                got = config.lookup(name, maps['SESSION'], maps['DATABASE'], maps['INSTANCE'], spec=sp)
                for s_ in SCOPES:
                    if name in defined[s_]:
                        want = maps[s_][name].value
                        break
                else:
                    want = sp[name].default
                if pv(got) != pv(want):
                    fail(f'lookup-not-most-specific@{idx}')
            except Exception as e:
                fail(f'lookup-raised@{idx}:{ename(e)}')

    S, D, I = maps['SESSION'], maps['DATABASE'], maps['INSTANCE']
    look = []
    for q in js['q']:
        try:
            look.append(esc(q) + '=' + pv(config.lookup(q, S, D, I, spec=sp)))
        except Exception as e:
            look.append(esc(q) + '=!' + ename(e))
    J = []
    R = []
    for sname, m in (('SESSION', S), ('DATABASE', D), ('INSTANCE', I)):
        try:
            text = ops.to_json(sp, m)
        except Exception as e:
            J.append('!' + ename(e))
            R.append('!' + ename(e))
            if all(_json_safe(sdesc, k, x.value) for k, x in m.items()):
                fail(f'to-json-raised:{sname}:{ename(e)}')
            continue
        J.append(pv(json.loads(text)))
        try:
            back = ops.from_json(sp, text)
            R.append(pstorage(back))
            a = sorted((k, pv(x.value), x.source, str(x.scope)) for k, x in m.items())
            b = sorted((k, pv(x.value), x.source, str(x.scope)) for k, x in back.items())
            if a != b:
                fail(f'json-roundtrip-differs:{sname}')
        except Exception as e:
            R.append('!' + ename(e))
            fail(f'json-roundtrip-raised:{sname}:{ename(e)}')
        if not NOQL and js.get('ql', True):
            mm = m
            for attempt in (0, 1):
                st, detail = edgeql_roundtrip(sp, tsp, mm, _REAL.get('std') if js['spec'].get('real') else None)
                if st != 'ok':
                    fail(f'edgeql-roundtrip:{sname}:{st}')
                    info.append(detail)
                    if os.environ.get('C19_DEBUG'):
                        sys.stderr.write(f'DEBUG {sname} {st} :: {detail}\n')
                if st == 'raise:to_edgeql:ValueError' and 'ConfigMemory' in detail and attempt == 0:
                    # the whole map is unprintable because of a memory value: check the rest of it
                    mm = immutables.Map({k: x for k, x in m.items() if not _has_memory(x.value)})
                    continue
                break
    line = ('O:' + ','.join(res) + ' S:' + pstorage(S) + ' D:' + pstorage(D) + ' I:' + pstorage(I)
            + ' L:' + ';'.join(look) + ' J:' + ' | '.join(J) + ' R:' + ' | '.join(R))
    return line + ''.join(' ##' + b.replace(' ', '_') for b in bad)


def _has_memory(v):
    if isinstance(v, statypes.ConfigMemory):
        return True
    if isinstance(v, (frozenset, list, tuple)):
        return any(_has_memory(x) for x in v)
    if isinstance(v, ctypes.CompositeConfigType):
        return any(_has_memory(getattr(v, f, None)) for f in v._tspec.fields)
    return False


def _json_safe(sdesc, name, value):
    """is the stored value one whose JSON form the code is expected to produce?  (set-valued settings of
    Duration/memory/enum-scalar type and a frozenset stored in a single-object setting are not: the
    pinned spec has neither)"""
    sd = sdesc.get(name)
    if sd is None:
        return False
    if sd['t'][0] == 'p' and sd['so'] and (isinstance(sd['t'][1], list) or sd['t'][1] in ('dur', 'mem')):
        return not value
    if sd['t'][0] == 'obj' and not sd['so']:
        return value is None or isinstance(value, ctypes.CompositeConfigType)
    return True


def compile_texts():
    """mode `compile`: one CONFIGURE statement per line -> the Operation the REAL compiler front end
    produces for it (compile_ast_to_ir + staeval.evaluate_to_config_op on the std schema, i.e.
    compiler._compile_ql_config_op without SQL generation), or the exception class"""
    sp, std, _ = real_spec()
    qlparser, qlast, staeval = ql_mods()
    from edb.edgeql import compiler as qlcompiler
    out = []
    for line in sys.stdin:
        line = line.rstrip('\n')
        if not line:
            continue
        text = json.loads(line)['t']
        try:
            sts = qlparser.parse_block(text)
            assert len(sts) == 1
            ir = qlcompiler.compile_ast_to_ir(
                sts[0], schema=std,
                options=qlcompiler.CompilerOptions(modaliases={None: 'default'}, in_server_config_op=True))
            o = staeval.evaluate_to_config_op(ir, schema=std)
            out.append(json.dumps({'op': [str(o.opcode), str(o.scope), o.setting_name, enc_val(o.value)]}))
        except Exception as e:
            out.append(json.dumps({'err': ename(e), 'msg': str(e)[:160]}))
    sys.stdout.write('\n'.join(out) + '\n')


def main():
    if len(sys.argv) > 2 and sys.argv[2] == 'compile':
        compile_texts()
        return
    if len(sys.argv) > 2 and sys.argv[2] == 'specdump':
        sp, std, dumped = real_spec()
        sys.stdout.write(json.dumps(dumped) + '\n')
        return
    out = []
    for line in sys.stdin:
        line = line.rstrip('\n')
        if not line:
            continue
        try:
            out.append(run_case(json.loads(line)))
        except Exception as e:     # harness-level problem: make it visible, never silently pass
            import traceback
            out.append('HARNESS-ERROR ' + ename(e) + ' ' + ' '.join(traceback.format_exc().split())[-400:])
    sys.stdout.write('\n'.join(out) + '\n')


main()
