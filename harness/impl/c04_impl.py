"""C04 — drives the REAL edb.schema.schema.FlatSchema / ChainedSchema at the raw API with real
schema object classes and evaluates the C04 monitors on what the real code does.

usage:  c04_impl.py REPO describe          -> JSON description of the real classes (for the generator)
        c04_impl.py REPO [run]             -> one case per stdin line, one result line each

Case line (same grammar as ocaml/c04_main.ml):
   MODE#classes|modulecls|specials|shorts[|baseops]#op;op;...
Result line:
   status@hash;...|final-state[ !monitor-failure]...
status = ok | <exception class name>.  An exception whose traceback passes through
get_verbosename (only called on the 'already exists' paths to build the message) is reported
as SchemaError: the message text is not part of the property and get_verbosename may fail on
the sparse objects used here.

Monitors (independent of the Coq model; evaluated on the real schema values):
  index-*     after every accepted op of a well-formed history: _id_to_type, _name_to_id (modulo
              names delisted in this history), _globalname_to_id, _shortname_to_id, _refs_to are
              exactly what the objects' own data determine (recomputed from scratch)
  api-*       get_by_id / get / get_global / get_referrers / get_objects / has_object /
              get_functions / get_operators agree with the objects' own data
  dropped-*   a deleted object is reachable through none of them
  rejected-*  a rejected op leaves every attribute of the schema value identical (same objects)
  frozen      every schema value obtained earlier in the history still dumps to its snapshot
"""
import sys
import os
import json
import hashlib
import traceback
import uuid

REPO = sys.argv[1] if len(sys.argv) > 1 else '/repo'
os.environ['VRT_REPO'] = REPO
sys.path.insert(0, os.path.join(os.path.dirname(os.path.abspath(__file__)), '..', 'rt'))


def _install_stubs():
    try:
        import vrt
        vrt.install()
        return 'vrt'
    except Exception:    # minimal local fallback: only what edb.schema.* needs at import time
        import importlib.abc, importlib.machinery, types

        class _Any(type):
            def __getattr__(cls, n):
                if n.startswith('__'):
                    raise AttributeError(n)
                return _Any(n, (object,), {})

        class _Mod(types.ModuleType):
            def __getattr__(self, n):
                if n.startswith('__'):
                    raise AttributeError(n)
                v = _Any(n, (object,), {})
                setattr(self, n, v)
                return v

        class _L(importlib.abc.Loader):
            def create_module(self, spec):
                m = _Mod(spec.name)
                m.__path__ = []
                return m

            def exec_module(self, m):
                if m.__name__ == 'edb.common.turbo_uuid':
                    m.UUID = uuid.UUID

        class _F(importlib.abc.MetaPathFinder):
            NAMES = ('edb._edgeql_parser', 'edb.common.turbo_uuid', 'edb.server._rust_native',
                     'edb.pgsql.parser.parser', 'uvloop', 'graphql', 'setproctitle', 'parsing')

            def find_spec(self, name, path=None, target=None):
                if any(name == n or name.startswith(n + '.') for n in self.NAMES):
                    return importlib.machinery.ModuleSpec(name, _L(), is_package=True)
                return None
        sys.meta_path.append(_F())
        return 'local'


STUBS = _install_stubs()
import edb  # noqa: E402
assert os.path.realpath(edb.__path__[0]).startswith(os.path.realpath(REPO)), edb.__path__

import importlib  # noqa: E402
import pkgutil  # noqa: E402
import edb.schema as _pkg  # noqa: E402
for _m in pkgutil.iter_modules(_pkg.__path__):
    importlib.import_module('edb.schema.' + _m.name)

from edb.schema import schema as s_schema  # noqa: E402
from edb.schema import objects as so  # noqa: E402
from edb.schema import name as sn  # noqa: E402
from edb.schema import expr as s_expr  # noqa: E402
from edb.schema import modules as s_mod  # noqa: E402
from edb.schema import functions as s_func  # noqa: E402
from edb.schema import operators as s_oper  # noqa: E402

# ---------------------------------------------------------------- tables
# string table shared by generator, model and implementation (codes are indexes)
STR = ['m0', 'm1', '__derived__', 'std', 'zz', 'a', 'b', 'c', 'f', 'g',
       'f@x', 'f@y', 'g@x', 'm0|f@z', 'a@q']
NMOD = 5          # STR[:NMOD] are used as module names
CLASSES = sorted(so.ObjectMeta.get_schema_metaclasses(), key=lambda c: c.__name__)
CODE = {c: i for i, c in enumerate(CLASSES)}


def U(i):
    return uuid.UUID(int=i)


def ref_kind(ftype):
    """how a reference field stores ids: (kind, setlike)"""
    if issubclass(ftype, so.Object):
        return 'single', False
    if issubclass(ftype, s_expr.Expression):
        return 'expr', True
    if issubclass(ftype, so.ObjectDict):
        return 'dict', False
    if issubclass(ftype, so.ObjectCollection):
        return 'coll', ftype._container is frozenset
    return None, False


def class_desc(c):
    fields = c.get_schema_fields()
    byidx = sorted(fields.values(), key=lambda f: f.index)
    assert [f.index for f in byidx] == list(range(len(byidx))), c
    refs = c.get_object_reference_fields()
    red = c.get_reducible_fields()
    rdesc = []
    for f in sorted(refs, key=lambda f: f.index):
        k, setlike = ref_kind(f.type)
        rdesc.append({'idx': f.index, 'name': f.name, 'kind': k, 'setlike': setlike})
    return {
        'code': CODE[c], 'name': c.__name__,
        'qual': issubclass(c, so.QualifiedObject),
        'sn': issubclass(c, (s_func.Function, s_oper.Operator)),
        'gobj': issubclass(c, so.GlobalObject),
        'nf': len(byidx), 'nameidx': fields['name'].index,
        'refs': rdesc,
        'reducible_equals_refs': refs == red,
        'name_is_ref': fields['name'] in refs,
        'fieldnames': [f.name for f in byidx],
    }


DESC = {CODE[c]: class_desc(c) for c in CLASSES}


XSTR = {}          # per-case extra strings (codes >= 100), from env segment 5 of the case line


def S_(code):
    return STR[code] if code < 100 else XSTR[code]


def C_(string):
    if string in STR:
        return STR.index(string)
    for k, v in XSTR.items():
        if v == string:
            return k
    raise ValueError(f'string {string!r} has no code in this case')


def str_name(n):
    if isinstance(n, sn.QualName):
        return f'Q{C_(n.module)}.{C_(n.name)}'
    return f'U{C_(n.name)}'


def mk_name(s):
    if s[0] == 'U':
        return sn.UnqualName(S_(int(s[1:])))
    m, x = s[1:].split('.')
    return sn.QualName(S_(int(m)), S_(int(x)))


def kfadj(ident):
    """the input predicate of known finding C04-KF1: an identifier that starts with '|' or ':',
    ends with '&' or '@', or contains '@@', '@&' or '&@' (so that, once qualified / joined with
    '@' / mangled again, a '|' run touches '::' or an '&' run touches '@')"""
    return any(c.startswith(('|', ':')) or c.endswith(('&', '@')) or '@@' in c or '@&' in c or '&@' in c
               for c in ident.split('::'))


def describe():
    shorts = {}
    names = [sn.UnqualName(s) for s in STR] + [sn.QualName(m, s) for m in STR[:NMOD] for s in STR]
    for n in names:
        sh = sn.shortname_from_fullname(n)
        if sh != n:
            shorts[str_name(n)] = str_name(sh)          # fails closed (ValueError) if not in STR
    return {
        'stubs': STUBS,
        'strings': STR, 'nmod': NMOD,
        'classes': [DESC[i] for i in range(len(CLASSES))],
        'module_cls': CODE[s_mod.Module],
        'special': [STR.index(m.name) for m in s_schema.SPECIAL_MODULES if m.name in STR],
        'special_all': [m.name for m in s_schema.SPECIAL_MODULES],
        'shorts': shorts,
        'function_cls': CODE[s_func.Function], 'operator_cls': CODE[s_oper.Operator],
        'schema_py_sha': hashlib.sha256(open(s_schema.__file__, 'rb').read()).hexdigest(),
    }


# ---------------------------------------------------------------- decoding
class Harness(Exception):
    pass


def parse_val(s):
    if s == '-':
        return None
    t, rest = s[0], s[1:]
    if t == 'N':
        return ('N', rest)
    if t == 'R':
        return ('R', [int(x) for x in rest.split('+')] if rest else [])
    if t == 'P':
        return ('P', int(rest))
    raise Harness('bad value ' + s)


def parse_fields(s):
    out = []
    for kv in (s.split(',') if s else []):
        k, v = kv.split('=', 1)
        out.append((int(k), parse_val(v)))
    return out


def parse_op(s):
    p = s.split(':')
    k = p[0]
    if k[0] == 'A':
        return ('A', k[1], int(p[1]), int(p[2]), parse_fields(p[3]))
    if k == 'U':
        return ('U', int(p[1]), int(p[2]), parse_fields(p[3]))
    if k == 'S':
        return ('S', int(p[1]), int(p[2]), int(p[3]), parse_val(p[4]))
    if k == 'X':
        return ('X', int(p[1]), int(p[2]), int(p[3]))
    if k in ('D', 'K'):
        return (k, int(p[1]), int(p[2]))
    if k == 'L':
        return ('L', p[1])
    raise Harness('bad op ' + s)


def parse_ops(s):
    return [parse_op(x) for x in s.split(';')] if s else []


def check_env(envs):
    """the class table / constants in the line must be what the real classes say"""
    parts = envs.split('|')
    XSTR.clear()
    if len(parts) > 5 and parts[5]:
        for j, hx in enumerate(parts[5].split(',')):
            XSTR[100 + j] = bytes.fromhex(hx).decode('utf-8')
    for cs in (parts[0].split('/') if parts[0] else []):
        code, fl, nf, ni, refs = cs.split(':')
        d = DESC[int(code)]
        want = ('1' if d['qual'] else '0') + ('1' if d['sn'] else '0') + ('1' if d['gobj'] else '0')
        if (fl != want or int(nf) != d['nf'] or int(ni) != d['nameidx']
                or [int(x) for x in refs.split('+') if x] != [r['idx'] for r in d['refs']]
                or not d['reducible_equals_refs'] or d['name_is_ref']):
            return f'class {d["name"]} differs from the line'
    if int(parts[1]) != CODE[s_mod.Module]:
        return 'module class code'
    if sorted(int(x) for x in parts[2].split('+') if x) != sorted(
            STR.index(m.name) for m in s_schema.SPECIAL_MODULES if m.name in STR):
        return 'SPECIAL_MODULES'
    for e in (parts[3].split(',') if len(parts) > 3 and parts[3] else []):
        a, b = e.split('>')
        if sn.shortname_from_fullname(mk_name(a)) != mk_name(b):
            return 'shortname table'
    return None


# ---------------------------------------------------------------- values
def handle(ccode, i):
    return so.Object.raw_schema_restore(CLASSES[ccode].__name__, U(i))


def field_of(ccode, idx):
    d = DESC[ccode]
    if idx >= d['nf']:
        return None
    return CLASSES[ccode].get_schema_field(d['fieldnames'][idx])


def build_unreduced(ccode, idx, ids, live_cls):
    """a real container object for reference field idx of class ccode holding ids"""
    f = field_of(ccode, idx)
    kind, setlike = ref_kind(f.type)
    us = [U(i) for i in ids]
    if kind == 'single':
        if len(us) != 1:
            raise Harness('single reference needs exactly one id')
        tc = live_cls.get(ids[0])
        return so.Object.raw_schema_restore(CLASSES[tc].__name__ if tc is not None else 'Object', us[0])
    if kind == 'expr':
        return s_expr.Expression(
            text='e', refs=so.ObjectSet(_ids=frozenset(us), _private_init=True))
    if kind == 'dict':
        return f.type(_ids=tuple(us), _keys=tuple(f'k{j}' for j in range(len(us))), _private_init=True)
    if kind == 'coll':
        return f.type(_ids=f.type._container(us), _private_init=True)
    raise Harness('not a reference field')


def mk_value(ccode, idx, v, live_cls, reduced):
    if v is None:
        return None
    t, x = v
    if t == 'N':
        return mk_name(x)
    if t == 'P':
        return x
    f = field_of(ccode, idx)
    if f is None or ref_kind(f.type)[0] is None:
        raise Harness('R value for a non-reference field')
    obj = build_unreduced(ccode, idx, x, live_cls)
    return obj.schema_reduce() if reduced else obj


def ids_of_reduced(kind, data):
    if kind == 'single':
        return [data[1].int]
    if kind == 'expr':
        return [u.int for u in data[1][2]] if data[1] is not None else []
    return [u.int for u in data[2]]


def dump_value(ccode, idx, v):
    try:
        return dump_value_(ccode, idx, v)
    except Exception:
        # only reachable in the out-of-model stream (value written through a handle of another
        # class): still a faithful fingerprint for the frozen / rejected-noop monitors
        return 'Z' + hashlib.md5(repr(v).encode()).hexdigest()[:10]


def dump_value_(ccode, idx, v):
    d = DESC[ccode]
    if idx == d['nameidx'] and isinstance(v, (sn.QualName, sn.UnqualName)):
        return 'N' + str_name(v)
    for r in d['refs']:
        if r['idx'] == idx:
            ids = ids_of_reduced(r['kind'], v)
            if r['setlike']:
                ids = sorted(ids)
            return 'R' + '+'.join(map(str, ids))
    if isinstance(v, int):
        return 'P' + str(v)
    raise Harness(f'cannot dump value {v!r}')


def sect(tag, entries):
    return tag + '[' + '~'.join(sorted(entries)) + ']'


def idset(ids):
    return '+'.join(sorted(str(i.int) for i in ids))


def dump_flat(S, cls_of):
    """canonical dump of the six maps of a FlatSchema; cls_of: class code per id (the harness'
    record of the class an id was added / upserted with, needed for ids without a type entry)"""
    D = []
    for i, data in S._id_to_data.items():
        tn = S._id_to_type.get(i)
        cc = CODE[so.ObjectMeta.get_schema_class(tn)] if tn is not None else cls_of[i.int]
        D.append(f'{i.int}=' + ','.join(sorted(
            f'{k}:{dump_value(cc, k, v)}' for k, v in enumerate(data) if v is not None)))
    T = [f'{i.int}>{CODE[so.ObjectMeta.get_schema_class(t)]}' for i, t in S._id_to_type.items()]
    N = [f'{str_name(n)}>{i.int}' for n, i in S._name_to_id.items()]
    G = [f'{CODE[c]},{str_name(n)}>{i.int}' for (c, n), i in S._globalname_to_id.items()]
    H = [f'{CODE[c]},{str_name(n)}>{{{idset(ids)}}}' for (c, n), ids in S._shortname_to_id.items()]
    R = []
    for t, m in S._refs_to.items():
        inner = sorted(f'{CODE[c]},{CLASSES[CODE[c]].get_schema_field(fn).index}>{{{idset(ids.keys())}}}'
                       for (c, fn), ids in m.items())
        R.append(f'{t.int}>{{' + '&'.join(inner) + '}')
    return sect('D', D) + sect('T', T) + sect('N', N) + sect('G', G) + sect('H', H) + sect('R', R)


def dump(S, cls_of):
    if isinstance(S, s_schema.ChainedSchema):
        return ('B' + dump_flat(S._base_schema, cls_of) + '^T' + dump_flat(S._top_schema, cls_of)
                + '^G' + dump_flat(S._global_schema, cls_of))
    return dump_flat(S, cls_of)


def attrs(S):
    """identity of everything a schema value holds (caches excluded)"""
    if isinstance(S, s_schema.ChainedSchema):
        return (('b',) + attrs(S._base_schema) + ('t',) + attrs(S._top_schema)
                + ('g',) + attrs(S._global_schema))
    return tuple((k, id(v)) for k, v in sorted(S.__dict__.items()) if not k.endswith('_cached')
                 and k != '_generation') + (('gen', S._generation),)


# ---------------------------------------------------------------- monitors
def recompute(S):
    """indexes determined by the objects' own data, from scratch, with the real class metadata"""
    name_idx, glob_idx, short_idx, refs_idx = {}, {}, {}, {}
    dup = []
    for i, tn in S._id_to_type.items():
        c = so.ObjectMeta.get_schema_class(tn)
        d = DESC[CODE[c]]
        data = S._id_to_data.get(i)
        if data is None:
            continue
        nm = data[d['nameidx']]
        if nm is not None:
            if d['qual']:
                name_idx.setdefault(nm, set()).add(i)
            else:
                if (c, nm) in glob_idx:
                    dup.append((c.__name__, str(nm)))
                glob_idx[(c, nm)] = i
            if d['sn']:
                short_idx.setdefault((c, sn.shortname_from_fullname(nm)), set()).add(i)
        for r in d['refs']:
            v = data[r['idx']]
            if v is None:
                continue
            for t in ids_of_reduced(r['kind'], v):
                refs_idx.setdefault(U(t), {}).setdefault((c, r['name']), set()).add(i)
    return name_idx, glob_idx, short_idx, refs_idx, dup


def mon_index(S, delisted):
    bad = []
    if set(S._id_to_type.keys()) != set(S._id_to_data.keys()):
        bad.append('index-type-keys')
    name_idx, glob_idx, short_idx, refs_idx, dup = recompute(S)
    if dup:
        bad.append('index-global-name-not-unique')
    actual = dict(S._name_to_id.items())
    for n, i in actual.items():                       # sound: every entry is justified
        if i not in name_idx.get(n, ()):
            bad.append('index-name-stale-entry')
            break
    for n, ids in name_idx.items():                   # complete, modulo delist
        if n in delisted:
            continue
        if len(ids) != 1 or actual.get(n) not in ids:
            bad.append('index-name-missing-or-ambiguous')
            break
    if dict(S._globalname_to_id.items()) != glob_idx:
        bad.append('index-globalname')
    if {k: set(v) for k, v in S._shortname_to_id.items()} != short_idx:
        bad.append('index-shortname')
    act_refs = {}
    for t, m in S._refs_to.items():
        for k, ids in m.items():
            if len(ids) == 0:
                bad.append('index-refs-empty-set-kept')
            act_refs.setdefault(t, {})[k] = set(ids.keys())
    act_refs = {t: m for t, m in act_refs.items() if m}
    if act_refs != refs_idx:
        bad.append('index-refs')
    return bad


def mon_api(S, delisted, universe):
    bad = []
    name_idx, glob_idx, short_idx, refs_idx, _ = recompute(S)
    ids = set(S._id_to_type.keys())
    try:
        got = {o.id for o in S.get_objects(exclude_internal=False)}
        if got != ids:
            bad.append('api-get_objects')
        for i in ids:
            c = so.ObjectMeta.get_schema_class(S._id_to_type[i])
            d = DESC[CODE[c]]
            o = S.get_by_id(i)
            if type(o) is not c or o.id != i or not S.has_object(i):
                bad.append('api-get_by_id')
            nm = S._id_to_data[i][d['nameidx']]
            if nm is None:
                continue
            if o.get_name(S) != nm:
                bad.append('api-get_name')
            if d['qual']:
                if nm not in delisted:
                    g = S.get(nm, None)
                    if g is None or g.id != i or type(g) is not c:
                        bad.append('api-get-by-name')
            else:
                g = S.get_global(c, nm, None)
                if g is None or g.id != i:
                    bad.append('api-get_global')
        for t in universe:
            h = so.Object.raw_schema_restore('Object', t)
            want = set()
            for k, rs in refs_idx.get(t, {}).items():
                want |= rs
            got = {o.id for o in S.get_referrers(h)}
            if got != want:
                bad.append('api-get_referrers')
            for (c, fn), rs in refs_idx.get(t, {}).items():
                got = {o.id for o in S.get_referrers(h, scls_type=c, field_name=fn)}
                want = set()
                for (c2, fn2), rs2 in refs_idx.get(t, {}).items():
                    if issubclass(c2, c) and fn2 == fn:
                        want |= rs2
                if got != want:
                    bad.append('api-get_referrers-by-field')
        for (c, shn), rs in short_idx.items():
            if c is s_func.Function:
                got = {o.id for o in s_schema._get_functions(S, shn) or ()}
            elif c is s_oper.Operator:
                got = {o.id for o in s_schema._get_operators(S, shn) or ()}
            else:
                continue
            if got != rs:
                bad.append('api-shortname-lookup')
    except Harness:
        raise
    except Exception as e:   # noqa
        bad.append('api-raised-' + type(e).__name__)
    return sorted(set(bad))


def mon_dropped(S, i, old_name, old_cls, universe):
    """object i (deleted by the last op) must be reachable through nothing"""
    bad = []
    try:
        if S.get_by_id(i, None) is not None or S.has_object(i) or i in S._id_to_data:
            bad.append('dropped-still-by-id')
        if any(o.id == i for o in S.get_objects(exclude_internal=False)):
            bad.append('dropped-in-get_objects')
        if old_name is not None:
            if DESC[old_cls]['qual']:
                g = S.get(old_name, None) if isinstance(old_name, sn.QualName) else None
            else:
                g = S.get_global(CLASSES[old_cls], old_name, None)
            if g is not None and g.id == i:
                bad.append('dropped-still-by-name')
            if DESC[old_cls]['sn']:
                shn = sn.shortname_from_fullname(old_name)
                if i in (S._shortname_to_id.get((CLASSES[old_cls], shn)) or ()):
                    bad.append('dropped-still-by-shortname')
        for t in universe:
            h = so.Object.raw_schema_restore('Object', t)
            if any(o.id == i for o in S.get_referrers(h)):
                bad.append('dropped-still-a-referrer')
    except LookupError:
        bad.append('dropped-dangling-index-entry')
    return sorted(set(bad))


# ---------------------------------------------------------------- running one case
def classify(e):
    tb = traceback.extract_tb(e.__traceback__)
    if any(fr.name == 'get_verbosename' for fr in tb):
        return 'SchemaError'
    return type(e).__name__


def flat_part(S, ccode_handle):
    """the FlatSchema an op with this handle class is routed to"""
    if isinstance(S, s_schema.ChainedSchema):
        return S._global_schema if DESC[ccode_handle]['gobj'] else S._top_schema
    return S


def apply_op(S, op, live_cls):
    k = op[0]
    if k == 'A':
        _, how, i, c, fields = op
        d = DESC[c]
        data = [None] * d['nf']
        for idx, v in fields:
            data[idx] = mk_value(c, idx, v, live_cls, reduced=(how == 'r'))
        if how == 'r':
            return S.add_raw(U(i), CLASSES[c], tuple(data))
        return S.add(U(i), CLASSES[c], tuple(data))
    if k == 'U':
        _, hc, i, fields = op
        d = DESC[hc]
        upd = {}
        for idx, v in fields:
            fname = d['fieldnames'][idx] if idx < d['nf'] else f'nosuchfield{idx}'
            upd[fname] = mk_value(hc, idx, v, live_cls, reduced=False) if idx < d['nf'] else 0
        return S.update_obj(handle(hc, i), upd)
    if k in ('S', 'X'):
        hc, i, idx = op[1], op[2], op[3]
        # the field name is resolved in the class the object is stored with (as a caller
        # holding a handle from get_by_id would); hc only routes in a ChainedSchema
        part = flat_part(S, hc)
        tn = part._id_to_type.get(U(i))
        c = CODE[so.ObjectMeta.get_schema_class(tn)] if tn is not None else hc
        d = DESC[c]
        fname = d['fieldnames'][idx] if idx < d['nf'] else f'nosuchfield{idx}'
        if k == 'X':
            return S.unset_obj_field(handle(hc, i), fname)
        v = op[4]
        val = mk_value(c, idx, v, live_cls, reduced=False) if idx < d['nf'] else 0
        return S.set_obj_field(handle(hc, i), fname, val)
    if k == 'D':
        return S.delete(handle(op[1], op[2]))
    if k == 'K':
        return S.discard(handle(op[1], op[2]))
    if k == 'L':
        return S.delist(mk_name(op[1]))
    raise Harness('bad op')


def wf_op(S, op):
    """inside the scope of the index theorem? (update_obj only on a live object; handle class =
    stored class for live objects).  Checked against the real schema value."""
    k = op[0]
    if k in ('U', 'D', 'K'):
        hc, i = op[1], op[2]
        part = flat_part(S, hc)
        tn = part._id_to_type.get(U(i))
        if tn is None:
            if k == 'U' and op[3] and not isinstance(S, s_schema.ChainedSchema):
                return False
            if k == 'U' and op[3] and isinstance(S, s_schema.ChainedSchema):
                # allowed only when the object comes from the base schema with this class
                btn = S._base_schema._id_to_type.get(U(i)) if not DESC[hc]['gobj'] else None
                return btn is not None and CODE[so.ObjectMeta.get_schema_class(btn)] == hc
            return U(i) not in part._id_to_data
        return CODE[so.ObjectMeta.get_schema_class(tn)] == hc
    return True


def run_case(line):
    mode, envs, opss = line.split('#')
    err = check_env(envs)
    if err:
        return 'ENVMISMATCH ' + err
    verbose = len(mode) > 1 and mode[1] == 'V'
    ops = parse_ops(opss)
    cls_of = {}          # class code an id was last added / upserted with
    live_cls = {}
    universe = set()
    for op in ops:
        if op[0] == 'A':
            universe.add(U(op[2]))
            for _, v in op[4]:
                if v and v[0] == 'R':
                    universe.update(U(x) for x in v[1])
        elif op[0] in ('U', 'S', 'X', 'D', 'K'):
            universe.add(U(op[2]))

    def note_cls(op, Sbefore):
        # called after an op was accepted: remember the class an id entered the schema with
        if op[0] == 'A':
            cls_of[op[2]] = op[3]
        elif op[0] == 'U' and op[3]:
            part = flat_part(Sbefore, op[1])
            if U(op[2]) not in part._id_to_data:
                cls_of[op[2]] = op[1]

    S = s_schema.FlatSchema()
    if mode[0] == 'C':
        parts = envs.split('|')
        base = s_schema.FlatSchema()
        for op in parse_ops(parts[4] if len(parts) > 4 else ''):
            try:
                nb = apply_op(base, op, live_cls)
                note_cls(op, base)
                base = nb
                if op[0] == 'A':
                    live_cls[op[2]] = op[3]
            except Harness:
                raise
            except Exception:
                pass
        S = s_schema.ChainedSchema(base, s_schema.FlatSchema(), s_schema.FlatSchema())

    fails = [f'{b}@0' for b in mon_intended(envs)]
    out = []
    wf = True
    delisted = set()
    snaps = [(S, dump(S, cls_of))]
    for n, op in enumerate(ops):
        before_attrs = attrs(S)
        before_dump = snaps[-1][1]
        opwf = wf_op(S, op)
        # what a delete is about to drop
        drop = None
        if op[0] in ('D', 'K'):
            part = flat_part(S, op[1])
            dd = part._id_to_data.get(U(op[2]))
            if dd is not None:
                drop = (U(op[2]), dd[DESC[op[1]]['nameidx']], op[1])
        try:
            S2 = apply_op(S, op, live_cls)
            status = 'ok'
        except Harness:
            raise
        except Exception as e:  # noqa
            status = classify(e)
            S2 = None
        if S2 is None:
            if attrs(S) != before_attrs:
                fails.append(f'rejected-op-changed-schema-attributes@{n}')
            if dump(S, cls_of) != before_dump:
                fails.append(f'rejected-op-changed-schema@{n}')
        else:
            note_cls(op, S)
            if dump(S, cls_of) != before_dump:
                fails.append(f'frozen-previous-value-changed@{n}')
            S = S2
            if not opwf:
                wf = False
            if op[0] == 'A':
                live_cls[op[2]] = op[3]
            if op[0] == 'L':
                delisted.add(mk_name(op[1]))
            if op[0] in ('D', 'K') and drop is not None:
                live_cls.pop(op[2], None)
            snaps.append((S, dump(S, cls_of)))
            if wf:
                flats = ([S._top_schema, S._global_schema] if isinstance(S, s_schema.ChainedSchema)
                         else [S])
                for F in flats:
                    for b in mon_index(F, delisted):
                        fails.append(f'{b}@{n}')
                    for b in mon_api(F, delisted, universe):
                        fails.append(f'{b}@{n}')
                if drop is not None and op[0] in ('D', 'K'):
                    F = flat_part(S, op[1])
                    for b in mon_dropped(F, *drop, universe):
                        fails.append(f'{b}@{n}')
        st = snaps[-1][1]
        out.append(status + '@' + (st if verbose else hashlib.md5(st.encode()).hexdigest()[:8]))
    for k, (Sk, dk) in enumerate(snaps):
        if dump(Sk, cls_of) != dk:
            fails.append(f'frozen-value-{k}-changed-later')
    res = ';'.join(out) + '|' + snaps[-1][1]
    # one tag per kind (position of the first occurrence kept)
    seen = set()
    for f in fails:
        kind = f.split('@')[0]
        if kind not in seen:
            seen.add(kind)
            res += ' !' + f
    return res



# ---------------------------------------------------------------- name mangling (function level)
def mangle_batch(items):
    """for the generator: [base module, base local, quals, module] -> the real specialized local
    name and the real shortname of QualName(module, specialized)"""
    out = []
    for bm, bl, quals, m in items:
        spec = sn.get_specialized_name(sn.QualName(bm, bl), *quals)
        sh = sn.shortname_from_fullname(sn.QualName(m, spec))
        out.append({'spec': spec,
                    'short': ['Q', sh.module, sh.name] if isinstance(sh, sn.QualName) else ['U', sh.name]})
    return out


def run_names_case(line):
    """direct monitors on name.py: round trip of mangle/unmangle, shortname / qualifiers of a
    specialized (child) name recover what it was built from, construction is injective"""
    items = json.loads(line)
    fails = []
    seen = {}
    for n, (bm, bl, quals) in enumerate(items):
        k = 'kfadj-' if (kfadj(bl) or kfadj(bm) or any(kfadj(q) or q.startswith(('&', '@')) for q in quals)) else ''
        for x in [bl, f'{bm}::{bl}'] + list(quals):
            if sn.unmangle_name(sn.mangle_name(x)) != x:
                fails.append(f'{k}mangle-roundtrip@{n}')
        base = sn.QualName(bm, bl)
        spec = sn.get_specialized_name(base, *quals)
        full = sn.QualName(bm, spec)
        if sn.shortname_from_fullname(full) != base:
            fails.append(f'{k}mangle-shortname@{n}')
        if list(sn.quals_from_fullname(full)) != [q for q in quals if q]:
            fails.append(f'{k}mangle-quals@{n}')
        # one level deeper (a child of the child: link property, constraint on a pointer)
        spec2 = sn.get_specialized_name(sn.QualName(bm, 'c'), str(full))
        full2 = sn.QualName(bm, spec2)
        if (list(sn.quals_from_fullname(full2)) != [str(full)]
                or sn.shortname_from_fullname(full2) != sn.QualName(bm, 'c')):
            fails.append(f'{k}mangle-nested@{n}')
        key = (bm, bl, tuple(q for q in quals if q))
        other = seen.get(spec)
        if other is not None and other[0] != key:
            k2 = 'kfadj-' if (k or other[1]) else ''
            fails.append(f'{k2}mangle-collision@{n}')
        seen.setdefault(spec, (key, k))
    res = f'{len(items)}'
    done = set()
    for f in fails:
        kind = f.split('@')[0]
        if kind not in done:
            done.add(kind)
            res += ' !' + f
    return res


def mon_intended(envs):
    """layer 1: the generator built these full names from a known base name; the real
    shortname_from_fullname must give that base back"""
    parts = envs.split('|')
    bad = []
    for e in (parts[6].split(',') if len(parts) > 6 and parts[6] else []):
        full, want, k = e.split('>')
        if sn.shortname_from_fullname(mk_name(full)) != mk_name(want):
            bad.append(('kfadj-' if k == '1' else '') + 'mangle-shortname')
    return sorted(set(bad))


# ---------------------------------------------------------------- Layer 2: real DDL
def ddl_setup():
    import vrt
    std = vrt.std_schema()
    return vrt, std


def refs_of_object(S, F, i):
    """(field name, target uuid) for every reference held by object i of FlatSchema F"""
    c = so.ObjectMeta.get_schema_class(F._id_to_type[i])
    d = DESC[CODE[c]]
    data = F._id_to_data[i]
    for r in d['refs']:
        v = data[r['idx']]
        if v is None:
            continue
        for t in ids_of_reduced(r['kind'], v):
            yield r['name'], U(t)


def mon_refint(S):
    """every reference held by an object of the user schema resolves in the same schema"""
    bad = []
    for F in (S._top_schema, S._global_schema):
        for i in F._id_to_type.keys():
            for fn, t in refs_of_object(S, F, i):
                if S.get_by_id(t, None) is None:
                    c = F._id_to_type[i]
                    bad.append(f'refint-dangling-{c}.{fn}')
    return sorted(set(bad))[:4]


def mon_chained_api(S):
    """lookups through the ChainedSchema agree with the objects' own data"""
    bad = []
    top = S._top_schema
    try:
        for i, tn in top._id_to_type.items():
            c = so.ObjectMeta.get_schema_class(tn)
            o = S.get_by_id(i)
            if type(o) is not c:
                bad.append('ddl-api-get_by_id')
            nm = top._id_to_data[i][DESC[CODE[c]]['nameidx']]
            if o.get_name(S) != nm:
                bad.append('ddl-api-get_name')
            if DESC[CODE[c]]['qual'] and top._name_to_id.get(nm) == i:
                g = S.get(nm, None)
                if g is None or g.id != i:
                    bad.append('ddl-api-get-by-name')
            # referrers: whoever the chained schema reports must really refer to the object
            for r in S.get_referrers(o):
                F = top if r.id in top._id_to_type else (
                    S._global_schema if r.id in S._global_schema._id_to_type else S._base_schema)
                if r.id not in F._id_to_type or all(t != i for _, t in refs_of_object(S, F, r.id)):
                    bad.append('ddl-api-get_referrers-stale')
    except Exception as e:  # noqa
        bad.append('ddl-api-raised-' + type(e).__name__)
    return sorted(set(bad))


BACKREFS = ('source', 'subject')


def mon_refdicts(S):
    """owned children: listed under their OWN key in the owner's refdict, siblings never
    collide, the child's back-reference is the owner, its derived name names the owner, and
    no object with a back-reference is missing from its owner's refdict (orphan)"""
    bad = []
    top = S._top_schema
    owned = set()
    try:
        for i, tn in top._id_to_type.items():
            c = so.ObjectMeta.get_schema_class(tn)
            rds = c.get_refdicts()
            if not rds:
                continue
            o = S.get_by_id(i)
            oname = str(o.get_name(S))
            for rd in rds:
                coll = o.get_field_value(S, rd.attr)
                if not coll:
                    continue
                keys = list(coll.keys(S))
                objs = coll.objects(S)
                if len(set(keys)) != len(keys) or len({x.id for x in objs}) != len(objs):
                    bad.append('refdict-sibling-collision')
                for k, ch in zip(keys, objs):
                    owned.add(ch.id)
                    if type(coll).get_key_for(S, ch) != k:
                        bad.append('refdict-stale-key')
                    if ch.get_field_value(S, rd.backref_attr) != o:
                        bad.append('refdict-backref')
                    nm = ch.get_name(S)
                    if isinstance(nm, sn.QualName) and '@' in nm.name:
                        qs = sn.quals_from_fullname(nm)
                        if not qs or qs[0] != oname:
                            bad.append('refdict-child-name-owner')
        for i, tn in top._id_to_type.items():
            if i in owned:
                continue
            c = so.ObjectMeta.get_schema_class(tn)
            fields = c.get_schema_fields()
            for b in BACKREFS:
                if b in fields:
                    v = top._id_to_data[i][fields[b].index]
                    if v is not None:
                        owner = S.get_by_id(v[1], None)
                        # an owner without any refdict for this class (e.g. a parameter-like
                        # subject) is not an ownership relation
                        if owner is None or any(issubclass(c, rd.ref_cls) for rd in type(owner).get_refdicts()):
                            bad.append('orphan-child')
    except LookupError:
        bad.append('refdict-dangling')
    return sorted(set(bad))


def mon_names(S):
    """a derived (specialized) name decodes to a short name and qualifiers that encode back to it"""
    from edb.schema import referencing as s_ref
    derived = (s_ref.ReferencedObject, s_func.CallableObject, s_func.Parameter)
    top = S._top_schema
    for i, tn in top._id_to_type.items():
        c = so.ObjectMeta.get_schema_class(tn)
        if not issubclass(c, derived):
            continue        # a plain object may legitimately spell '@' in its own identifier
        nm = top._id_to_data[i][DESC[CODE[c]]['nameidx']]
        if isinstance(nm, sn.QualName) and '@' in nm.name:
            if sn.get_specialized_name(sn.shortname_from_fullname(nm), *sn.quals_from_fullname(nm)) != nm.name:
                return ['name-remangle']
    return []


def mon_expect(S, exp):
    bad = []
    D = lambda n: sn.QualName('default', n)
    for e in exp:
        k = e[0]
        try:
            if k in ('ptr', 'noptr'):
                o = S.get(D(e[1]), None)
                if o is None:
                    bad.append('expect-owner-missing')
                    continue
                p = o.maybe_get_ptr(S, sn.UnqualName(e[2]))
                if k == 'ptr':
                    if p is None:
                        bad.append('expect-ptr-not-under-own-name')
                    elif p.get_shortname(S).name != e[2] or p.get_source(S) != o:
                        bad.append('expect-ptr-wrong-object')
                elif p is not None:
                    bad.append('expect-ptr-still-there')
            elif k in ('obj', 'noobj'):
                o = S.get(D(e[1]), None)
                if k == 'obj' and (o is None or str(o.get_name(S)) != f'default::{e[1]}'):
                    bad.append('expect-object-not-under-own-name')
                if k == 'noobj' and o is not None:
                    bad.append('expect-object-still-there')
            elif k in ('func', 'nofunc'):
                fs = S.get_functions(D(e[1]), ())
                if k == 'func' and not fs:
                    bad.append('expect-function-not-under-own-name')
                if k == 'nofunc' and fs:
                    bad.append('expect-function-still-there')
        except Exception as x:  # noqa
            bad.append('expect-raised-' + type(x).__name__)
    return bad


NAME_TAGS = ('refdict-', 'orphan-child', 'name-remangle', 'expect-', 'sibling-create-collision')


def kf2_predicate(st):
    """input predicate of known finding C04-KF2: one ALTER TYPE command renames a pointer p and, in
    the same command, a pointer named p comes (back) into the type -- inherited through
    EXTENDING or created again"""
    import re
    if not st.startswith('ALTER TYPE'):
        return False
    ident = r'(`(?:[^`]|``)*`|[^\s{;]+)'
    for m in re.finditer(r'ALTER (?:PROPERTY|LINK) ' + ident + r' \{ RENAME TO', st):
        p_ = m.group(1)
        if 'EXTENDING' in st:
            return True
        if re.search(r'CREATE (?:REQUIRED |OPTIONAL |MULTI |SINGLE )*(?:PROPERTY|LINK) ' + re.escape(p_) + r'[ :]', st):
            return True
    return False


def fingerprint(S):
    import pickle
    maps = tuple((F._id_to_data, F._id_to_type, F._name_to_id, F._shortname_to_id,
                  F._globalname_to_id, F._refs_to) for F in (S._top_schema, S._global_schema))
    return hashlib.md5(pickle.dumps(maps)).hexdigest()


def run_ddl_case(line, vrt, std):
    stmts = json.loads(line)
    kf = False
    if isinstance(stmts, dict):
        kf = bool(stmts.get('k'))
        stmts = stmts['h']
    S = s_schema.ChainedSchema(std, s_schema.EMPTY_SCHEMA, s_schema.EMPTY_SCHEMA)
    fails, out = [], []
    rr = False           # a command inside the input predicate of known finding C04-KF2 was accepted
    classes_seen = set()
    snaps = [(S, fingerprint(S))]
    base_attrs = attrs(std)
    for n, item in enumerate(stmts):
        st, exp, must = (item, [], False) if isinstance(item, str) else (
            item[0], item[1], len(item) > 2 and bool(item[2]))
        before = attrs(S)
        before_fp = snaps[-1][1]
        before_ids = set(S._top_schema._id_to_type.keys()) | set(S._global_schema._id_to_type.keys())
        before_names = {i: S._top_schema._id_to_data[i][2] for i in S._top_schema._id_to_type.keys()}
        try:
            S2 = vrt.run_ddl(S, st)
            status = 'ok'
        except Exception as e:  # noqa
            S2 = None
            status = type(e).__name__
            if must and 'already exists' in str(e):
                fails.append(f'sibling-create-collision@{n}')
        if fingerprint(S) != before_fp or attrs(S) != before:
            fails.append(('rejected-ddl-changed-schema' if S2 is None else 'frozen-previous-value-changed') + f'@{n}')
        if S2 is not None:
            S = S2
            if kf2_predicate(st):
                rr = True
            snaps.append((S, fingerprint(S)))
            classes_seen.update(S._top_schema._id_to_type.values())
            for F in (S._top_schema, S._global_schema):
                for b in mon_index(F, set()):
                    fails.append(f'{b}@{n}')
            for b in mon_refint(S) + mon_chained_api(S) + mon_refdicts(S) + mon_names(S) + mon_expect(S, exp):
                if rr and b == 'refdict-child-name-owner':
                    b = 'kfrr-' + b      # rename + rebase in one ALTER: known finding C04-KF2
                fails.append(f'{b}@{n}')
            after_ids = set(S._top_schema._id_to_type.keys()) | set(S._global_schema._id_to_type.keys())
            for i in before_ids - after_ids:
                if S.get_by_id(i, None) is not None:
                    fails.append(f'dropped-still-by-id@{n}')
                nm = before_names.get(i)
                if isinstance(nm, sn.QualName):
                    g = S.get(nm, None)
                    if g is not None and g.id == i:
                        fails.append(f'dropped-still-by-name@{n}')
        out.append(status)
    if attrs(std) != base_attrs:
        fails.append('base-schema-changed')
    for k, (Sk, fk) in enumerate(snaps):
        if fingerprint(Sk) != fk:
            fails.append(f'frozen-value-{k}-changed-later')
    nobj = len(S._top_schema._id_to_type)
    res = '|'.join(out) + f'#{nobj}#' + ','.join(sorted(classes_seen))
    seen = set()
    for f in fails:
        if kf and f.startswith(NAME_TAGS):
            f = 'kfadj-' + f         # attributable to the identifiers of known finding C04-KF1
        kind = f.split('@')[0]
        if kind not in seen:
            seen.add(kind)
            res += ' !' + f
    return res

def main():
    if len(sys.argv) > 2 and sys.argv[2] == 'describe':
        json.dump(describe(), sys.stdout)
        return
    out = []
    mode = sys.argv[2] if len(sys.argv) > 2 else 'run'
    if mode == 'mangle':
        json.dump(mangle_batch(json.load(sys.stdin)), sys.stdout)
        return
    if mode == 'names':
        for line in sys.stdin:
            if line.strip():
                out.append(run_names_case(line))
        sys.stdout.write('\n'.join(out) + '\n')
        return
    ddl = mode == 'ddl'
    if ddl:
        vrt_, std_ = ddl_setup()
    for line in sys.stdin:
        line = line.rstrip('\n')
        if not line:
            continue
        try:
            out.append(run_ddl_case(line, vrt_, std_) if ddl else run_case(line))
        except Harness as e:
            out.append('HARNESS-ERROR ' + str(e))
        except Exception as e:    # noqa: the observation itself failed (schema in a state the
            # dump / monitors cannot read): reported as a failure of this case, not of the run
            tb = traceback.extract_tb(e.__traceback__)
            where = ';'.join(f'{os.path.basename(f.filename)}:{f.lineno}:{f.name}' for f in tb[-3:])
            out.append(f'CRASH@0|{type(e).__name__} {str(e)[:120]} [{where}] !driver-crash@0'.replace('\n', ' '))
    sys.stdout.write('\n'.join(out) + '\n')


main()
