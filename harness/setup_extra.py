"""Optional builders run by setup: the Rust lexer binary (offline, vendored crates)."""
import os
import subprocess
import lib


def main():
    sh = os.path.join(lib.VERIF, 'rust', 'build.sh')
    if os.path.exists(sh):
        env = dict(os.environ, CARGO_NET_OFFLINE='true')
        p = subprocess.run(['sh', sh], env=env, stdout=subprocess.PIPE, stderr=subprocess.STDOUT,
                           text=True, timeout=1800)
        print('rust lexer build:', 'ok' if p.returncode == 0 else 'FAILED')
        if p.returncode != 0:
            print(p.stdout[-2000:])
