"""Shared machinery of the /verif checks: Coq build + assumption audit, extraction,
model runner, evidence writer, verdict/replay handling, known findings.

Every check is  ./harness/check Cnn --tier quick|thorough [--replay FILE].
"""
from __future__ import annotations

import fcntl
import glob
import hashlib
import json
import os
import random
import re
import shutil
import subprocess
import sys
import time

VERIF = os.path.dirname(os.path.dirname(os.path.abspath(__file__)))
REPO = os.environ.get('VERIF_REPO', '/repo')
COQ = os.path.join(VERIF, 'coq')
CACHE = os.path.join(VERIF, 'cache')
OCAML_BUILD = os.path.join(CACHE, 'ocaml')
EVIDENCE = os.environ.get('VERIF_EVIDENCE_DIR') or os.path.join(VERIF, 'evidence')
REPLAYS = os.environ.get('VERIF_REPLAYS_DIR') or os.path.join(VERIF, 'replays')
PY = '/venv/bin/python'

ALLOWED_AXIOMS: set[str] = set()   # target: every theorem closed under the global context

FORBIDDEN = re.compile(
    r'\b(Admitted|admit|Axiom|Axioms|Parameter|Parameters|Conjecture|Conjectures|'
    r'Abort All|bypass_check|Unset\s+Guard|Unset\s+Positivity|Unset\s+Universe|'
    r'type-in-type|impredicative-set|native_compute|Admit\s+Obligations)\b')
TOPLEVEL_VAR = re.compile(r'^\s*(Variable|Variables|Hypothesis|Hypotheses)\b')


def seed() -> int:
    try:
        return int(os.environ.get('VERIF_SEED', '20260923'))
    except ValueError:
        return 20260923


def sh(cmd, timeout=None, cwd=None, env=None, input=None):
    p = subprocess.run(cmd, cwd=cwd, env=env, input=input, timeout=timeout,
                       stdout=subprocess.PIPE, stderr=subprocess.STDOUT, text=True)
    return p.returncode, p.stdout


class Lock:
    def __init__(self, name):
        os.makedirs(CACHE, exist_ok=True)
        self.path = os.path.join(CACHE, name + '.lock')

    def __enter__(self):
        self.f = open(self.path, 'w')
        fcntl.flock(self.f, fcntl.LOCK_EX)
        return self

    def __exit__(self, *a):
        fcntl.flock(self.f, fcntl.LOCK_UN)
        self.f.close()


# --------------------------------------------------------------------------
# Coq
# --------------------------------------------------------------------------

def coq_files():
    fs = sorted(glob.glob(os.path.join(COQ, 'theories', '**', '*.v'), recursive=True))
    return [os.path.relpath(f, COQ) for f in fs]


def hygiene(dirs):
    """grep the development for anything that would declare an axiom or switch a
    kernel check off.  Comments are stripped first.  Returns list of offences."""
    bad = []
    for f in coq_files() + [os.path.relpath(p, COQ) for p in glob.glob(os.path.join(COQ, 'extraction', '*.v'))]:
        if not any(('/' + d + '/') in ('/' + f) for d in dirs):
            continue
        src = open(os.path.join(COQ, f), encoding='utf-8').read()
        src = strip_comments(src)
        depth = 0
        for i, line in enumerate(src.split('\n'), 1):
            m = FORBIDDEN.search(line)
            if m:
                bad.append(f'{f}:{i}: {m.group(0)}')
            if re.match(r'^\s*Section\b', line):
                depth += 1
            if re.match(r'^\s*End\b', line) and depth > 0:
                depth -= 1
            if depth == 0 and TOPLEVEL_VAR.match(line):
                bad.append(f'{f}:{i}: top-level Variable/Hypothesis')
    return bad


def strip_comments(src: str) -> str:
    out = []
    depth = 0
    i = 0
    n = len(src)
    while i < n:
        if src.startswith('(*', i):
            depth += 1
            i += 2
        elif src.startswith('*)', i) and depth > 0:
            depth -= 1
            i += 2
        else:
            if depth == 0:
                out.append(src[i])
            elif src[i] == '\n':
                out.append('\n')
            i += 1
    return ''.join(out)


def _dir_deps(d):
    """directories (under theories/) that files of theories/<d> import from"""
    deps = set()
    for f in glob.glob(os.path.join(COQ, 'theories', d, '*.v')):
        try:
            src = open(f, encoding='utf-8').read()
        except OSError:
            continue
        for m in re.finditer(r'(?:From\s+Verif\.([A-Za-z0-9_]+)|Require\s+(?:Import\s+|Export\s+)?Verif\.([A-Za-z0-9_]+))', src):
            deps.add(m.group(1) or m.group(2))
    deps.discard(d)
    return deps


def _closure(dirs):
    todo, seen = list(dirs), set()
    while todo:
        d = todo.pop()
        if d in seen or not os.path.isdir(os.path.join(COQ, 'theories', d)):
            continue
        seen.add(d)
        todo.extend(_dir_deps(d))
    return seen


def write_coqproject(dirs=None):
    """Write a project file + Makefile restricted to the given theory directories and
    what they import (so a broken file of another property cannot break this build).
    Returns the Makefile name."""
    if dirs is None:
        dirs = {f.split('/')[1] for f in coq_files()}
    dirs = _closure(set(dirs) | {'Common'})
    files = [f for f in coq_files() if f.split('/')[1] in dirs]
    key = hashlib.sha256(' '.join(sorted(dirs)).encode()).hexdigest()[:12]
    lines = ['-Q theories Verif',
             '-arg -w -arg -notation-overridden,-deprecated-hint-without-locality,-deprecated-instance-without-locality']
    lines += files
    txt = '\n'.join(lines) + '\n'
    proj = os.path.join(COQ, f'_CoqProject.{key}')
    mk = f'Makefile.{key}'
    old = open(proj).read() if os.path.exists(proj) else None
    if old != txt or not os.path.exists(os.path.join(COQ, mk)):
        open(proj, 'w').write(txt)
        rc, out = sh(['coq_makefile', '-f', os.path.basename(proj), '-o', mk], cwd=COQ, timeout=120)
        if rc != 0:
            raise RuntimeError('coq_makefile failed:\n' + out)
    return mk


def coq_make(targets, timeout=1500, clean=False):
    """Build the given .vo targets (paths relative to coq/).  Full .vo builds only."""
    with Lock('coq'):
        dirs = {t.split('/')[1] for t in targets if t.startswith('theories/')}
        mk = write_coqproject(dirs)
        if clean:
            # thorough: rebuild the whole directory of every target from scratch
            for d in {os.path.dirname(t) for t in targets}:
                for f in glob.glob(os.path.join(COQ, d, '*')):
                    if f.endswith(('.vo', '.vok', '.vos', '.glob')):
                        os.remove(f)
        t0 = time.time()
        try:
            rc, out = sh(['make', '-f', mk, '-j16'] + targets, cwd=COQ, timeout=timeout)
        except subprocess.TimeoutExpired:
            return False, 'TIMEOUT', time.time() - t0
        return rc == 0, out, time.time() - t0


def coq_props(prop_dir, props_file='Props.v', timeout=900):
    """Compile theories/<prop_dir>/Props.v on its own (deps already built) and parse
    the Print Assumptions output.  Returns (ok, {theorem: [axioms]}, log)."""
    rel = f'theories/{prop_dir}/{props_file}'
    with Lock('coq'):
        try:
            rc, out = sh(['coqc', '-Q', 'theories', 'Verif', '-w',
                          '-notation-overridden,-deprecated-hint-without-locality', rel],
                         cwd=COQ, timeout=timeout)
        except subprocess.TimeoutExpired:
            return False, {}, 'TIMEOUT'
    src = strip_comments(open(os.path.join(COQ, rel)).read())
    names = re.findall(r'Print\s+Assumptions\s+([A-Za-z0-9_\.\']+)\s*\.', src)
    # split output into one chunk per Print Assumptions, in order
    chunks = re.split(r'(?m)^(?=Closed under the global context|Axioms:)', out)
    chunks = [c for c in chunks if c.startswith('Closed under') or c.startswith('Axioms:')]
    res = {}
    if rc == 0 and len(chunks) == len(names):
        for nm, c in zip(names, chunks):
            if c.startswith('Closed under'):
                res[nm] = []
            else:
                res[nm] = re.findall(r'(?m)^([A-Za-z0-9_\.\']+)\s*:', c[len('Axioms:'):])
    return rc == 0 and len(chunks) == len(names), res, out


def theorem_statements(prop_dir, props_file='Props.v'):
    src = strip_comments(open(os.path.join(COQ, 'theories', prop_dir, props_file)).read())
    return re.findall(r'(?m)^\s*(?:Theorem|Corollary)\s+([A-Za-z0-9_\']+)', src)


def coqchk(prop_dir, timeout=1800):
    rc, out = sh(['coqchk', '-silent', '-o', '-Q', 'theories', 'Verif',
                  f'Verif.{prop_dir}.Props'], cwd=COQ, timeout=timeout)
    return rc == 0, out


# --------------------------------------------------------------------------
# Extraction + OCaml driver
# --------------------------------------------------------------------------

def build_model(name, ext_v, main_ml, ext_mod):
    """Extract coq/extraction/<ext_v> into cache/ocaml and link it with
    ocaml/conv.ml + ocaml/<main_ml> into cache/ocaml/<name>_run."""
    os.makedirs(OCAML_BUILD, exist_ok=True)
    with Lock('ocaml_' + name):
        src = os.path.join(COQ, 'extraction', ext_v)
        rc, out = sh(['coqc', '-Q', os.path.join(COQ, 'theories'), 'Verif', src,
                      '-o', os.path.join(OCAML_BUILD, ext_v[:-2] + '.vo')],
                     cwd=OCAML_BUILD, timeout=600)
        if rc != 0:
            return None, 'extraction failed:\n' + out
        drv = os.path.join(OCAML_BUILD, f'{name}_drv.ml')
        with open(drv, 'w') as f:
            f.write(f'open {ext_mod}\n')
            f.write(open(os.path.join(VERIF, 'ocaml', 'conv.ml')).read())
            f.write(open(os.path.join(VERIF, 'ocaml', main_ml)).read())
        low = ext_mod[0].lower() + ext_mod[1:]
        exe = os.path.join(OCAML_BUILD, f'{name}_run')
        rc, out = sh(['ocamlfind', 'ocamlopt', '-O2' if False else '-inline', '50', '-w', '-a',
                      f'{low}.mli', f'{low}.ml', f'{name}_drv.ml', '-o', exe],
                     cwd=OCAML_BUILD, timeout=600)
        if rc != 0:
            return None, 'ocaml build failed:\n' + out
        return exe, out


def run_model(exe, lines, timeout=3600):
    """Feed one case per line, get one result per line."""
    data = '\n'.join(lines) + '\n'
    p = subprocess.run([exe], input=data, stdout=subprocess.PIPE, stderr=subprocess.PIPE,
                       text=True, timeout=timeout)
    if p.returncode != 0:
        raise RuntimeError(f'model runner failed rc={p.returncode}: {p.stderr[:2000]}')
    out = p.stdout.split('\n')
    if out and out[-1] == '':
        out.pop()
    if len(out) != len(lines):
        raise RuntimeError(f'model runner returned {len(out)} lines for {len(lines)} cases')
    return out


def coq_eval(prop_dir, requires, exprs, timeout=600):
    """Evaluate expressions inside Coq with vm_compute (guards the extraction step).
    `exprs` are Coq terms of type bool or comparable printable data; returns the
    raw printed results, one string per expression."""
    os.makedirs(os.path.join(CACHE, 'cases'), exist_ok=True)
    path = os.path.join(CACHE, 'cases', f'cases_{prop_dir}_{os.getpid()}.v')
    with open(path, 'w') as f:
        f.write(requires + '\n')
        for e in exprs:
            f.write(f'Eval vm_compute in ({e}).\n')
    try:
        rc, out = sh(['coqc', '-Q', os.path.join(COQ, 'theories'), 'Verif', path],
                     cwd=os.path.join(CACHE, 'cases'), timeout=timeout)
    finally:
        for ext in ('.v', '.vo', '.vok', '.vos', '.glob'):
            p = path[:-2] + ext
            if os.path.exists(p):
                os.remove(p)
        aux = os.path.join(CACHE, 'cases', '.' + os.path.basename(path)[:-2] + '.aux')
        if os.path.exists(aux):
            os.remove(aux)
    if rc != 0:
        raise RuntimeError('coq_eval failed:\n' + out[-3000:])
    parts = re.split(r'(?m)^\s*= ', out)[1:]
    res = []
    for p in parts:
        body = p.rsplit('\n     : ', 1)[0]
        res.append(' '.join(body.split()))
    return res


# --------------------------------------------------------------------------
# Known findings, verdict, evidence
# --------------------------------------------------------------------------

def known_findings(prop):
    p = os.path.join(VERIF, 'known_findings.json')
    if not os.path.exists(p):
        return []
    d = json.load(open(p))
    return [e for e in d.get('findings', []) if e.get('property') == prop]


class Report:
    """Collects what a check found; prints VIOLATION / KNOWN-FINDING lines, writes
    evidence and replay files, and computes the exit code."""

    def __init__(self, prop, tier, level):
        self.prop = prop
        self.tier = tier
        self.level = level
        self.t0 = time.time()
        self.violations = []     # (what, replay_payload, found_input: bool)
        self.known = []          # (finding id, what)
        self.coverage = {}
        self.assumptions = []
        self.notes = []
        os.makedirs(EVIDENCE, exist_ok=True)
        os.makedirs(REPLAYS, exist_ok=True)

    def known_finding(self, fid, what):
        if (fid, what) not in self.known:
            self.known.append((fid, what))

    def violation(self, what, payload, found_input=True):
        self.violations.append((what, payload, found_input))

    def finish(self):
        wall = time.time() - self.t0
        seen = set()
        for fid, what in self.known:
            if fid in seen:
                continue
            seen.add(fid)
            print(f'KNOWN-FINDING: property={self.prop} {fid}: {what}')
        rc = 0
        for i, (what, payload, found) in enumerate(self.violations[:5]):
            path = os.path.join(REPLAYS, f'{self.prop}_{self.tier}_{i}.json')
            with open(path, 'w') as f:
                json.dump({'property': self.prop, 'what': what, 'found_failing_input': found,
                           'replay': payload}, f, indent=1, default=str)
            tail = '' if found else ' no-failing-input-found'
            print(f'VIOLATION property={self.prop} replay={path}{tail}')
            print(f'  {what}')
            rc = 1
        ev = {
            'property_id': self.prop,
            'tier': self.tier,
            'seed': seed(),
            'level': self.level,
            'coverage': self.coverage,
            'assumptions': self.assumptions,
            'wall_s': round(wall, 2),
            'violations': len(self.violations),
            'known_findings_reported': [k[0] for k in self.known],
            'notes': self.notes,
        }
        with open(os.path.join(EVIDENCE, f'{self.prop}.json'), 'w') as f:
            json.dump(ev, f, indent=1, default=str)
        print(f'{self.prop} {self.tier}: {"FAIL" if rc else "ok"} in {wall:.1f}s '
              f'(violations={len(self.violations)}, known={len(seen)})')
        return rc


def proof_stage(rep: Report, prop_dir, expected_theorems, extra_targets=(), thorough=False,
                timeout=1500):
    """Build Proofs/Props of a property, audit assumptions + hygiene.
    Returns dict(ok=bool, broken=[names], log=str).  Fills rep.coverage proof keys."""
    dirs = ['Common', prop_dir]
    bad = hygiene(dirs)
    targets = [f'theories/{prop_dir}/Props.vo'] + list(extra_targets)
    ok, log, secs = coq_make(targets, timeout=timeout, clean=thorough)
    proved = {}
    plog = ''
    if ok:
        pok, proved, plog = coq_props(prop_dir)
        ok = pok
    stated = theorem_statements(prop_dir) if os.path.exists(
        os.path.join(COQ, 'theories', prop_dir, 'Props.v')) else []
    broken = []
    for t in expected_theorems:
        if t not in stated:
            broken.append(f'{t}: statement missing from Props.v')
        elif not ok or t not in proved:
            broken.append(f'{t}: does not check')
        elif set(proved[t]) - ALLOWED_AXIOMS:
            broken.append(f'{t}: depends on axioms {proved[t]}')
    for b in bad:
        broken.append('hygiene: ' + b)
    chk = None
    if thorough and ok:
        cok, cout = coqchk(prop_dir)
        chk = {'ok': cok, 'tail': cout[-1500:]}
        if not cok:
            broken.append('coqchk failed')
    rep.coverage.update({
        'obligations': len(expected_theorems),
        'discharged': len([t for t in expected_theorems if t in proved and not (set(proved[t]) - ALLOWED_AXIOMS)]) if ok else 0,
        'checker_cmd': f'make -C coq {" ".join(targets)} && coqc theories/{prop_dir}/Props.v (Print Assumptions audited)'
                       + (' && coqchk -o' if thorough else ''),
        'theorems': {t: ('closed under the global context' if proved.get(t) == [] else proved.get(t, 'NOT CHECKED'))
                     for t in expected_theorems},
        'coq_build_s': round(secs, 1),
    })
    if chk is not None:
        rep.coverage['coqchk'] = chk
    return {'ok': not broken, 'broken': broken, 'log': (log or '')[-4000:] + '\n' + plog[-4000:]}


class Rng(random.Random):
    pass


def rng(tag=''):
    h = hashlib.sha256(f'{seed()}:{tag}'.encode()).digest()
    return Rng(int.from_bytes(h[:8], 'big'))


def impl_python(script, args=(), input=None, timeout=3600, hashseed='0', extra_env=None):
    """Run a helper script under /venv python with PYTHONPATH forced to /repo."""
    env = dict(os.environ)
    env['PYTHONPATH'] = REPO + os.pathsep + os.path.join(VERIF, 'harness')
    env['PYTHONHASHSEED'] = hashseed
    env['PYTHONDONTWRITEBYTECODE'] = '1'
    if extra_env:
        env.update(extra_env)
    p = subprocess.run([PY, script, *args], input=input, env=env, stdout=subprocess.PIPE,
                       stderr=subprocess.PIPE, text=True, timeout=timeout)
    return p.returncode, p.stdout, p.stderr


def file_sha(path):
    return hashlib.sha256(open(path, 'rb').read()).hexdigest()


def parallel_lines(argv, lines, nproc=16, env=None, timeout=7200, cwd=None):
    """Run `argv` nproc times, each on a contiguous chunk of `lines` (one case per
    line on stdin, one result per line on stdout).  Returns results in order."""
    from concurrent.futures import ThreadPoolExecutor
    if not lines:
        return []
    nproc = max(1, min(nproc, (len(lines) + 199) // 200))
    size = (len(lines) + nproc - 1) // nproc
    chunks = [lines[i:i + size] for i in range(0, len(lines), size)]

    def one(chunk):
        p = subprocess.run(argv, input='\n'.join(chunk) + '\n', env=env, cwd=cwd,
                           stdout=subprocess.PIPE, stderr=subprocess.PIPE, text=True,
                           timeout=timeout)
        if p.returncode != 0:
            raise RuntimeError(f'{argv}: rc={p.returncode}\n{p.stderr[-3000:]}')
        out = p.stdout.split('\n')
        if out and out[-1] == '':
            out.pop()
        if len(out) != len(chunk):
            raise RuntimeError(f'{argv}: {len(out)} results for {len(chunk)} cases\n{p.stderr[-2000:]}')
        return out

    with ThreadPoolExecutor(len(chunks)) as ex:
        res = list(ex.map(one, chunks))
    return [x for r in res for x in r]


def impl_env(hashseed='0'):
    env = dict(os.environ)
    env['PYTHONPATH'] = REPO + os.pathsep + os.path.join(VERIF, 'harness')
    env['PYTHONHASHSEED'] = hashseed
    env['PYTHONDONTWRITEBYTECODE'] = '1'
    env['VRT_REPO'] = REPO
    env['VERIF_REPO'] = REPO
    return env
