"""MANIFEST.setup_cmd: build everything from files on disk (offline)."""
import os
import sys
import lib


def main():
    os.makedirs(lib.CACHE, exist_ok=True)
    os.makedirs(lib.EVIDENCE, exist_ok=True)
    os.makedirs(lib.REPLAYS, exist_ok=True)
    # build only the directories of the checks registered in MANIFEST.json (+ Common);
    # anything else is built on demand by its own check
    import json
    man = json.load(open(os.path.join(lib.VERIF, 'MANIFEST.json')))
    claimed = {c['property_id'] for c in man.get('checks', [])}
    extra = {'C15': ['Pool'], 'C16': ['Pool']}
    dirs = {'Common'} | claimed | {d for c in claimed for d in extra.get(c, [])}
    targets = [f[:-2] + '.vo' for f in lib.coq_files() if f.split('/')[1] in dirs]
    ok, log, secs = lib.coq_make(targets, timeout=3000)
    print(f'coq build: {"ok" if ok else "FAILED"} in {secs:.0f}s ({len(targets)} files)')
    if not ok:
        print(log[-3000:])
    # optional builders (rust lexer etc.) register themselves here
    try:
        import setup_extra
        setup_extra.main()
    except ImportError:
        pass
    return 0 if ok else 1
