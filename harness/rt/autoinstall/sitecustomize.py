"""Auto-install the vrt substrate in every Python process that has this
directory on PYTHONPATH (e.g. subprocesses spawned by code under test, which
inherit the environment):

    PYTHONPATH=/verif/harness/rt/autoinstall:/repo /venv/bin/python ...

Set VRT_AUTOINSTALL=0 to disable.  Failures are reported on stderr but never
prevent the interpreter from starting.
"""

import os
import sys

if os.environ.get('VRT_AUTOINSTALL', '1') not in ('0', '', 'false'):
    _rt = os.path.dirname(os.path.dirname(os.path.abspath(__file__)))
    if _rt not in sys.path:
        sys.path.insert(0, _rt)
    try:
        import vrt
        vrt.install()
    except Exception as _e:  # pragma: no cover
        print(f'[vrt] autoinstall failed: {_e!r}', file=sys.stderr)
