"""LR(1) table generator (Pager's PGM, or plain LALR(1)) with Parsing.py-style
precedence resolution.

This is the table-construction back end of the stand-in `parsing` package
(see stubs/parsing/__init__.py).  It is a generic, dependency-free module
operating on plain data so it can be unit-tested on toy grammars.

Input  (Grammar):
    terminals     list[str]          (must include EOF_NAME and EPS_NAME)
    nonterminals  list[str]          (must include START_NAME)
    productions   list[(lhs:str, rhs:tuple[str,...], prec:str)]
                  production 0 MUST be  START_NAME ::= <user start> EOF_NAME
    token_prec    dict[str,str]      precedence name of every terminal
    precedences   dict[str, PrecInfo(assoc, dominators:set[str], equiv:set[str])]

Output (Tables): see class Tables.

Algorithms
----------
method='pager' (default; what the upstream `parsing` library does):
    LR(1) item sets (kernel items + look-ahead bit sets) are generated from a
    work list; a new goto kernel is merged into an existing state with the same
    LR(0) core iff the two are *weakly compatible* (Pager 1977: for all pairs
    of kernel items i != j:  (Li & Mj == 0 and Lj & Mi == 0) or Li & Lj != 0 or
    Mi & Mj != 0), otherwise a new state is created.  A state whose
    look-aheads grew is re-processed; when re-processing, an existing
    transition target is kept only if it still covers / is weakly compatible
    with the recomputed kernel (so no merge is ever forced).  Unreachable
    states are pruned and states are renumbered breadth first.
    The result has LR(1) power with close to LALR(1) size.  (The EdgeQL
    grammar is NOT LALR(1): plain LALR leaves 5 reduce/reduce conflicts.)
method='lalr':
    LR(0) automaton + DeRemer/Pennello look-aheads.  Kept for comparison.

Both: terminal sets are Python ints used as bit sets; closures use a
precomputed static relation  clos[B] = [(D, gen, pass)]  meaning "the closure of
an item `. B` with look-ahead L contains the productions of D with look-ahead
gen | (L if pass)".

Action table: all shift and reduce candidates per (state, terminal), then the
all-pairs disambiguation of the `parsing` library (Parsing.py
`Spec._disambiguate` / `_resolve`):
    - the action whose precedence dominates wins;
    - same equivalence class: %split keeps both, reduce/reduce is an error,
      otherwise associativity decides (%left -> reduce, %right -> shift,
      %nonassoc -> neither (syntax error), %fail -> error);
    - unrelated precedences -> unresolved conflict.
A table with no unresolved conflict is `pure_lr`.

NOT reproduced: upstream's exact state numbering / merge order (so state ids
and the number of states differ); the accepted language and the reductions
performed on valid input do not depend on those for a conflict-free table.
`lr1_oracle.py` provides a lazily built canonical LR(1) driver to cross-check
this on concrete inputs.
"""

from __future__ import annotations

import dataclasses
import sys
from typing import Dict, List, Tuple, Set, Optional

EOF_NAME = '<$>'
EPS_NAME = '<e>'
START_NAME = '<S>'


@dataclasses.dataclass
class PrecInfo:
    name: str
    assoc: str  # fail | nonassoc | left | right | split
    dominators: Set[str]  # names of precedences that dominate this one
    equiv: Set[str]  # names in the same equivalence class (incl. itself)


@dataclasses.dataclass
class Grammar:
    terminals: List[str]
    nonterminals: List[str]
    productions: List[Tuple[str, Tuple[str, ...], str]]
    token_prec: Dict[str, str]
    precedences: Dict[str, PrecInfo]


@dataclasses.dataclass
class Tables:
    n_states: int
    # action[state][terminal] = list of actions; an action is
    # ('S', next_state) or ('R', production_index).  After disambiguation
    # every list has exactly one element iff pure_lr.
    action: List[Dict[str, List[Tuple[str, int]]]]
    goto: List[Dict[str, int]]
    pure_lr: bool
    stats: dict
    # human-readable descriptions of unresolved conflicts (first N)
    conflicts: List[str]
    # resolved-by-precedence log entries: (state, terminal, kept, dropped, why)
    resolutions: List[tuple]


# --------------------------------------------------------------------------
# precedence resolution (mirrors Parsing.py Spec._resolve)
# --------------------------------------------------------------------------

def resolve(precs: Dict[str, PrecInfo], old_is_shift: bool, old_prec: str,
            new_is_shift: bool, new_prec: str) -> Tuple[str, str]:
    """Return (verdict, why); verdict in old|new|both|neither|err."""
    op = precs[old_prec]
    np_ = precs[new_prec]
    if old_prec in np_.dominators:
        return 'old', 'bigger'
    if new_prec in op.dominators:
        return 'new', 'bigger'
    if old_prec in np_.equiv:
        if op.assoc == 'split' or np_.assoc == 'split':
            return 'both', 'split'
        if old_is_shift == new_is_shift:
            return 'err', 'reduce/reduce'
        if (op.assoc != 'fail' and np_.assoc != 'fail'
                and op.assoc != np_.assoc):
            return 'err', 'assoc mismatch'
        assoc = np_.assoc if op.assoc == 'fail' else op.assoc
        if assoc == 'fail':
            return 'err', 'fail'
        if assoc == 'left':
            return ('new' if old_is_shift else 'old'), 'left'
        if assoc == 'right':
            return ('old' if old_is_shift else 'new'), 'right'
        if assoc == 'nonassoc':
            return 'neither', 'nonassoc'
        raise AssertionError(assoc)
    return 'err', 'no relationship'


# --------------------------------------------------------------------------
# generator
# --------------------------------------------------------------------------

class Generator:
    def __init__(self, g: Grammar, verbose: bool = False,
                 method: str = 'pager'):
        if method not in ('pager', 'lalr'):
            raise ValueError(f'unknown method {method!r}')
        self.g = g
        self.verbose = verbose
        self.method = method
        self.T = len(g.terminals)
        self.N = len(g.nonterminals)
        self.sym_id: Dict[str, int] = {}
        for i, t in enumerate(g.terminals):
            if t in self.sym_id:
                raise ValueError(f'duplicate symbol {t}')
            self.sym_id[t] = i
        for i, n in enumerate(g.nonterminals):
            if n in self.sym_id:
                raise ValueError(f'duplicate symbol {n}')
            self.sym_id[n] = self.T + i
        self.names = list(g.terminals) + list(g.nonterminals)
        self.eof = self.sym_id[EOF_NAME]
        self.eps = self.sym_id[EPS_NAME]

        T = self.T
        self.prods: List[Tuple[int, Tuple[int, ...]]] = []
        for lhs, rhs, _prec in g.productions:
            for s in rhs:
                if s not in self.sym_id:
                    raise ValueError(
                        f'production {lhs} ::= {" ".join(rhs)} references '
                        f'undefined symbol {s!r}')
            if self.sym_id[lhs] < T:
                raise ValueError(f'lhs {lhs} is a terminal')
            self.prods.append(
                (self.sym_id[lhs], tuple(self.sym_id[s] for s in rhs)))
        assert self.prods[0][0] == self.sym_id[START_NAME]
        assert self.prods[0][1][-1] == self.eof and len(self.prods[0][1]) == 2

        self.prods_of: List[List[int]] = [[] for _ in range(T + self.N)]
        for pi, (lhs, _rhs) in enumerate(self.prods):
            self.prods_of[lhs].append(pi)
        # NB: a nonterminal without productions is legal (the grammar of
        # /repo has e.g. `CreateSDLCommandBlock`): it simply derives nothing.
        self.unproductive = [
            self.names[n] for n in range(T, T + self.N)
            if not self.prods_of[n]]

        # item encoding
        self.prod_start: List[int] = []
        self.item_sym: List[int] = []  # symbol after the dot or -1
        self.item_prod: List[int] = []
        for pi, (_lhs, rhs) in enumerate(self.prods):
            self.prod_start.append(len(self.item_sym))
            for s in rhs:
                self.item_sym.append(s)
                self.item_prod.append(pi)
            self.item_sym.append(-1)
            self.item_prod.append(pi)

    def log(self, *a):
        if self.verbose:
            print('[lrgen]', *a, file=sys.stderr, flush=True)

    # ---- nullable ----------------------------------------------------
    def compute_nullable(self):
        nullable = [False] * (self.T + self.N)
        changed = True
        while changed:
            changed = False
            for lhs, rhs in self.prods:
                if not nullable[lhs] and all(nullable[s] for s in rhs):
                    nullable[lhs] = True
                    changed = True
        self.nullable = nullable

    # ---- leftmost reachability --------------------------------------
    def compute_reach(self):
        """reach[A] = sorted list of nonterminals B (incl. A) such that the
        LR(0) closure of an item `. A` contains the productions of B."""
        T = self.T
        direct: List[Set[int]] = [set() for _ in range(T + self.N)]
        for lhs, rhs in self.prods:
            if rhs and rhs[0] >= T:
                direct[lhs].add(rhs[0])
        reach: List[Optional[List[int]]] = [None] * (T + self.N)
        for a in range(T, T + self.N):
            seen = {a}
            stack = [a]
            while stack:
                x = stack.pop()
                for y in direct[x]:
                    if y not in seen:
                        seen.add(y)
                        stack.append(y)
            reach[a] = sorted(seen)
        self.reach = reach
        # closure_items[A]: initial items contributed by closure of `. A`
        self.closure_items: List[Optional[List[int]]] = \
            [None] * (T + self.N)
        for a in range(T, T + self.N):
            items = []
            for b in reach[a]:
                for pi in self.prods_of[b]:
                    items.append(self.prod_start[pi])
            self.closure_items[a] = items

    # ---- LR(0) automaton -----------------------------------------------
    def build_lr0(self):
        T = self.T
        item_sym = self.item_sym
        start_kernel = (self.prod_start[0],)
        self.kernels: List[Tuple[int, ...]] = [start_kernel]
        index: Dict[Tuple[int, ...], int] = {start_kernel: 0}
        self.trans: List[Dict[int, int]] = []
        # complete items (as production indexes) per state
        self.reductions: List[List[int]] = []
        # nonterminals whose productions are in the closure (for lookups)
        self.closure_nts: List[List[int]] = []
        i = 0
        while i < len(self.kernels):
            kernel = self.kernels[i]
            moves: Dict[int, List[int]] = {}
            reds: List[int] = []
            seen_nts: Set[int] = set()
            nts_order: List[int] = []
            for it in kernel:
                s = item_sym[it]
                if s < 0:
                    reds.append(self.item_prod[it])
                    continue
                lst = moves.get(s)
                if lst is None:
                    moves[s] = [it + 1]
                else:
                    lst.append(it + 1)
                if s >= T and s not in seen_nts:
                    for b in self.reach[s]:
                        if b not in seen_nts:
                            seen_nts.add(b)
                            nts_order.append(b)
            nts_order.sort()
            for b in nts_order:
                for pi in self.prods_of[b]:
                    it = self.prod_start[pi]
                    s = item_sym[it]
                    if s < 0:
                        reds.append(pi)
                        continue
                    lst = moves.get(s)
                    if lst is None:
                        moves[s] = [it + 1]
                    else:
                        lst.append(it + 1)
            tr: Dict[int, int] = {}
            for s in sorted(moves):
                k = tuple(sorted(set(moves[s])))
                j = index.get(k)
                if j is None:
                    j = len(self.kernels)
                    index[k] = j
                    self.kernels.append(k)
                tr[s] = j
            self.trans.append(tr)
            self.reductions.append(sorted(set(reds)))
            self.closure_nts.append(nts_order)
            i += 1
        self.n_states = len(self.kernels)
        self.log('LR(0) states:', self.n_states)

    # ---- LALR(1) lookaheads (DeRemer/Pennello) -------------------------
    def compute_lookaheads(self):
        T = self.T
        trans = self.trans
        nullable = self.nullable
        # nonterminal transitions
        nt_index: Dict[Tuple[int, int], int] = {}
        nt_list: List[Tuple[int, int]] = []
        for p in range(self.n_states):
            for s in trans[p]:
                if s >= T:
                    nt_index[(p, s)] = len(nt_list)
                    nt_list.append((p, s))
        n = len(nt_list)
        self.log('nonterminal transitions:', n)
        DR = [0] * n
        reads: List[List[int]] = [[] for _ in range(n)]
        for idx, (p, a) in enumerate(nt_list):
            r = trans[p][a]
            bits = 0
            for s in trans[r]:
                if s < T:
                    bits |= (1 << s)
                elif nullable[s]:
                    reads[idx].append(nt_index[(r, s)])
            DR[idx] = bits
        read = self._digraph(n, reads, DR)

        includes: List[List[int]] = [[] for _ in range(n)]
        # lookback[(q, prod)] -> list of nt transition indexes
        lookback: Dict[Tuple[int, int], List[int]] = {}
        prods = self.prods
        prods_of = self.prods_of
        for idx, (p, a) in enumerate(nt_list):
            for pi in prods_of[a]:
                rhs = prods[pi][1]
                q = p
                ln = len(rhs)
                # suffix nullable flags computed lazily from the right
                # walk
                path = [q]
                for s in rhs:
                    q = trans[q][s]
                    path.append(q)
                lookback.setdefault((q, pi), []).append(idx)
                # includes
                k = ln - 1
                while k >= 0:
                    s = rhs[k]
                    if s >= T:
                        j = nt_index[(path[k], s)]
                        if j != idx:
                            includes[j].append(idx)
                        if not nullable[s]:
                            break
                    else:
                        break
                    k -= 1
        follow = self._digraph(n, includes, read)
        self.lookback = lookback
        self.follow = follow
        self.nt_list = nt_list

        # LA sets per (state, production)
        self.la: List[Dict[int, int]] = []
        for q in range(self.n_states):
            d: Dict[int, int] = {}
            for pi in self.reductions[q]:
                bits = 0
                for idx in lookback.get((q, pi), ()):
                    bits |= follow[idx]
                if pi == 0:
                    # <S> ::= S <$> .   reduce on epsilon (accept marker)
                    bits |= (1 << self.eps)
                d[pi] = bits
            self.la.append(d)

    @staticmethod
    def _digraph(n: int, rel: List[List[int]], base: List[int]) -> List[int]:
        """Iterative version of the DeRemer/Pennello digraph algorithm."""
        INF = 1 << 60
        N = [0] * n
        F = list(base)
        stack: List[int] = []
        for root in range(n):
            if N[root] != 0:
                continue
            # explicit DFS
            work = [(root, 0)]
            stack.append(root)
            N[root] = len(stack)
            depth_of = {root: len(stack)}
            while work:
                x, ci = work[-1]
                children = rel[x]
                if ci < len(children):
                    work[-1] = (x, ci + 1)
                    y = children[ci]
                    if N[y] == 0:
                        stack.append(y)
                        N[y] = len(stack)
                        depth_of[y] = len(stack)
                        work.append((y, 0))
                    else:
                        if N[y] < N[x]:
                            N[x] = N[y]
                        F[x] |= F[y]
                else:
                    work.pop()
                    d = depth_of[x]
                    if N[x] == d:
                        fx = F[x]
                        while True:
                            top = stack.pop()
                            N[top] = INF
                            F[top] = fx
                            if top == x:
                                break
                    if work:
                        px, _ = work[-1]
                        if N[x] < N[px]:
                            N[px] = N[x]
                        F[px] |= F[x]
        return F


    # ---- FIRST sets ------------------------------------------------------
    def compute_first(self):
        T = self.T
        first = [0] * (T + self.N)
        for t in range(T):
            first[t] = 1 << t
        nullable = self.nullable
        changed = True
        while changed:
            changed = False
            for lhs, rhs in self.prods:
                bits = first[lhs]
                for s in rhs:
                    bits |= first[s]
                    if not nullable[s]:
                        break
                if bits != first[lhs]:
                    first[lhs] = bits
                    changed = True
        self.first = first
        # per item: FIRST(beta) and nullable(beta) where beta is what follows
        # the symbol after the dot
        n_items = len(self.item_sym)
        self.item_first = [0] * n_items
        self.item_rest_nullable = [True] * n_items
        for pi, (_lhs, rhs) in enumerate(self.prods):
            base = self.prod_start[pi]
            bits = 0
            nl = True
            # walk from the right: suffix starting at position d+1
            for d in range(len(rhs) - 1, -1, -1):
                self.item_first[base + d] = bits
                self.item_rest_nullable[base + d] = nl
                s = rhs[d]
                if nullable[s]:
                    bits = bits | first[s]
                else:
                    bits = first[s]
                    nl = False

    # ---- static closure relation ------------------------------------------
    def compute_static_closure(self):
        """clos[B] = sorted list of (D, gen_bits, passes) -- see module doc."""
        T = self.T
        edges: List[List[Tuple[int, int, bool]]] = \
            [[] for _ in range(T + self.N)]
        for pi, (lhs, rhs) in enumerate(self.prods):
            if rhs and rhs[0] >= T:
                it = self.prod_start[pi]
                edges[lhs].append(
                    (rhs[0], self.item_first[it],
                     self.item_rest_nullable[it]))
        clos: List[Optional[List[Tuple[int, int, bool]]]] = \
            [None] * (T + self.N)
        for b in range(T, T + self.N):
            gen: Dict[int, int] = {b: 0}
            pas: Set[int] = {b}
            work = [b]
            inwork = {b}
            while work:
                c = work.pop()
                inwork.discard(c)
                gc = gen[c]
                pc = c in pas
                for d, g, nl in edges[c]:
                    ng = g | (gc if nl else 0)
                    np_ = nl and pc
                    old = gen.get(d)
                    changed = False
                    if old is None:
                        gen[d] = ng
                        changed = True
                    elif old | ng != old:
                        gen[d] = old | ng
                        changed = True
                    if np_ and d not in pas:
                        pas.add(d)
                        changed = True
                    if changed and d not in inwork:
                        inwork.add(d)
                        work.append(d)
            clos[b] = [(d, gen[d], d in pas) for d in sorted(gen)]
        self.clos = clos

    # ---- Pager's practical general method --------------------------------
    def _expand(self, core, las):
        """Closure + goto kernels + reductions of an LR(1) state.

        Returns (moves, reds) with
            moves: {symbol: {item: la_bits}}   (insertion ordered)
            reds:  {production: la_bits}
        """
        T = self.T
        item_sym = self.item_sym
        item_first = self.item_first
        item_rest_nullable = self.item_rest_nullable
        clos = self.clos
        la: Dict[int, int] = {}
        moves: Dict[int, Dict[int, int]] = {}
        reds: Dict[int, int] = {}
        for it, L in zip(core, las):
            s = item_sym[it]
            if s < 0:
                pi = self.item_prod[it]
                reds[pi] = reds.get(pi, 0) | L
                continue
            m = moves.get(s)
            if m is None:
                moves[s] = {it + 1: L}
            else:
                m[it + 1] = m.get(it + 1, 0) | L
            if s >= T:
                ctx = item_first[it]
                if item_rest_nullable[it]:
                    ctx |= L
                for d, g, p in clos[s]:
                    if p:
                        g |= ctx
                    old = la.get(d)
                    la[d] = g if old is None else old | g
        prod_start = self.prod_start
        prods_of = self.prods_of
        for d in sorted(la):
            L = la[d]
            for pi in prods_of[d]:
                it = prod_start[pi]
                s = item_sym[it]
                if s < 0:
                    reds[pi] = reds.get(pi, 0) | L
                    continue
                m = moves.get(s)
                if m is None:
                    moves[s] = {it + 1: L}
                else:
                    m[it + 1] = m.get(it + 1, 0) | L
        return moves, reds

    @staticmethod
    def _weakly_compatible(la_a, la_b) -> bool:
        n = len(la_a)
        if n == 1:
            return True
        for i in range(n):
            ai = la_a[i]
            bi = la_b[i]
            for j in range(i + 1, n):
                aj = la_a[j]
                bj = la_b[j]
                if (ai & bj) == 0 and (aj & bi) == 0:
                    continue
                if ai & aj:
                    continue
                if bi & bj:
                    continue
                return False
        return True

    def build_pager(self):
        import collections
        eps_bit = 1 << self.eps
        start_core = (self.prod_start[0],)
        cores: List[Tuple[int, ...]] = [start_core]
        las: List[List[int]] = [[eps_bit]]
        by_core: Dict[Tuple[int, ...], List[int]] = {start_core: [0]}
        trans: List[Dict[int, int]] = [{}]
        work = collections.deque([0])
        queued = {0}
        n_expand = 0
        n_merge = 0
        n_split = 0
        n_redirect = 0
        while work:
            q = work.popleft()
            queued.discard(q)
            n_expand += 1
            moves, _reds = self._expand(cores[q], las[q])
            tr = trans[q]
            for s in sorted(moves):
                m = moves[s]
                core = tuple(sorted(m))
                new_la = [m[it] for it in core]
                target = tr.get(s)
                if target is not None:
                    tl = las[target]
                    if all((n | t) == t for n, t in zip(new_la, tl)):
                        continue
                    if self._weakly_compatible(tl, new_la):
                        las[target] = [n | t for n, t in zip(new_la, tl)]
                        n_merge += 1
                        if target not in queued:
                            queued.add(target)
                            work.append(target)
                        continue
                    n_redirect += 1
                    target = None
                cands = by_core.get(core)
                chosen = None
                if cands:
                    # prefer a state that already covers the new kernel
                    for c in cands:
                        tl = las[c]
                        if all((n | t) == t for n, t in zip(new_la, tl)):
                            chosen = c
                            break
                    if chosen is None:
                        for c in cands:
                            tl = las[c]
                            if self._weakly_compatible(tl, new_la):
                                las[c] = [n | t for n, t in zip(new_la, tl)]
                                n_merge += 1
                                chosen = c
                                if c not in queued:
                                    queued.add(c)
                                    work.append(c)
                                break
                if chosen is None:
                    chosen = len(cores)
                    cores.append(core)
                    las.append(new_la)
                    trans.append({})
                    by_core.setdefault(core, []).append(chosen)
                    if cands:
                        n_split += 1
                    queued.add(chosen)
                    work.append(chosen)
                tr[s] = chosen
        # prune unreachable, renumber breadth first
        order = [0]
        renum = {0: 0}
        i = 0
        while i < len(order):
            q = order[i]
            for s in sorted(trans[q]):
                t = trans[q][s]
                if t not in renum:
                    renum[t] = len(order)
                    order.append(t)
            i += 1
        self.n_states = len(order)
        self.kernels = [cores[q] for q in order]
        self.kernel_las = [las[q] for q in order]
        self.trans = [
            {s: renum[t] for s, t in sorted(trans[q].items())}
            for q in order]
        self.reductions = []
        self.la = []
        for qi, q in enumerate(order):
            moves, reds = self._expand(cores[q], las[q])
            # sanity: every transition target covers the goto kernel
            for s, m in moves.items():
                t = trans[q][s]
                assert cores[t] == tuple(sorted(m)), 'core mismatch'
                tl = dict(zip(cores[t], las[t]))
                for it, L in m.items():
                    assert (tl[it] | L) == tl[it], 'lookahead not covered'
            self.reductions.append(sorted(reds))
            self.la.append(dict(reds))
        self.pager_stats = dict(
            n_expand=n_expand, n_merge=n_merge, n_split=n_split,
            n_redirect=n_redirect, n_generated=len(cores),
            n_distinct_cores=len(by_core))
        self.log('pager states:', self.n_states, self.pager_stats)

    # ---- tables -----------------------------------------------------------
    def build_tables(self) -> Tables:
        g = self.g
        T = self.T
        names = self.names
        precs = g.precedences
        prod_prec = [p[2] for p in g.productions]
        tok_prec = [g.token_prec[t] for t in g.terminals]
        for p in prod_prec + tok_prec:
            if p not in precs:
                raise ValueError(f'unknown precedence {p!r}')

        action: List[Dict[str, List[Tuple[str, int]]]] = []
        goto: List[Dict[str, int]] = []
        conflicts: List[str] = []
        resolutions: List[tuple] = []
        n_conflict_cells = 0
        n_resolved_cells = 0
        n_sr = n_rr = 0
        pure = True
        for q in range(self.n_states):
            cand: Dict[int, List[Tuple[str, int]]] = {}
            gt: Dict[str, int] = {}
            for s, nxt in self.trans[q].items():
                if s < T:
                    cand.setdefault(s, []).append(('S', nxt))
                else:
                    gt[names[s]] = nxt
            for pi in self.reductions[q]:
                bits = self.la[q][pi]
                t = 0
                while bits:
                    low = bits & -bits
                    t = low.bit_length() - 1
                    cand.setdefault(t, []).append(('R', pi))
                    bits ^= low
            row: Dict[str, List[Tuple[str, int]]] = {}
            for t in sorted(cand):
                acts = cand[t]
                if len(acts) > 1:
                    n_conflict_cells += 1
                    keep = [True] * len(acts)
                    n_err = 0
                    log = []
                    for i in range(len(acts)):
                        ai = acts[i]
                        pi_ = tok_prec[t] if ai[0] == 'S' \
                            else prod_prec[ai[1]]
                        for j in range(i + 1, len(acts)):
                            aj = acts[j]
                            pj = tok_prec[t] if aj[0] == 'S' \
                                else prod_prec[aj[1]]
                            if ai[0] == 'R' and aj[0] == 'R':
                                n_rr += 1
                            else:
                                n_sr += 1
                            verdict, why = resolve(
                                precs, ai[0] == 'S', pi_, aj[0] == 'S', pj)
                            log.append((ai, pi_, aj, pj, verdict, why))
                            if verdict == 'neither':
                                keep[i] = keep[j] = False
                            elif verdict == 'old':
                                keep[j] = False
                            elif verdict == 'new':
                                keep[i] = False
                            elif verdict == 'both':
                                pass
                            else:
                                n_err += 1
                    new_acts = [a for a, k in zip(acts, keep) if k]
                    resolutions.append((q, names[t], log))
                    if n_err or len(new_acts) > 1:
                        pure = False
                        if len(conflicts) < 200:
                            conflicts.append(self._describe_conflict(
                                q, t, acts, log))
                        # keep everything (GLR style) so the caller can see it
                        new_acts = acts
                    else:
                        n_resolved_cells += 1
                    acts = new_acts
                if acts:
                    row[names[t]] = acts
            action.append(row)
            goto.append(gt)
        stats = dict(
            n_states=self.n_states,
            n_terminals=T,
            n_nonterminals=self.N,
            n_productions=len(self.prods),
            n_conflict_cells=n_conflict_cells,
            n_resolved_cells=n_resolved_cells,
            n_sr_pairs=n_sr,
            n_rr_pairs=n_rr,
            method=self.method,
        )
        stats.update(getattr(self, 'pager_stats', {}))
        return Tables(
            n_states=self.n_states, action=action, goto=goto, pure_lr=pure,
            stats=stats, conflicts=conflicts, resolutions=resolutions)

    def prod_str(self, pi: int) -> str:
        lhs, rhs = self.prods[pi]
        return '%s ::= %s' % (
            self.names[lhs], ' '.join(self.names[s] for s in rhs) or '<e>')

    def _describe_conflict(self, q, t, acts, log) -> str:
        lines = [f'state {q} on {self.names[t]}:']
        for a in acts:
            if a[0] == 'S':
                lines.append(f'    shift -> {a[1]} '
                             f'[{self.g.token_prec[self.names[t]]}]')
            else:
                lines.append(f'    reduce {self.prod_str(a[1])} '
                             f'[{self.g.productions[a[1]][2]}]')
        for (ai, pi_, aj, pj, verdict, why) in log:
            lines.append(f'    {ai} [{pi_}] vs {aj} [{pj}]: {verdict} ({why})')
        kern = []
        for it in self.kernels[q][:6]:
            pi = self.item_prod[it]
            dot = it - self.prod_start[pi]
            lhs, rhs = self.prods[pi]
            syms = [self.names[s] for s in rhs]
            syms.insert(dot, '.')
            kern.append(f'      {self.names[lhs]} ::= {" ".join(syms)}')
        lines.append('    kernel:')
        lines.extend(kern)
        return '\n'.join(lines)

    def run(self) -> Tables:
        self.compute_nullable()
        self.compute_reach()
        if self.method == 'lalr':
            self.build_lr0()
            self.compute_lookaheads()
        else:
            self.compute_first()
            self.compute_static_closure()
            self.build_pager()
        return self.build_tables()


def generate(g: Grammar, verbose: bool = False,
             method: str = 'pager') -> Tables:
    return Generator(g, verbose=verbose, method=method).run()
