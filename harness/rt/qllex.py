"""Client for the `qllex` binary (the REAL Rust EdgeQL tokenizer of /repo).

The binary is built by /verif/rust/build.sh from the unmodified sources
/repo/edb/edgeql-parser/src/{tokenizer,validation,keywords,position}.rs and
helpers/*.rs (included with #[path]); see /verif/rust/lexer/src/main.rs for
the line protocol.

This module keeps ONE persistent subprocess per Python process (restarted
transparently after a fork or if it dies) and guarantees it is terminated at
interpreter exit.

Public API:
    binary_path()            -> str   (builds the binary if missing/stale)
    tokenize(text)           -> dict  ({"ok": [...]} | {"err":..., "pos":...})
    raw_tokenize(text)       -> dict  (un-validated tokenizer, as hash.rs uses)
    positions(data, offsets) -> dict  (InflatedPos::from_offsets)
    quote_name(text)         -> str
    keywords()               -> dict  (unreserved/partial/future/current/combined)
    shutdown()
"""

from __future__ import annotations

import atexit
import json
import os
import pathlib
import subprocess
import threading

_HERE = pathlib.Path(__file__).resolve().parent
VERIF_ROOT = _HERE.parent.parent
RUST_DIR = VERIF_ROOT / 'rust'
CACHE_DIR = pathlib.Path(
    os.environ.get('VRT_CACHE_DIR', str(VERIF_ROOT / 'cache')))
TARGET_DIR = CACHE_DIR / 'rust-target'
BINARY = TARGET_DIR / 'release' / 'qllex'

# Sources whose modification must trigger a rebuild.
_SOURCES = [
    RUST_DIR / 'lexer' / 'src' / 'main.rs',
    RUST_DIR / 'lexer' / 'src' / 'lib.rs',
    RUST_DIR / 'lexer' / 'Cargo.toml',
    RUST_DIR / 'bigdecimal-shim' / 'src' / 'lib.rs',
    pathlib.Path('/repo/edb/edgeql-parser/src/tokenizer.rs'),
    pathlib.Path('/repo/edb/edgeql-parser/src/validation.rs'),
    pathlib.Path('/repo/edb/edgeql-parser/src/keywords.rs'),
    pathlib.Path('/repo/edb/edgeql-parser/src/position.rs'),
    pathlib.Path('/repo/edb/edgeql-parser/src/helpers/mod.rs'),
    pathlib.Path('/repo/edb/edgeql-parser/src/helpers/strings.rs'),
    pathlib.Path('/repo/edb/edgeql-parser/src/helpers/bytes.rs'),
]


class QllexError(RuntimeError):
    pass


def _stale() -> bool:
    if not BINARY.exists():
        return True
    bt = BINARY.stat().st_mtime
    for src in _SOURCES:
        try:
            if src.stat().st_mtime > bt:
                return True
        except FileNotFoundError:
            raise QllexError(f'tokenizer source missing: {src}')
    return False


def build() -> str:
    env = dict(os.environ)
    env['CARGO_TARGET_DIR'] = str(TARGET_DIR)
    res = subprocess.run(
        ['sh', str(RUST_DIR / 'build.sh')],
        env=env, stdout=subprocess.PIPE, stderr=subprocess.PIPE, text=True,
    )
    if res.returncode != 0:
        raise QllexError(
            f'building qllex failed (rc={res.returncode}):\n{res.stderr}')
    path = res.stdout.strip().splitlines()[-1]
    if not os.path.exists(path):
        raise QllexError(f'build.sh reported {path!r} but it does not exist')
    # make sure mtime comparisons see the binary as fresh even if cargo
    # decided nothing had to be rebuilt
    os.utime(path, None)
    return path


def binary_path() -> str:
    override = os.environ.get('VRT_QLLEX')
    if override:
        return override
    if _stale():
        build()
    return str(BINARY)


class _Proc:
    def __init__(self) -> None:
        self.pid = os.getpid()
        self.proc = subprocess.Popen(
            [binary_path()],
            stdin=subprocess.PIPE, stdout=subprocess.PIPE,
            bufsize=0, close_fds=True,
        )
        self.rfile = self.proc.stdout
        self.wfile = self.proc.stdin
        self._buf = b''

    def request(self, line: bytes) -> dict:
        assert b'\n' not in line
        self.wfile.write(line + b'\n')
        self.wfile.flush()
        while True:
            nl = self._buf.find(b'\n')
            if nl >= 0:
                out, self._buf = self._buf[:nl], self._buf[nl + 1:]
                return json.loads(out)
            chunk = self.rfile.read(1 << 16)
            if not chunk:
                raise QllexError('qllex subprocess closed its stdout')
            self._buf += chunk

    def close(self) -> None:
        try:
            if self.pid != os.getpid():
                # forked child: the process belongs to the parent; just
                # drop our copies of the pipe ends.
                try:
                    self.wfile.close()
                    self.rfile.close()
                except Exception:
                    pass
                return
            try:
                self.wfile.close()
            except Exception:
                pass
            try:
                self.proc.wait(timeout=2)
            except Exception:
                self.proc.kill()
                self.proc.wait()
            try:
                self.rfile.close()
            except Exception:
                pass
        except Exception:
            pass


_lock = threading.Lock()
_proc: _Proc | None = None
_keywords: dict | None = None


def _get() -> _Proc:
    global _proc
    p = _proc
    if p is not None and (p.pid != os.getpid() or p.proc.poll() is not None):
        p.close()
        p = _proc = None
    if p is None:
        p = _proc = _Proc()
    return p


def _request(line: bytes) -> dict:
    with _lock:
        try:
            res = _get().request(line)
        except (BrokenPipeError, QllexError, OSError):
            # one transparent restart
            shutdown_locked()
            res = _get().request(line)
    if res.get('protocol'):
        raise QllexError(res['err'])
    return res


def shutdown_locked() -> None:
    global _proc
    if _proc is not None:
        _proc.close()
        _proc = None


def shutdown() -> None:
    with _lock:
        shutdown_locked()


atexit.register(shutdown)


def _hex(text: str) -> bytes:
    # surrogates cannot be UTF-8 encoded; the real binding would refuse them
    # as well (PyString -> String conversion error).
    return text.encode('utf-8').hex().encode('ascii')


def tokenize(text: str) -> dict:
    return _request(_hex(text))


def raw_tokenize(text: str) -> dict:
    return _request(b'raw:' + _hex(text))


def positions(data: bytes, offsets) -> dict:
    offs = ','.join(str(int(o)) for o in offsets).encode('ascii')
    return _request(b'pos:' + bytes(data).hex().encode('ascii') + b':' + offs)


def quote_name(text: str) -> str:
    res = _request(b'quote_name:' + _hex(text))
    return bytes.fromhex(res['ok']).decode('utf-8')


def keywords() -> dict:
    global _keywords
    if _keywords is None:
        out = subprocess.run(
            [binary_path(), '--keywords'], stdout=subprocess.PIPE, check=True,
        ).stdout
        _keywords = json.loads(out)
    return _keywords
