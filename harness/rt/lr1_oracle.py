#!/venv/bin/python
"""Cross-check of the generated (Pager) LR tables against a lazily built
CANONICAL LR(1) automaton for the same grammar and precedence rules.

Why: `lrgen.py` merges weakly compatible LR(1) states (like upstream's
`parsing` library does, but not necessarily in the same order).  For a
conflict-free table this must not change the language nor the reductions.
Here we verify that on concrete inputs: every input is run through

  (a) the table driver (tables exactly as produced for `parsing.Spec`), and
  (b) a canonical LR(1) driver whose states (kernel items + exact look-ahead
      sets, never merged) are constructed on demand, with the same
      all-pairs precedence disambiguation applied per (state, terminal) cell,

and the two action traces are compared:
  * accepted input: identical sequence of shifts/reductions;
  * rejected input: both reject, at the same token index (a merged automaton
    may perform extra reductions before noticing, it must never shift more).

    PYTHONPATH=/repo /venv/bin/python /verif/harness/rt/lr1_oracle.py [--quiet]

Inputs: every docstring source of tests/test_edgeql_syntax.py (STARTBLOCK)
and tests/test_schema_syntax.py (STARTSDLDOCUMENT), every edb/lib/**/*.edgeql
(STARTBLOCK), plus each of those as STARTFRAGMENT where it parses, plus
single-token deletions/duplications of a sample to exercise error paths.
"""

from __future__ import annotations

import pathlib
import random
import sys
import time

HERE = pathlib.Path(__file__).resolve().parent
sys.path.insert(0, str(HERE))

import lrgen  # noqa: E402
import vrt  # noqa: E402


class CanonicalLR1:
    def __init__(self, grammar: lrgen.Grammar):
        self.g = grammar
        gen = lrgen.Generator(grammar, method='pager')
        gen.compute_nullable()
        gen.compute_reach()
        gen.compute_first()
        gen.compute_static_closure()
        self.gen = gen
        self.states = {}
        self.state_list = []
        eps_bit = 1 << gen.eps
        self.start = self._intern((gen.prod_start[0],), (eps_bit,))
        self.tok_prec = [grammar.token_prec[t] for t in grammar.terminals]
        self.prod_prec = [p[2] for p in grammar.productions]

    def _intern(self, core, las):
        key = (core, las)
        st = self.states.get(key)
        if st is None:
            st = len(self.state_list)
            self.states[key] = st
            self.state_list.append([core, las, None, {}])
        return st

    def _expanded(self, st):
        rec = self.state_list[st]
        if rec[2] is None:
            rec[2] = self.gen._expand(rec[0], rec[1])
        return rec[2]

    def goto(self, st, sym):
        moves, _ = self._expanded(st)
        m = moves[sym]
        core = tuple(sorted(m))
        return self._intern(core, tuple(m[it] for it in core))

    def action(self, st, t):
        """-> None | ('S', state) | ('R', prod)   (t: terminal index)"""
        cache = self.state_list[st][3]
        if t in cache:
            return cache[t]
        moves, reds = self._expanded(st)
        acts = []
        if t in moves:
            acts.append(('S', None))
        bit = 1 << t
        for pi in sorted(reds):
            if reds[pi] & bit:
                acts.append(('R', pi))
        if len(acts) > 1:
            keep = [True] * len(acts)
            for i in range(len(acts)):
                ai = acts[i]
                pi_ = self.tok_prec[t] if ai[0] == 'S' \
                    else self.prod_prec[ai[1]]
                for j in range(i + 1, len(acts)):
                    aj = acts[j]
                    pj = self.tok_prec[t] if aj[0] == 'S' \
                        else self.prod_prec[aj[1]]
                    verdict, _why = lrgen.resolve(
                        self.g.precedences, ai[0] == 'S', pi_,
                        aj[0] == 'S', pj)
                    if verdict == 'neither':
                        keep[i] = keep[j] = False
                    elif verdict == 'old':
                        keep[j] = False
                    elif verdict == 'new':
                        keep[i] = False
                    elif verdict == 'both':
                        pass
                    else:
                        raise AssertionError(
                            f'unresolved conflict in canonical LR(1) state '
                            f'on {self.g.terminals[t]}: {acts}')
            acts = [a for a, k in zip(acts, keep) if k]
            if len(acts) > 1:
                raise AssertionError(f'ambiguous cell {acts}')
        res = None
        if acts:
            a = acts[0]
            res = ('S', self.goto(st, t)) if a[0] == 'S' else a
        cache[t] = res
        return res

    def run(self, terms):
        """terms: list of lists of candidate terminal indexes (first that
        has an action wins).  -> (trace, error_index|None)"""
        gen = self.gen
        T = gen.T
        stack = [self.start]
        trace = []
        for idx, cands in enumerate(terms):
            while True:
                act = None
                for t in cands:
                    act = self.action(stack[-1], t)
                    if act is not None:
                        break
                if act is None:
                    return trace, idx
                if act[0] == 'S':
                    stack.append(act[1])
                    trace.append(('S', idx))
                    break
                pi = act[1]
                lhs, rhs = gen.prods[pi]
                if rhs:
                    del stack[-len(rhs):]
                stack.append(self.goto(stack[-1], lhs))
                trace.append(('R', pi))
        return trace, None


class TableDriver:
    def __init__(self, spec, grammar):
        self.term_index = {t: i for i, t in enumerate(grammar.terminals)}
        prod_index = {}
        for i, p in enumerate(spec._productions):
            prod_index[id(p)] = i
        self.action = []
        for row in spec.actions():
            d = {}
            for tok, acts in row.items():
                assert len(acts) == 1
                a = acts[0]
                if type(a).__name__ == 'ShiftAction':
                    d[self.term_index[tok.name]] = ('S', a.nextState)
                else:
                    d[self.term_index[tok.name]] = (
                        'R', prod_index[id(a.production)])
            self.action.append(d)
        self.goto = [
            {nt.name: s for nt, s in row.items()} for row in spec.goto()]
        self.prods = [
            (p.lhs.name, len(p.rhs)) for p in spec._productions]

    def run(self, terms):
        stack = [0]
        trace = []
        for idx, cands in enumerate(terms):
            while True:
                act = None
                for t in cands:
                    act = self.action[stack[-1]].get(t)
                    if act is not None:
                        break
                if act is None:
                    return trace, idx
                if act[0] == 'S':
                    stack.append(act[1])
                    trace.append(('S', idx))
                    break
                lhs, n = self.prods[act[1]]
                if n:
                    del stack[-n:]
                stack.append(self.goto[stack[-1]][lhs])
                trace.append(('R', act[1]))
        return trace, None


def kind_to_terminals(spec):
    """Kind debug string -> list of grammar terminal names (as the Rust side
    maps names to kinds through get_token_kind)."""
    import edb._edgeql_parser as rp
    from edb.common import parsing as edb_parsing
    token_map = {v._token: c for c, v in edb_parsing.Token.token_map.items()}
    res = {}
    for name in spec._tokens:
        str_tok = token_map.get(name, name)
        try:
            kind = rp.get_token_kind(str_tok)
        except RuntimeError:
            continue
        res.setdefault(kind, []).append(name)
    return res


def collect_inputs():
    import selftest_syntax as st
    inputs = []
    starts = {
        'test_edgeql_syntax': 'STARTBLOCK',
        'test_schema_syntax': 'STARTSDLDOCUMENT',
    }
    for path in st.CORPORA:
        mod = vrt.import_test_module(path)
        for cls, name in st.iter_tests(mod):
            func = getattr(cls, name)
            raw = getattr(func, '__wrapped__', func)
            src, _ = st.split_doc(raw.__doc__)
            if src is None:
                continue
            inputs.append((f'{path.stem}.{name}', starts[path.stem], src))
    for p in sorted((vrt.REPO / 'edb' / 'lib').rglob('*.edgeql')):
        inputs.append((str(p.relative_to(vrt.REPO)), 'STARTBLOCK',
                       p.read_text()))
    return inputs


def main(argv=None):
    quiet = '--quiet' in (argv or sys.argv[1:])
    vrt.install()
    import edb._edgeql_parser as rp
    from edb.common import parsing as edb_parsing
    from edb.edgeql.parser.grammar import start as gmod

    t0 = time.time()
    spec = edb_parsing.load_parser_spec(gmod)
    grammar = spec._grammar()
    table = TableDriver(spec, grammar)
    canon = CanonicalLR1(grammar)
    k2t = kind_to_terminals(spec)
    tindex = table.term_index
    print(f'# tables + oracle ready in {time.time() - t0:.1f}s')

    def to_terms(start, toks):
        seq = [[tindex[start]]]
        for t in toks:
            names = k2t.get(t.kind)
            if not names:
                seq.append([])  # token kind unknown to the grammar
            else:
                seq.append([tindex[n] for n in names])
        # the second EOI
        seq.append([tindex[n] for n in k2t['EOI']])
        return seq

    rng = random.Random(20260923)
    n = n_ok = n_rej = n_mut = 0
    bad = 0
    inputs = collect_inputs()
    for label, start, src in inputs:
        res = rp.tokenize(src)
        if res.errors:
            continue
        variants = [(label, res.out)]
        if start == 'STARTBLOCK' and len(res.out) < 400:
            variants.append((label + '#frag', res.out))
        # error paths: delete / duplicate one random token
        if len(res.out) > 2 and len(res.out) < 2000:
            for k in range(3):
                i = rng.randrange(len(res.out) - 1)
                toks = list(res.out)
                if k % 2 == 0:
                    del toks[i]
                else:
                    toks.insert(i, toks[i])
                variants.append((f'{label}#mut{k}', toks))
                n_mut += 1
        for vlabel, toks in variants:
            st_name = 'STARTFRAGMENT' if vlabel.endswith('#frag') else start
            terms = to_terms(st_name, toks)
            tr_a, err_a = table.run(terms)
            tr_b, err_b = canon.run(terms)
            n += 1
            if err_a is None and err_b is None:
                n_ok += 1
                if tr_a != tr_b:
                    bad += 1
                    print(f'MISMATCH (trace) {vlabel}')
            elif err_a is not None and err_b is not None:
                n_rej += 1
                if err_a != err_b:
                    bad += 1
                    print(f'MISMATCH (error index {err_a} vs {err_b}) '
                          f'{vlabel}')
                else:
                    # shifts performed before the error must coincide
                    sa = [x for x in tr_a if x[0] == 'S']
                    sb = [x for x in tr_b if x[0] == 'S']
                    if sa != sb:
                        bad += 1
                        print(f'MISMATCH (shifts before error) {vlabel}')
            else:
                bad += 1
                print(f'MISMATCH (accept/reject: table={err_a} '
                      f'canonical={err_b}) {vlabel}')
            if not quiet and n % 500 == 0:
                print(f'# {n} inputs checked, canonical states so far: '
                      f'{len(canon.state_list)}', flush=True)
    print(f'# inputs: {n} (accepted {n_ok}, rejected {n_rej}, of which '
          f'{n_mut} are token mutations); canonical LR(1) states '
          f'materialised: {len(canon.state_list)}; table states: '
          f'{len(table.action)}')
    print(f'# mismatches: {bad}   elapsed {time.time() - t0:.1f}s')
    return 1 if bad else 0


if __name__ == '__main__':
    sys.exit(main())
