#!/venv/bin/python
"""Acceptance test of the substitute EdgeQL parser: upstream's own syntax
corpora, run under the vrt substrate.

    PYTHONPATH=/repo /venv/bin/python /verif/harness/rt/selftest_syntax.py \
        [--quiet] [--no-baseline] [--only SUBSTR] [--check-baseline]

Corpora:  /repo/tests/test_edgeql_syntax.py, /repo/tests/test_schema_syntax.py

How a test is run (same as edb/testbase/lang.py BaseSyntaxTest):
    docstring = source [ "\\n% OK %" expected ];  parse(grammar token, source)
    -> SpanValidator -> generate_source -> compare with expected (or with the
    source itself) after removing `re_filter` matches, case-insensitively.

Verdicts:
    PASS        the upstream test method passes unmodified (for must_fail
                tests: including upstream's message regex / line / col).
    PASS-TYPE   must_fail test: an exception of the expected type was raised
                but message/position differ from upstream (expected: the
                substrate has no error recovery / custom error rules).
    XFAIL       test is decorated xfail/xerror upstream and does fail.
    FAIL        anything else.

If `edb.testbase.lang` cannot be imported, a minimal re-implementation of
must_fail / DocTestMeta / BaseSyntaxTest (copied semantics) is installed under
that name first, so the corpora can still be loaded.

Writes syntax_baseline.json next to this file (unless --no-baseline):
    {"pass": [...ids], "pass_type": [...], "xfail": [...], "fail": {id: why}}
With --check-baseline, exits non-zero if any id listed under pass/pass_type in
the existing baseline is no longer at least that good.
"""

from __future__ import annotations

import argparse
import functools
import json
import os
import pathlib
import sys
import time
import traceback
import types
import unittest

HERE = pathlib.Path(__file__).resolve().parent
sys.path.insert(0, str(HERE))

import vrt  # noqa: E402

CORPORA = [
    pathlib.Path('/repo/tests/test_edgeql_syntax.py'),
    pathlib.Path('/repo/tests/test_schema_syntax.py'),
]
BASELINE = HERE / 'syntax_baseline.json'


def _install_lang_shim():
    """Fallback for `edb.testbase.lang` (only what the syntax corpora use)."""
    from edb.common import span
    from edb.edgeql import parser as qlparser

    mod = types.ModuleType('edb.testbase.lang')
    mod.__vrt_stub__ = True

    def _set_spec(func, name, attrs):
        try:
            spec = func.test_spec
        except AttributeError:
            spec = func.test_spec = {}
        assert name not in spec
        spec[name] = attrs

    def must_fail(exc_type, exc_msg_re=None, **kwargs):
        def wrap(func):
            args = (exc_type,)
            if exc_msg_re is not None:
                args += (exc_msg_re,)
            _set_spec(func, 'must_fail', (args, kwargs))
            return func
        return wrap

    class DocTestMeta(type(unittest.TestCase)):
        def __new__(mcls, name, bases, dct):
            for attr, meth in tuple(dct.items()):
                if attr.startswith('test_') and meth.__doc__:
                    @functools.wraps(meth)
                    def wrapper(self, meth=meth, doc=meth.__doc__):
                        spec = getattr(meth, 'test_spec', {})
                        spec['test_name'] = meth.__name__
                        source, output = split_doc(doc)
                        self._run_test(
                            source=source, spec=spec, expected=output)
                    dct[attr] = wrapper
            return super().__new__(mcls, name, bases, dct)

    class BaseDocTest(unittest.TestCase, metaclass=DocTestMeta):
        parser_debug_flag = ''
        re_filter = None

        def _run_test(self, *, source, spec=None, expected=None):
            if spec and 'must_fail' in spec:
                spec_args, spec_kwargs = spec['must_fail']
                if len(spec_args) == 1:
                    assertRaises = self.assertRaises
                else:
                    assertRaises = self.assertRaisesRegex
                with assertRaises(*spec_args) as cm:
                    return self.run_test(
                        source=source, spec=spec, expected=expected)
                if cm.exception:
                    exc = cm.exception
                    for attr_name, expected_val in spec_kwargs.items():
                        val = getattr(exc, attr_name)
                        if val != expected_val:
                            raise AssertionError(
                                f'must_fail: attribute {attr_name!r} is '
                                f'{val} (expected is {expected_val!r})'
                            ) from exc
            else:
                return self.run_test(
                    source=source, spec=spec, expected=expected)

        def assert_equal(self, expected, result, *, re_filter=None,
                         message=None):
            if re_filter is None:
                re_filter = self.re_filter
            if re_filter is not None:
                e = re_filter.sub('', expected).lower()
                r = re_filter.sub('', result).lower()
            else:
                e = expected.lower()
                r = result.lower()
            self.assertEqual(
                e, r, f'{message or ""}\nexpected:\n{expected}\n'
                      f'returned:\n{result}')

    class BaseSyntaxTest(BaseDocTest):
        ast_to_source = None
        markup_dump_lexer = None

        @classmethod
        def get_grammar_token(cls):
            raise NotImplementedError

        def run_test(self, *, source, spec, expected=None):
            inast = qlparser.parse(self.get_grammar_token(), source)
            span.SpanValidator().visit(inast)
            processed_src = self.ast_to_source(inast)
            expected_src = source if expected is None else expected
            self.assert_equal(expected_src, processed_src)

    mod.must_fail = must_fail
    mod._set_spec = _set_spec
    mod.DocTestMeta = DocTestMeta
    mod.BaseDocTest = BaseDocTest
    mod.BaseSyntaxTest = BaseSyntaxTest
    sys.modules['edb.testbase.lang'] = mod
    sys.modules['edb.testbase'].lang = mod
    return mod


def split_doc(doc):
    """DocTestMeta's docstring splitting."""
    if doc:
        output = error = None
        source, _, output = doc.partition('\n% OK %')
        if not output:
            source, _, error = doc.partition('\n% ERROR %')
            if not error:
                output = None
            else:
                output = error
    else:
        source = output = None
    return source, output


def iter_tests(mod):
    for name, obj in sorted(vars(mod).items()):
        if not (isinstance(obj, type) and issubclass(obj, unittest.TestCase)):
            continue
        if obj.__module__ != mod.__name__:
            continue
        names = sorted(n for n in dir(obj) if n.startswith('test_'))
        for n in names:
            yield obj, n


def short_exc(e: BaseException) -> str:
    s = f'{type(e).__name__}: {e}'
    s = s.strip().splitlines()
    head = s[0] if s else type(e).__name__
    return head[:300]


def run_one(cls, name):
    """-> (verdict, detail)"""
    inst = cls(name)
    func = getattr(cls, name)
    raw = getattr(func, '__wrapped__', func)
    spec = getattr(raw, 'test_spec', {}) or {}
    xfail = bool(getattr(func, '__unittest_expecting_failure__', False))
    try:
        getattr(inst, name)()
    except unittest.SkipTest as e:
        return 'SKIP', str(e)
    except BaseException as e:  # noqa
        if isinstance(e, (KeyboardInterrupt, SystemExit)):
            raise
        strict_err = e
    else:
        if xfail:
            return 'FAIL', 'decorated as expected failure but passed'
        return 'PASS', ''

    if xfail:
        return 'XFAIL', short_exc(strict_err)

    if 'must_fail' in spec:
        (exc_type, *_), _kw = spec['must_fail']
        source, expected = split_doc(raw.__doc__)
        try:
            inst.run_test(source=source, spec=spec, expected=expected)
        except exc_type as e:
            return 'PASS-TYPE', (
                f'got {short_exc(e)!r} '
                f'line={getattr(e, "line", None)} '
                f'col={getattr(e, "col", None)}; upstream check: '
                f'{short_exc(strict_err)}')
        except BaseException as e:  # noqa
            if isinstance(e, (KeyboardInterrupt, SystemExit)):
                raise
            return 'FAIL', f'must_fail: wrong exception {short_exc(e)}'
        return 'FAIL', 'must_fail: no exception raised'

    tb = traceback.extract_tb(strict_err.__traceback__)
    where = ''
    for fr in reversed(tb):
        if '/repo/' in fr.filename or '/verif/' in fr.filename:
            where = f' @ {fr.filename}:{fr.lineno}'
            break
    return 'FAIL', short_exc(strict_err) + where


def main(argv=None):
    ap = argparse.ArgumentParser()
    ap.add_argument('--quiet', action='store_true',
                    help='print only failures and totals')
    ap.add_argument('--no-baseline', action='store_true')
    ap.add_argument('--check-baseline', action='store_true')
    ap.add_argument('--only', default=None)
    args = ap.parse_args(argv)

    vrt.install()
    t0 = time.time()
    mode = 'upstream edb.testbase.lang'
    try:
        if os.environ.get('VRT_FORCE_LANG_SHIM'):
            raise ImportError('forced by VRT_FORCE_LANG_SHIM')
        import edb.testbase.lang  # noqa: F401
    except Exception as e:
        mode = f'shim (edb.testbase.lang failed to import: {short_exc(e)})'
        for k in [k for k in sys.modules if k.startswith('edb.testbase')]:
            del sys.modules[k]
        pkg = types.ModuleType('edb.testbase')
        pkg.__path__ = []
        sys.modules['edb.testbase'] = pkg
        sys.modules['edb'].testbase = pkg
        _install_lang_shim()
    print(f'# runner mode: {mode}')

    from edb.edgeql import parser as qlparser
    qlparser.preload_spec()
    print(f'# grammar spec ready in {time.time() - t0:.1f}s')

    results = {}
    totals = {}
    for path in CORPORA:
        mod = vrt.import_test_module(path)
        for cls, name in iter_tests(mod):
            tid = f'{path.stem}.{cls.__name__}.{name}'
            if args.only and args.only not in tid:
                continue
            verdict, detail = run_one(cls, name)
            func = getattr(cls, name)
            raw = getattr(func, '__wrapped__', func)
            kind = 'neg' if 'must_fail' in (
                getattr(raw, 'test_spec', {}) or {}) else 'pos'
            results[tid] = (verdict, detail, kind, path.stem)
            key = (path.stem, kind, verdict)
            totals[key] = totals.get(key, 0) + 1
            if not args.quiet or verdict == 'FAIL':
                line = f'{verdict:9s} {tid}'
                if detail and verdict in ('FAIL',):
                    line += f'  -- {detail}'
                print(line)

    print()
    print('# totals (corpus, kind, verdict): count')
    for key in sorted(totals):
        print(f'#   {key[0]:24s} {key[1]:3s} {key[2]:9s} {totals[key]}')
    for stem in sorted({k[0] for k in totals}):
        pos = sum(v for k, v in totals.items()
                  if k[0] == stem and k[1] == 'pos')
        pos_ok = sum(v for k, v in totals.items()
                     if k[0] == stem and k[1] == 'pos'
                     and k[2] in ('PASS', 'XFAIL'))
        neg = sum(v for k, v in totals.items()
                  if k[0] == stem and k[1] == 'neg')
        neg_strict = sum(v for k, v in totals.items()
                         if k[0] == stem and k[1] == 'neg'
                         and k[2] in ('PASS', 'XFAIL'))
        neg_type = sum(v for k, v in totals.items()
                       if k[0] == stem and k[1] == 'neg'
                       and k[2] == 'PASS-TYPE')
        pct = 100.0 * pos_ok / pos if pos else 100.0
        print(f'# {stem}: positive {pos_ok}/{pos} ({pct:.2f}%), '
              f'negative: {neg_strict} exact + {neg_type} type-only '
              f'/ {neg}')
    print(f'# elapsed {time.time() - t0:.1f}s')

    rc = 0
    if args.check_baseline and BASELINE.exists():
        old = json.loads(BASELINE.read_text())
        rank = {'PASS': 3, 'XFAIL': 3, 'PASS-TYPE': 2, 'SKIP': 1, 'FAIL': 0}
        for tid in old.get('pass', []) + old.get('xfail', []):
            if tid in results and rank[results[tid][0]] < 3:
                print(f'REGRESSION {tid}: was PASS now {results[tid][0]}')
                rc = 1
        for tid in old.get('pass_type', []):
            if tid in results and rank[results[tid][0]] < 2:
                print(f'REGRESSION {tid}: was PASS-TYPE now '
                      f'{results[tid][0]}')
                rc = 1

    if not args.no_baseline and not args.only:
        data = {
            'pass': sorted(t for t, r in results.items() if r[0] == 'PASS'),
            'pass_type': sorted(
                t for t, r in results.items() if r[0] == 'PASS-TYPE'),
            'xfail': sorted(
                t for t, r in results.items() if r[0] == 'XFAIL'),
            'fail': {t: r[1] for t, r in sorted(results.items())
                     if r[0] == 'FAIL'},
            'skip': sorted(t for t, r in results.items() if r[0] == 'SKIP'),
        }
        BASELINE.write_text(json.dumps(data, indent=1, sort_keys=True) + '\n')
        print(f'# baseline written to {BASELINE}')

    if any(r[0] == 'FAIL' for r in results.values()):
        rc = rc or 2
    return rc


if __name__ == '__main__':
    sys.exit(main())
