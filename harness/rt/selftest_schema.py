#!/venv/bin/python
"""Stage-4 validation: upstream schema / IR-inference test suites under the
vrt substrate (std schema built by the real DDL machinery from edb/lib parsed
with the substitute parser).

    PYTHONPATH=/repo /venv/bin/python /verif/harness/rt/selftest_schema.py \
        [--all | --sample N] [--suite NAME ...] [--quiet] [--no-baseline]
        [--check-baseline]

Suites (files under /repo/tests): test_schema, test_edgeql_ir_card_inference,
test_edgeql_ir_mult_inference, test_edgeql_ir_volatility_inference,
test_edgeql_ir_type_inference, test_edgeql_ir_pathid,
test_edgeql_ir_scopetree; with --extra also EXTRA_SUITES below (SQL codegen,
toy evaluation model / interpreter suites, tracer, connpool, ...).

Default: --sample 6 (every 6th test of each suite, deterministic).  --all
runs everything (~ a few minutes).

The tests are run through the standard unittest machinery (so setUpClass,
expectedFailure, skips behave as upstream); `edb.testbase.lang._std_schema`
is primed with `vrt.std_schema()` so the std schema is not rebuilt.

Verdicts: PASS, XFAIL (upstream-declared expected failure that fails), SKIP,
FAIL (failure/error/unexpected success).  Writes schema_baseline.json
(only with --all, unless --no-baseline).
"""

from __future__ import annotations

import argparse
import json
import pathlib
import sys
import time
import unittest

HERE = pathlib.Path(__file__).resolve().parent
sys.path.insert(0, str(HERE))

import vrt  # noqa: E402

SUITES = [
    'test_schema',
    'test_edgeql_ir_card_inference',
    'test_edgeql_ir_mult_inference',
    'test_edgeql_ir_volatility_inference',
    'test_edgeql_ir_type_inference',
    'test_edgeql_ir_pathid',
    'test_edgeql_ir_scopetree',
]
# Further upstream suites that need no server and pass under the substrate
# (run with --extra, or name them with --suite):
EXTRA_SUITES = [
    'test_edgeql_sql_codegen',        # EdgeQL -> IR -> SQL text (pgsql compiler)
    'test_tracer',
    'test_eval_model',
    'test_eval_model_group',
    'test_eval_model_new_interpreter',
    'test_interpreter_disambiguation',
    'test_edgeql_select_interpreter',
    'test_api_errors',
    'test_server_pool',               # connpool unit tests (10 skipped upstream)
    'test_server_request_scheduler',
    'test_profiling',
]
BASELINE = HERE / 'schema_baseline.json'


class Collect(unittest.TestResult):
    def __init__(self, quiet):
        super().__init__()
        self.quiet = quiet
        self.outcomes = {}

    def _id(self, test):
        tid = test.id()
        if tid.startswith('vrt_upstream_tests.'):
            tid = tid[len('vrt_upstream_tests.'):]
        return tid

    def _rec(self, test, verdict, detail=''):
        tid = self._id(test)
        self.outcomes[tid] = (verdict, detail)
        if not self.quiet or verdict == 'FAIL':
            line = f'{verdict:6s} {tid}'
            if verdict == 'FAIL' and detail:
                line += f'  -- {detail}'
            print(line, flush=True)

    @staticmethod
    def _short(err):
        et, ev, _tb = err
        s = f'{et.__name__}: {ev}'.strip().splitlines()
        return (s[0] if s else et.__name__)[:300]

    def addSuccess(self, test):
        self._rec(test, 'PASS')

    def addError(self, test, err):
        super().addError(test, err)
        self._rec(test, 'FAIL', 'error: ' + self._short(err))

    def addFailure(self, test, err):
        super().addFailure(test, err)
        self._rec(test, 'FAIL', 'failure: ' + self._short(err))

    def addSkip(self, test, reason):
        self._rec(test, 'SKIP', reason)

    def addExpectedFailure(self, test, err):
        self._rec(test, 'XFAIL', self._short(err))

    def addUnexpectedSuccess(self, test):
        self._rec(test, 'FAIL', 'unexpected success')


def flatten(suite):
    for t in suite:
        if isinstance(t, unittest.TestSuite):
            yield from flatten(t)
        else:
            yield t


def main(argv=None):
    ap = argparse.ArgumentParser()
    g = ap.add_mutually_exclusive_group()
    g.add_argument('--all', action='store_true')
    g.add_argument('--sample', type=int, default=6)
    ap.add_argument('--suite', action='append')
    ap.add_argument('--extra', action='store_true',
                    help='also run EXTRA_SUITES')
    ap.add_argument('--quiet', action='store_true')
    ap.add_argument('--no-baseline', action='store_true')
    ap.add_argument('--check-baseline', action='store_true')
    args = ap.parse_args(argv)

    t0 = time.time()
    vrt.install()
    vrt.prime_testbase()
    print(f'# std schema ready in {time.time() - t0:.1f}s', flush=True)

    suites = args.suite or (SUITES + (EXTRA_SUITES if args.extra else []))
    outcomes = {}
    for name in suites:
        ts = time.time()
        mod = vrt.import_test_module(f'/repo/tests/{name}.py')
        tests = sorted(
            flatten(unittest.defaultTestLoader.loadTestsFromModule(mod)),
            key=lambda t: t.id())
        if not args.all:
            tests = tests[::max(1, args.sample)]
        res = Collect(args.quiet)
        unittest.TestSuite(tests).run(res)
        # class-level errors (setUpClass) are reported against a pseudo test
        for test, tb in res.errors:
            if not isinstance(test, unittest.TestCase):
                tid = str(test)
                outcomes[tid] = ('FAIL', tb.strip().splitlines()[-1][:300])
                print(f'FAIL   {tid} -- {outcomes[tid][1]}')
        outcomes.update(res.outcomes)
        cnt = {}
        for v, _ in res.outcomes.values():
            cnt[v] = cnt.get(v, 0) + 1
        print(f'# {name}: ' + ', '.join(
            f'{k}={v}' for k, v in sorted(cnt.items()))
            + f' of {len(tests)} run  ({time.time() - ts:.1f}s)',
            flush=True)

    total = {}
    for v, _ in outcomes.values():
        total[v] = total.get(v, 0) + 1
    print('# TOTAL: ' + ', '.join(f'{k}={v}' for k, v in sorted(
        total.items())) + f'  elapsed {time.time() - t0:.1f}s')

    rc = 0
    if args.check_baseline and BASELINE.exists():
        old = json.loads(BASELINE.read_text())
        good = set(old.get('pass', [])) | set(old.get('xfail', []))
        for tid, (v, d) in outcomes.items():
            if tid in good and v == 'FAIL':
                print(f'REGRESSION {tid}: {d}')
                rc = 1

    if args.all and not args.no_baseline and not args.suite:
        data = {
            'pass': sorted(t for t, r in outcomes.items() if r[0] == 'PASS'),
            'xfail': sorted(
                t for t, r in outcomes.items() if r[0] == 'XFAIL'),
            'skip': sorted(t for t, r in outcomes.items() if r[0] == 'SKIP'),
            'fail': {t: r[1] for t, r in sorted(outcomes.items())
                     if r[0] == 'FAIL'},
        }
        BASELINE.write_text(json.dumps(data, indent=1, sort_keys=True) + '\n')
        print(f'# baseline written to {BASELINE}')
    if total.get('FAIL'):
        rc = rc or 2
    return rc


if __name__ == '__main__':
    sys.exit(main())
