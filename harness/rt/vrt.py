"""vrt -- verification runtime substrate for the EdgeDB/Gel tree in /repo.

`vrt.install()` makes the pure-Python parts of /repo/edb importable and
runnable in the sealed sandbox (no native extensions built, no third-party
`parsing`/`uvloop`/`graphql`/`setproctitle`, no PostgreSQL) by appending ONE
finder at the END of `sys.meta_path`.  Because it is last, it is consulted
only for modules that the regular import machinery cannot find, and it only
answers for an explicit allow-list of names:

  file-backed substitutes (stubs/*.py, each documented at its top)
    parsing                      -> stubs/parsing      (LALR generator)
    edb._edgeql_parser           -> stubs/edgeql_parser.py (real Rust lexer
                                    via qllex + Python LR driver)
    edb.common.turbo_uuid        -> stubs/turbo_uuid.py
    edb.pgsql.parser.parser      -> stubs/pgsql_parser.py (raises if called)
    edb._buildmeta               -> stubs/buildmeta_data.py (VERSION only)
    setproctitle, uvloop         -> stubs/setproctitle.py, stubs/uvloop.py

  lenient placeholders (import-only; attribute access yields placeholder
  classes; nothing in them works)
    graphql, graphql.*
    edb.server._rust_native, edb.server._rust_native.*
    edb.server.pgproto.*         (absent git submodule)
    every module of /repo/edb that exists only as a Cython .pyx file
    (dbview, pgcon, protocol.*, stmt_cache, compiler.rpc, ...)

Usage:
    import sys; sys.path.insert(0, '/verif/harness/rt')
    import vrt; vrt.install()
    from edb.edgeql import parser as qlparser
    qlparser.parse_fragment('select 1')

Other helpers: `vrt.std_schema()`, `vrt.compile_query()`, `vrt.load_sdl()`
(see the functions' docstrings and STATUS.md).

Run with /venv/bin/python and PYTHONPATH=/repo (install() also inserts /repo
at the front of sys.path and verifies that `edb` resolves there).
"""

from __future__ import annotations

import importlib
import importlib.abc
import importlib.machinery
import importlib.util
import os
import pathlib
import sys
import types

RT_DIR = pathlib.Path(__file__).resolve().parent
STUBS_DIR = RT_DIR / 'stubs'
VERIF_ROOT = RT_DIR.parent.parent
REPO = pathlib.Path(os.environ.get('VRT_REPO', '/repo'))
CACHE_DIR = pathlib.Path(
    os.environ.get('VRT_CACHE_DIR', str(VERIF_ROOT / 'cache')))

if str(RT_DIR) not in sys.path:
    sys.path.insert(0, str(RT_DIR))


FILE_STUBS = {
    'parsing': STUBS_DIR / 'parsing' / '__init__.py',
    'edb._edgeql_parser': STUBS_DIR / 'edgeql_parser.py',
    'edb.common.turbo_uuid': STUBS_DIR / 'turbo_uuid.py',
    'edb.pgsql.parser.parser': STUBS_DIR / 'pgsql_parser.py',
    'edb._buildmeta': STUBS_DIR / 'buildmeta_data.py',
    'setproctitle': STUBS_DIR / 'setproctitle.py',
    'uvloop': STUBS_DIR / 'uvloop.py',
}

LENIENT_PREFIXES = (
    'graphql',
    'edb.server._rust_native',
    'edb.server.pgproto',
)


def _cython_only_modules() -> set:
    """Modules of /repo/edb that exist only as .pyx (no .py next to them)."""
    res = set()
    base = REPO / 'edb'
    for pyx in base.rglob('*.pyx'):
        if pyx.with_suffix('.py').exists():
            continue
        rel = pyx.relative_to(REPO).with_suffix('')
        res.add('.'.join(rel.parts))
    return res


# --------------------------------------------------------------------------
# lenient placeholder machinery
# --------------------------------------------------------------------------

class _PlaceholderMeta(type):
    def __getattr__(cls, name):
        if name.startswith('__') and name.endswith('__'):
            raise AttributeError(name)
        val = _make_placeholder(f'{cls.__qualname__}.{name}')
        setattr(cls, name, val)
        return val

    def __getitem__(cls, item):
        return cls

    def __or__(cls, other):
        return cls

    def __ror__(cls, other):
        return cls


class Placeholder(metaclass=_PlaceholderMeta):
    """Value standing for anything exported by an unavailable native or
    third-party module.  Can be subclassed, instantiated, called, indexed;
    never does anything useful."""

    __vrt_stub__ = True

    def __init__(self, *args, **kwargs):
        self._vrt_args = (args, kwargs)

    def __call__(self, *args, **kwargs):
        if len(args) == 1 and not kwargs and callable(args[0]):
            # used as a decorator
            return args[0]
        return Placeholder()

    def __getattr__(self, name):
        if name.startswith('__') and name.endswith('__'):
            raise AttributeError(name)
        return Placeholder()

    def __iter__(self):
        return iter(())

    def __bool__(self):
        return False


def _make_placeholder(qualname: str):
    name = qualname.rpartition('.')[2]
    return _PlaceholderMeta(name, (Placeholder,), {'__qualname__': qualname})


class _LenientModule(types.ModuleType):
    __vrt_stub__ = True

    def __getattr__(self, name):
        if name.startswith('__') and name.endswith('__'):
            raise AttributeError(name)
        val = _make_placeholder(name)
        val.__module__ = self.__name__
        setattr(self, name, val)
        return val


class _LenientLoader(importlib.abc.Loader):
    def create_module(self, spec):
        mod = _LenientModule(spec.name)
        mod.__path__ = []  # behave as a package so that submodules resolve
        mod.__doc__ = (
            f'vrt lenient placeholder for unavailable module {spec.name}')
        return mod

    def exec_module(self, module):
        pass


class VrtFinder(importlib.abc.MetaPathFinder):
    def __init__(self):
        self.cython = _cython_only_modules()
        self.served = []

    def _is_lenient(self, fullname: str) -> bool:
        if fullname in self.cython:
            return True
        for p in LENIENT_PREFIXES:
            if fullname == p or fullname.startswith(p + '.'):
                return True
        return False

    def find_spec(self, fullname, path=None, target=None):
        stub = FILE_STUBS.get(fullname)
        if stub is not None:
            self.served.append(fullname)
            is_pkg = stub.name == '__init__.py'
            return importlib.util.spec_from_file_location(
                fullname, stub,
                submodule_search_locations=[str(stub.parent)] if is_pkg
                else None)
        if self._is_lenient(fullname):
            self.served.append(fullname)
            return importlib.machinery.ModuleSpec(
                fullname, _LenientLoader(), is_package=True)
        return None


_finder: VrtFinder | None = None


def install() -> VrtFinder:
    """Idempotently install the substrate.  Returns the finder (its
    `.served` list records which substitute modules were actually used)."""
    global _finder
    if _finder is not None:
        return _finder

    repo = str(REPO)
    if repo in sys.path:
        sys.path.remove(repo)
    sys.path.insert(0, repo)

    if 'edb' in sys.modules:
        edb = sys.modules['edb']
    else:
        edb = importlib.import_module('edb')
    paths = [str(pathlib.Path(p).resolve()) for p in
             getattr(edb, '__path__', [])]
    want = str((REPO / 'edb').resolve())
    if want not in paths:
        raise RuntimeError(
            f'`edb` is imported from {paths}, expected {want}; '
            f'run with PYTHONPATH=/repo')

    _finder = VrtFinder()
    sys.meta_path.append(_finder)
    # The test suites and the std bootstrap recurse deeply.
    if sys.getrecursionlimit() < 10000:
        sys.setrecursionlimit(10000)
    return _finder


def is_installed() -> bool:
    return _finder is not None


def served_modules() -> list:
    return list(_finder.served) if _finder else []


# --------------------------------------------------------------------------
# loading upstream test modules (tests/*.py of /repo)
# --------------------------------------------------------------------------

def _ensure_tools_test_shim() -> None:
    """`edb.tools.test` (imported by every upstream test module for its
    xfail/xerror/not_implemented decorators) drags in the server test
    machinery (`edb.testbase.server`, the `edgedb` client, ...), which does
    not import here.  Provide a module of that name which exposes the REAL
    decorators (edb/tools/test/decorators.py loaded by path) and nothing
    else."""
    if 'edb.tools.test' in sys.modules:
        return
    try:
        importlib.import_module('edb.tools.test')
        return
    except Exception:
        for k in [k for k in sys.modules
                  if k == 'edb.tools.test' or k.startswith('edb.tools.test.')]:
            del sys.modules[k]
    import edb.tools  # noqa: F401  (the package itself is importable)
    pkg_dir = REPO / 'edb' / 'tools' / 'test'
    shim = types.ModuleType('edb.tools.test')
    shim.__path__ = []  # no submodules other than the one registered below
    shim.__vrt_stub__ = True
    shim.__doc__ = 'vrt shim: only the decorators of edb.tools.test'
    spec = importlib.util.spec_from_file_location(
        'edb.tools.test.decorators', pkg_dir / 'decorators.py')
    dec = importlib.util.module_from_spec(spec)
    sys.modules['edb.tools.test.decorators'] = dec
    spec.loader.exec_module(dec)
    for name in ('xfail', 'xerror', 'not_implemented', 'skip',
                 'async_timeout', '_xfail'):
        if hasattr(dec, name):
            setattr(shim, name, getattr(dec, name))
    shim.decorators = dec
    sys.modules['edb.tools.test'] = shim
    sys.modules['edb.tools'].test = shim


def import_test_module(path) -> types.ModuleType:
    """Import an upstream test module (e.g. /repo/tests/test_schema.py) by
    file path under the substrate."""
    install()
    _ensure_tools_test_shim()
    path = pathlib.Path(path)
    name = f'vrt_upstream_tests.{path.stem}'
    if name in sys.modules:
        return sys.modules[name]
    spec = importlib.util.spec_from_file_location(name, path)
    mod = importlib.util.module_from_spec(spec)
    sys.modules[name] = mod
    try:
        spec.loader.exec_module(mod)
    except BaseException:
        del sys.modules[name]
        raise
    return mod


# --------------------------------------------------------------------------
# Stage 4: std schema, SDL loading, query compilation
# --------------------------------------------------------------------------

_std_schema = None
_refl = None

# Directories (relative to /repo) whose content determines the std schema.
STD_SCHEMA_SRC = (
    ('edb/lib', ('.edgeql',)),
    ('edb/schema', ('.py',)),
    ('edb/edgeql', ('.py',)),
    ('edb/ir', ('.py',)),
    ('edb/common', ('.py',)),
    # the lexer the substitute parser is built from
    ('edb/edgeql-parser/src', ('.rs',)),
)


def _hash_tree(h, base: pathlib.Path, suffixes) -> None:
    files = sorted(
        p for p in base.rglob('*')
        if p.is_file() and p.suffix in suffixes)
    for p in files:
        h.update(str(p.relative_to(base)).encode())
        h.update(b'\0')
        h.update(p.read_bytes())
        h.update(b'\0')


def std_schema_key() -> str:
    import hashlib
    h = hashlib.sha256()
    h.update(b'vrt-std-schema-1\0')
    h.update(sys.version.encode())
    for rel, suffixes in STD_SCHEMA_SRC:
        h.update(rel.encode() + b'\0')
        _hash_tree(h, REPO / rel, suffixes)
    # the substitute parser itself
    for p in sorted(STUBS_DIR.rglob('*.py')) + [RT_DIR / 'lrgen.py',
                                                RT_DIR / 'qllex.py']:
        h.update(p.name.encode() + b'\0' + p.read_bytes())
    return h.hexdigest()


def build_std_schema(verbose: bool = False):
    """The same steps as edb/testbase/lang.py::_load_std_schema (all
    STD_SOURCES + TESTMODE_SOURCES, then the schema version objects)."""
    install()
    import time
    from edb.schema import schema as s_schema
    from edb.schema import std as s_std

    schema = s_schema.EMPTY_SCHEMA
    for modname in [*s_schema.STD_SOURCES, *s_schema.TESTMODE_SOURCES]:
        t0 = time.time()
        schema = s_std.load_std_module(schema, modname)
        if verbose:
            print(f'[vrt] std module {modname}: {time.time() - t0:.1f}s',
                  file=sys.stderr, flush=True)
    schema, _ = s_std.make_schema_version(schema)
    schema, _ = s_std.make_global_schema_version(schema)
    return schema


def _cache_load(path: pathlib.Path):
    import pickle
    try:
        with open(path, 'rb') as f:
            return pickle.load(f)
    except FileNotFoundError:
        return None
    except Exception as e:  # corrupted / stale class layout
        print(f'[vrt] ignoring unreadable cache {path}: {e!r}',
              file=sys.stderr)
        return None


def _cache_store(path: pathlib.Path, obj) -> None:
    import pickle
    path.parent.mkdir(parents=True, exist_ok=True)
    tmp = path.with_suffix(f'.tmp{os.getpid()}')
    with open(tmp, 'wb') as f:
        pickle.dump(obj, f, protocol=pickle.HIGHEST_PROTOCOL)
    os.replace(tmp, path)


def std_schema(*, rebuild: bool = False, verbose: bool = False):
    """The standard-library schema (std, schema, math, sys, cfg, cal, ext,
    enc, pg, fts, net + _testmode), built by the REAL DDL machinery from
    edb/lib/**/*.edgeql parsed with the substitute parser.

    Cached as /verif/cache/stdschema-<key>.pickle (see std_schema_key());
    building takes ~10 s, loading ~0.3 s.  The returned object is immutable
    (edb schemas are persistent data structures), so it is shared."""
    global _std_schema
    install()
    if _std_schema is not None and not rebuild:
        return _std_schema
    path = CACHE_DIR / f'stdschema-{std_schema_key()}.pickle'
    schema = None if rebuild else _cache_load(path)
    if schema is None:
        schema = build_std_schema(verbose=verbose)
        _cache_store(path, schema)
    _std_schema = schema
    return schema


def reflection_schema(*, rebuild: bool = False):
    """(reflection schema, schema class layout) as computed by
    edb/testbase/lang.py::_load_reflection_schema; cached next to the std
    schema."""
    global _refl
    install()
    if _refl is not None and not rebuild:
        return _refl
    path = CACHE_DIR / f'reflschema-{std_schema_key()}.pickle'
    cached = None if rebuild else _cache_load(path)
    if cached is None:
        from edb.schema import reflection as s_refl
        from edb.schema import delta as sd
        std = std_schema()
        reflection = s_refl.generate_structure(std)
        context = sd.CommandContext(stdmode=True)
        reflschema = reflection.intro_schema_delta.apply(std, context)
        cached = (reflschema, reflection.class_layout)
        _cache_store(path, cached)
    _refl = cached
    return cached


def prime_testbase(with_reflection: bool = False) -> None:
    """Make upstream's edb.testbase.lang use the cached std schema (and, if
    asked, the cached reflection schema) instead of rebuilding them (it keeps
    them in module globals)."""
    install()
    from edb.testbase import lang
    lang._std_schema = std_schema()
    if with_reflection:
        lang._refl_schema, lang._schema_class_layout = reflection_schema()


def load_sdl(std, sdl_text: str, modname: str = 'default'):
    """User schema from SDL, exactly like
    edb/testbase/lang.py::BaseSchemaTest.load_schema:
    parse_sdl('module <modname> { <sdl_text> }') then s_ddl.apply_sdl(...,
    base_schema=std, current_schema=std).  Pass modname=None if `sdl_text`
    already contains its own `module ... { }` blocks."""
    install()
    from edb.edgeql import parser as qlparser
    from edb.schema import ddl as s_ddl
    if modname:
        text = f'module {modname} {{ {sdl_text} }}'
    else:
        text = sdl_text
    sdl_schema = qlparser.parse_sdl(text)
    return s_ddl.apply_sdl(
        sdl_schema, base_schema=std, current_schema=std)[0]


def migrate_to_sdl(std, sdl_by_module: dict, *, base=None):
    """User schema through the migration path used by
    BaseSchemaTest.setUpClass / BaseEdgeQLCompilerTest (START MIGRATION TO
    {...}; POPULATE MIGRATION; COMMIT MIGRATION), via the REAL
    BaseSchemaTest.run_ddl.  `sdl_by_module` maps module name -> SDL text."""
    install()
    prime_testbase()
    from edb.testbase import lang
    mods = ''.join(
        f'\nmodule {name} {{ {text} }}'
        for name, text in sdl_by_module.items())
    script = (f'START MIGRATION TO {{ {mods} }};\n'
              f'POPULATE MIGRATION;\nCOMMIT MIGRATION;')
    return lang.BaseSchemaTest.run_ddl(
        base if base is not None else std, script)


def run_ddl(schema, ddl_text: str, default_module: str = 'default'):
    """Apply a DDL script (BaseSchemaTest.run_ddl)."""
    install()
    prime_testbase()
    from edb.testbase import lang
    return lang.BaseSchemaTest.run_ddl(
        schema, ddl_text, default_module=default_module)


def compile_query(schema, text: str, *, modaliases=None, **options):
    """EdgeQL text -> IR: qlparser.parse_query + compile_ast_to_ir with
    CompilerOptions(modaliases={None: 'default'}, **options) -- the same call
    the tests/test_edgeql_ir_*.py suites make."""
    install()
    from edb.edgeql import compiler as qlcompiler
    from edb.edgeql import parser as qlparser
    if modaliases is None:
        modaliases = {None: 'default'}
    qltree = qlparser.parse_query(text)
    return qlcompiler.compile_ast_to_ir(
        qltree, schema,
        options=qlcompiler.CompilerOptions(modaliases=modaliases, **options),
    )


def new_compiler():
    """A server-side `edb.server.compiler.Compiler` exactly as
    edb/testbase/lang.py::new_compiler builds it (std schema + reflection
    schema + class layout), from the cached schemas.  Usable for e.g.
    `edbcompiler.new_compiler_context(compiler_state=c.state, user_schema=...)`
    + `edbcompiler.compile_edgeql_script(ctx=..., eql=...)` (this produces
    SQL text; nothing is executed)."""
    install()
    prime_testbase(with_reflection=True)
    from edb.testbase import lang
    return lang.new_compiler()


def prune_cache(dry_run: bool = False) -> list:
    """Remove stale generated files of THIS substrate from /verif/cache
    (lrtables-*.json, edgeql-spec-*.marshal, stdschema-*.pickle,
    reflschema-*.pickle whose key is not the current one).  Other files in the
    cache directory are never touched.  Returns the removed paths."""
    install()
    from edb.edgeql import parser as qlparser
    qlparser.preload_spec()
    import edb._edgeql_parser as rp
    keep = set()
    info = rp._SPEC_INFO
    if info.get('cache_key'):
        keep.add(f"lrtables-{info['cache_key']}.json")
    if info.get('spec_cache'):
        keep.add(pathlib.Path(info['spec_cache']).name)
    key = std_schema_key()
    keep.add(f'stdschema-{key}.pickle')
    keep.add(f'reflschema-{key}.pickle')
    removed = []
    for pattern in ('lrtables-*.json', 'edgeql-spec-*.marshal',
                    'stdschema-*.pickle', 'reflschema-*.pickle'):
        for p in sorted(CACHE_DIR.glob(pattern)):
            if p.name not in keep:
                removed.append(str(p))
                if not dry_run:
                    try:
                        p.unlink()
                    except OSError:
                        pass
    return removed
