"""vrt -- verification runtime substrate for the EdgeDB/Gel tree in /repo.

`vrt.install()` makes the pure-Python parts of /repo/edb importable and
runnable in the sealed sandbox (no native extensions built, no third-party
`parsing`/`uvloop`/`graphql`/`setproctitle`, no PostgreSQL) by appending ONE
finder at the END of `sys.meta_path`.  Because it is last, it is consulted
only for modules that the regular import machinery cannot find, and it only
answers for an explicit allow-list of names:

  file-backed substitutes (stubs/*.py, each documented at its top)
    parsing                      -> stubs/parsing      (LALR generator)
    edb._edgeql_parser           -> stubs/edgeql_parser.py (real Rust lexer
                                    via qllex + Python LR driver)
    edb.common.turbo_uuid        -> stubs/turbo_uuid.py
    edb.pgsql.parser.parser      -> stubs/pgsql_parser.py (raises if called)
    setproctitle, uvloop         -> stubs/setproctitle.py, stubs/uvloop.py

  lenient placeholders (import-only; attribute access yields placeholder
  classes; nothing in them works)
    graphql, graphql.*
    edb.server._rust_native, edb.server._rust_native.*
    edb.server.pgproto.*         (absent git submodule)
    every module of /repo/edb that exists only as a Cython .pyx file
    (dbview, pgcon, protocol.*, stmt_cache, compiler.rpc, ...)

Usage:
    import sys; sys.path.insert(0, '/verif/harness/rt')
    import vrt; vrt.install()
    from edb.edgeql import parser as qlparser
    qlparser.parse_fragment('select 1')

Other helpers: `vrt.std_schema()`, `vrt.compile_query()`, `vrt.load_sdl()`
(see the functions' docstrings and STATUS.md).

Run with /venv/bin/python and PYTHONPATH=/repo (install() also inserts /repo
at the front of sys.path and verifies that `edb` resolves there).
"""

from __future__ import annotations

import importlib
import importlib.abc
import importlib.machinery
import importlib.util
import os
import pathlib
import sys
import types

RT_DIR = pathlib.Path(__file__).resolve().parent
STUBS_DIR = RT_DIR / 'stubs'
VERIF_ROOT = RT_DIR.parent.parent
REPO = pathlib.Path(os.environ.get('VRT_REPO', '/repo'))
CACHE_DIR = pathlib.Path(
    os.environ.get('VRT_CACHE_DIR', str(VERIF_ROOT / 'cache')))

if str(RT_DIR) not in sys.path:
    sys.path.insert(0, str(RT_DIR))


FILE_STUBS = {
    'parsing': STUBS_DIR / 'parsing' / '__init__.py',
    'edb._edgeql_parser': STUBS_DIR / 'edgeql_parser.py',
    'edb.common.turbo_uuid': STUBS_DIR / 'turbo_uuid.py',
    'edb.pgsql.parser.parser': STUBS_DIR / 'pgsql_parser.py',
    'setproctitle': STUBS_DIR / 'setproctitle.py',
    'uvloop': STUBS_DIR / 'uvloop.py',
}

LENIENT_PREFIXES = (
    'graphql',
    'edb.server._rust_native',
    'edb.server.pgproto',
)


def _cython_only_modules() -> set:
    """Modules of /repo/edb that exist only as .pyx (no .py next to them)."""
    res = set()
    base = REPO / 'edb'
    for pyx in base.rglob('*.pyx'):
        if pyx.with_suffix('.py').exists():
            continue
        rel = pyx.relative_to(REPO).with_suffix('')
        res.add('.'.join(rel.parts))
    return res


# --------------------------------------------------------------------------
# lenient placeholder machinery
# --------------------------------------------------------------------------

class _PlaceholderMeta(type):
    def __getattr__(cls, name):
        if name.startswith('__') and name.endswith('__'):
            raise AttributeError(name)
        val = _make_placeholder(f'{cls.__qualname__}.{name}')
        setattr(cls, name, val)
        return val

    def __getitem__(cls, item):
        return cls

    def __or__(cls, other):
        return cls

    def __ror__(cls, other):
        return cls


class Placeholder(metaclass=_PlaceholderMeta):
    """Value standing for anything exported by an unavailable native or
    third-party module.  Can be subclassed, instantiated, called, indexed;
    never does anything useful."""

    __vrt_stub__ = True

    def __init__(self, *args, **kwargs):
        self._vrt_args = (args, kwargs)

    def __call__(self, *args, **kwargs):
        if len(args) == 1 and not kwargs and callable(args[0]):
            # used as a decorator
            return args[0]
        return Placeholder()

    def __getattr__(self, name):
        if name.startswith('__') and name.endswith('__'):
            raise AttributeError(name)
        return Placeholder()

    def __iter__(self):
        return iter(())

    def __bool__(self):
        return False


def _make_placeholder(qualname: str):
    name = qualname.rpartition('.')[2]
    return _PlaceholderMeta(name, (Placeholder,), {'__qualname__': qualname})


class _LenientModule(types.ModuleType):
    __vrt_stub__ = True

    def __getattr__(self, name):
        if name.startswith('__') and name.endswith('__'):
            raise AttributeError(name)
        val = _make_placeholder(name)
        val.__module__ = self.__name__
        setattr(self, name, val)
        return val


class _LenientLoader(importlib.abc.Loader):
    def create_module(self, spec):
        mod = _LenientModule(spec.name)
        mod.__path__ = []  # behave as a package so that submodules resolve
        mod.__doc__ = (
            f'vrt lenient placeholder for unavailable module {spec.name}')
        return mod

    def exec_module(self, module):
        pass


class VrtFinder(importlib.abc.MetaPathFinder):
    def __init__(self):
        self.cython = _cython_only_modules()
        self.served = []

    def _is_lenient(self, fullname: str) -> bool:
        if fullname in self.cython:
            return True
        for p in LENIENT_PREFIXES:
            if fullname == p or fullname.startswith(p + '.'):
                return True
        return False

    def find_spec(self, fullname, path=None, target=None):
        stub = FILE_STUBS.get(fullname)
        if stub is not None:
            self.served.append(fullname)
            is_pkg = stub.name == '__init__.py'
            return importlib.util.spec_from_file_location(
                fullname, stub,
                submodule_search_locations=[str(stub.parent)] if is_pkg
                else None)
        if self._is_lenient(fullname):
            self.served.append(fullname)
            return importlib.machinery.ModuleSpec(
                fullname, _LenientLoader(), is_package=True)
        return None


_finder: VrtFinder | None = None


def install() -> VrtFinder:
    """Idempotently install the substrate.  Returns the finder (its
    `.served` list records which substitute modules were actually used)."""
    global _finder
    if _finder is not None:
        return _finder

    repo = str(REPO)
    if repo in sys.path:
        sys.path.remove(repo)
    sys.path.insert(0, repo)

    if 'edb' in sys.modules:
        edb = sys.modules['edb']
    else:
        edb = importlib.import_module('edb')
    paths = [str(pathlib.Path(p).resolve()) for p in
             getattr(edb, '__path__', [])]
    want = str((REPO / 'edb').resolve())
    if want not in paths:
        raise RuntimeError(
            f'`edb` is imported from {paths}, expected {want}; '
            f'run with PYTHONPATH=/repo')

    _finder = VrtFinder()
    sys.meta_path.append(_finder)
    # The test suites and the std bootstrap recurse deeply.
    if sys.getrecursionlimit() < 10000:
        sys.setrecursionlimit(10000)
    return _finder


def is_installed() -> bool:
    return _finder is not None


def served_modules() -> list:
    return list(_finder.served) if _finder else []
