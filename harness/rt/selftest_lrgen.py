#!/venv/bin/python
"""Unit tests of lrgen.py on toy grammars (no edb needed).

    /venv/bin/python /verif/harness/rt/selftest_lrgen.py
"""

from __future__ import annotations

import pathlib
import sys
import unittest

sys.path.insert(0, str(pathlib.Path(__file__).resolve().parent))

import lrgen  # noqa: E402
from lrgen import EOF_NAME, EPS_NAME, START_NAME, Grammar, PrecInfo  # noqa


def precs(*levels):
    """levels: lowest first; each (name, assoc).  Plus `none`."""
    res = {'none': PrecInfo('none', 'fail', set(), {'none'})}
    names = [n for n, _ in levels]
    for i, (n, a) in enumerate(levels):
        res[n] = PrecInfo(n, a, set(names[i + 1:]), {n})
    return res


def grammar(terms, nts, prods, token_prec=None, precedences=None):
    token_prec = dict(token_prec or {})
    for t in list(terms) + [EOF_NAME, EPS_NAME]:
        token_prec.setdefault(t, 'none')
    return Grammar(
        terminals=list(terms) + [EOF_NAME, EPS_NAME],
        nonterminals=[START_NAME] + list(nts),
        productions=[(START_NAME, (nts[0], EOF_NAME), 'none')] + prods,
        token_prec=token_prec,
        precedences=precedences or precs(),
    )


def parse(tables, g, toks):
    """-> list of reduced production indexes, or None on syntax error."""
    stack = [0]
    out = []
    for t in list(toks) + [EOF_NAME]:
        while True:
            acts = tables.action[stack[-1]].get(t)
            if not acts:
                return None
            assert len(acts) == 1
            kind, arg = acts[0]
            if kind == 'S':
                stack.append(arg)
                break
            lhs, rhs, _ = g.productions[arg]
            if rhs:
                del stack[-len(rhs):]
            stack.append(tables.goto[stack[-1]][lhs])
            out.append(arg)
    return out


class TestToy(unittest.TestCase):
    def expr_grammar(self):
        P = precs(('pCmp', 'nonassoc'), ('pAdd', 'left'), ('pMul', 'left'),
                  ('pPow', 'right'))
        tp = {'+': 'pAdd', '*': 'pMul', '^': 'pPow', '<': 'pCmp'}
        prods = [
            ('E', ('E', '+', 'E'), 'pAdd'),   # 1
            ('E', ('E', '*', 'E'), 'pMul'),   # 2
            ('E', ('E', '^', 'E'), 'pPow'),   # 3
            ('E', ('E', '<', 'E'), 'pCmp'),   # 4
            ('E', ('n',), 'none'),            # 5
            ('E', ('(', 'E', ')'), 'none'),   # 6
        ]
        return grammar(['+', '*', '^', '<', 'n', '(', ')'], ['E'], prods,
                       tp, P)

    def test_precedence_and_assoc(self):
        g = self.expr_grammar()
        for method in ('pager', 'lalr'):
            t = lrgen.generate(g, method=method)
            self.assertTrue(t.pure_lr, t.conflicts)
            # n + n * n  => mul reduced before add
            self.assertEqual(parse(t, g, 'n + n * n'.split()),
                             [5, 5, 5, 2, 1])
            # n * n + n  => mul first
            self.assertEqual(parse(t, g, 'n * n + n'.split()),
                             [5, 5, 2, 5, 1])
            # left assoc: (n + n) + n
            self.assertEqual(parse(t, g, 'n + n + n'.split()),
                             [5, 5, 1, 5, 1])
            # right assoc: n ^ (n ^ n)
            self.assertEqual(parse(t, g, 'n ^ n ^ n'.split()),
                             [5, 5, 5, 3, 3])
            # nonassoc: n < n < n is an error, n < n + n fine
            self.assertIsNone(parse(t, g, 'n < n < n'.split()))
            self.assertEqual(parse(t, g, 'n < n + n'.split()),
                             [5, 5, 5, 1, 4])
            self.assertIsNone(parse(t, g, 'n + + n'.split()))

    def test_unresolved_without_precedence(self):
        prods = [
            ('E', ('E', '+', 'E'), 'none'),
            ('E', ('n',), 'none'),
        ]
        g = grammar(['+', 'n'], ['E'], prods)
        t = lrgen.generate(g)
        self.assertFalse(t.pure_lr)
        self.assertTrue(t.conflicts)

    def test_unrelated_precedences_conflict(self):
        P = {
            'none': PrecInfo('none', 'fail', set(), {'none'}),
            'a': PrecInfo('a', 'left', set(), {'a'}),
            'b': PrecInfo('b', 'left', set(), {'b'}),
        }
        prods = [
            ('E', ('E', '+', 'E'), 'a'),
            ('E', ('n',), 'none'),
        ]
        g = grammar(['+', 'n'], ['E'], prods, {'+': 'b'}, P)
        t = lrgen.generate(g)
        self.assertFalse(t.pure_lr)

    def test_lr1_not_lalr(self):
        # classic: LR(1) but not LALR(1)
        prods = [
            ('S', ('a', 'A', 'd'), 'none'),
            ('S', ('b', 'B', 'd'), 'none'),
            ('S', ('a', 'B', 'e'), 'none'),
            ('S', ('b', 'A', 'e'), 'none'),
            ('A', ('c',), 'none'),
            ('B', ('c',), 'none'),
        ]
        g = grammar(['a', 'b', 'c', 'd', 'e'], ['S', 'A', 'B'], prods)
        lalr = lrgen.generate(g, method='lalr')
        self.assertFalse(lalr.pure_lr)
        self.assertEqual(lalr.stats['n_rr_pairs'], 2)
        pager = lrgen.generate(g, method='pager')
        self.assertTrue(pager.pure_lr, pager.conflicts)
        self.assertEqual(pager.n_states, lalr.n_states + 1)
        self.assertEqual(parse(pager, g, 'a c d'.split()), [5, 1])
        self.assertEqual(parse(pager, g, 'a c e'.split()), [6, 3])
        self.assertEqual(parse(pager, g, 'b c d'.split()), [6, 2])
        self.assertEqual(parse(pager, g, 'b c e'.split()), [5, 4])
        self.assertIsNone(parse(pager, g, 'a c'.split()))

    def test_epsilon_and_empty_nonterminal(self):
        prods = [
            ('L', (), 'none'),                 # 1
            ('L', ('L', 'x', 'Opt'), 'none'),  # 2
            ('Opt', (), 'none'),               # 3
            ('Opt', (';',), 'none'),           # 4
            ('L', ('Never', 'x'), 'none'),     # 5 (Never has no productions)
        ]
        g = grammar(['x', ';'], ['L', 'Opt', 'Never'], prods)
        for method in ('pager', 'lalr'):
            t = lrgen.generate(g, method=method)
            self.assertTrue(t.pure_lr, t.conflicts)
            self.assertEqual(parse(t, g, []), [1])
            self.assertEqual(parse(t, g, ['x', 'x', ';']),
                             [1, 3, 2, 4, 2])
            self.assertIsNone(parse(t, g, [';']))

    def test_accept_marker(self):
        g = grammar(['n'], ['E'], [('E', ('n',), 'none')])
        t = lrgen.generate(g)
        # exactly one state reduces production 0, on <e>
        cells = [(q, k, v) for q, row in enumerate(t.action)
                 for k, v in row.items() if v == [('R', 0)]]
        self.assertEqual(len(cells), 1)
        self.assertEqual(cells[0][1], EPS_NAME)

    def test_deterministic(self):
        g = self.expr_grammar()
        a = lrgen.generate(g)
        b = lrgen.generate(g)
        self.assertEqual(a.action, b.action)
        self.assertEqual(a.goto, b.goto)


if __name__ == '__main__':
    unittest.main(verbosity=1)
