"""Stand-in for `edb._buildmeta`, the module that `setup.py build_metadata`
generates in a built tree (absent here).  Only VERSION is provided, so that
`edb.buildmeta.get_version()` works outside dev mode (dev mode would shell out
to git).  The version is `<EDGEDB_MAJOR_VERSION>.0-dev.1+vrt`, with the major
number read from /repo/edb/buildmeta.py.  Any other property is absent, which
`edb.buildmeta.get_build_metadata_value` reports as MetadataError exactly as in
an unbuilt tree.
"""

import pathlib
import re

__vrt_stub__ = True


def _major() -> int:
    import edb
    path = pathlib.Path(list(edb.__path__)[0]) / 'buildmeta.py'
    m = re.search(r'^EDGEDB_MAJOR_VERSION\s*=\s*(\d+)', path.read_text(),
                  re.M)
    if not m:
        raise RuntimeError('cannot find EDGEDB_MAJOR_VERSION')
    return int(m.group(1))


# (major, minor, stage(int, verutils.VersionStage), stage_no, local)
VERSION = (_major(), 0, 0, 1, ('vrt',))
