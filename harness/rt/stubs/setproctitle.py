"""Stand-in for the third-party `setproctitle` package (no-ops)."""

__vrt_stub__ = True
_title = 'python'


def setproctitle(title):
    global _title
    _title = str(title)


def getproctitle():
    return _title


def setthreadtitle(title):
    pass


def getthreadtitle():
    return ''
