"""Stand-in for the native module `edb._edgeql_parser` (Rust + pyo3, crate
/repo/edb/edgeql-parser/edgeql-parser-python), which is not built in the
sandbox.

What is REAL here
    * tokenisation: delegated to the `qllex` binary, which is compiled from the
      unmodified Rust tokenizer/validation sources of /repo (see qllex.py);
      `tokenize` mirrors edgeql-parser-python/src/tokenizer.rs (stop at the
      first error; tokens produced so far are still returned in `.out`).
    * SourcePoint.from_offsets: real position.rs through the same binary.
    * keyword sets: real keywords.rs (qllex --keywords).
    * the grammar: the real grammar classes of /repo/edb/edgeql/parser/grammar,
      the real `edb.common.parsing.spec_to_json` / `load_spec_productions`.

What is RE-IMPLEMENTED in Python (faithfully, from the Rust sources)
    * `parse`: the LR driver of edgeql-parser/src/parser.rs (`Parser::act`,
      `reduce` incl. production inlining and `extend_span`, the start-token
      injection, the second EOI, `finish`), and `Spec::from(SpecSerializable)`
      incl. `get_token_kind`.  Tables come from the stand-in `parsing`
      package (LR(1) by Pager's method, see lrgen.py) instead of the real
      `parsing` library.
    * `Hasher` (hash.rs), `normalize`/`Entry` (normalize.rs, pynormalize.rs),
      `offset_of_line` (position.rs of the binding).
    * error recovery and custom syntax errors: `parse` first runs a plain
      LR driver; on the first syntax error (or always, with
      VRT_PARSER_ALWAYS_RECOVERING=1) the input is re-run through
      stubs/edgeql_recovery.py, a statement-by-statement port of the
      recovering driver of parser.rs and of parser/custom_errors.rs, so the
      error list (messages "Missing ','", "Unexpected keyword 'X'" + hint /
      details, "Missing parentheses around ...", spans) matches upstream on
      all 278 negative tests of the upstream syntax corpora.

What is NOT reproduced
    * bincode formats: `pack()`/`unpack()`/pickling of tokens use a private
      JSON based format (round-trips within this substrate only).
    * `Entry.extra_blobs` uses a straightforward implementation of the
      PostgreSQL numeric wire format for bigint/decimal which has not been
      validated against edgedb-protocol.
    * the LR automaton is ours (see lrgen.py): language-equivalent to
      upstream's, different state numbering; in error recovery the set of
      injectable tokens is "all tokens with an action in the current state",
      which can in principle differ from upstream's in merged states.
"""

from __future__ import annotations

import base64
import hashlib
import json
import os
import pathlib
import struct
import sys
import typing

_RT = pathlib.Path(__file__).resolve().parent.parent
if str(_RT) not in sys.path:
    sys.path.insert(0, str(_RT))
_STUBS = pathlib.Path(__file__).resolve().parent
if str(_STUBS) not in sys.path:
    sys.path.append(str(_STUBS))

import qllex  # noqa: E402


class SyntaxError(Exception):  # noqa: A001  (name dictated by the real module)
    pass


# --------------------------------------------------------------------------
# keywords
# --------------------------------------------------------------------------

_kw = qllex.keywords()
unreserved_keywords = frozenset(sys.intern(k) for k in _kw['unreserved'])
partial_reserved_keywords = frozenset(sys.intern(k) for k in _kw['partial'])
future_reserved_keywords = frozenset(sys.intern(k) for k in _kw['future'])
current_reserved_keywords = frozenset(sys.intern(k) for k in _kw['current'])
_combined_keywords = frozenset(_kw['combined'])
_all_keywords = (
    unreserved_keywords | partial_reserved_keywords
    | future_reserved_keywords | current_reserved_keywords
    | _combined_keywords
)
_reserved_keywords = future_reserved_keywords | current_reserved_keywords


def _kw_kind(kw: str) -> str:
    # Debug rendering of tokenizer::Kind::Keyword(Keyword("..."))
    return 'Keyword(Keyword("%s"))' % kw


def _kind_keyword(kind: str) -> typing.Optional[str]:
    if kind.startswith('Keyword(Keyword("'):
        return kind[len('Keyword(Keyword("'):-3]
    return None


# --------------------------------------------------------------------------
# tokens
# --------------------------------------------------------------------------

def _value_from_desc(desc):
    """pynormalize.rs TokenizerValue -> Python object."""
    if desc is None:
        return None
    t, v = desc['t'], desc['v']
    if t == 'str':
        return bytes.fromhex(v).decode('utf-8')
    if t == 'bytes':
        return bytes.fromhex(v)
    if t == 'int':
        return int(v)
    if t == 'float':
        return float(v)
    if t == 'bigint':
        return int(v, 16)
    if t == 'decimal':
        return float(v)
    raise ValueError(f'unknown value type {t!r}')


class OpaqueToken:
    """Counterpart of tokenizer.rs OpaqueToken (wraps tokenizer::Token)."""

    __slots__ = ('kind', 'text', 'value_desc', 'start', 'end')

    def __init__(self, kind, text, value_desc, start, end):
        self.kind = kind
        self.text = text
        self.value_desc = value_desc
        self.start = start
        self.end = end

    @property
    def value(self):
        return _value_from_desc(self.value_desc)

    def __repr__(self):
        return '%s[%s]' % (self.text, self.kind)

    def _to_obj(self):
        return [self.kind, self.text, self.value_desc, self.start, self.end]

    @classmethod
    def _from_obj(cls, obj):
        return cls(*obj)

    def __reduce__(self):
        data = json.dumps(self._to_obj()).encode('utf-8')
        return (unpickle_token, (data,))

    def __eq__(self, other):
        # tokenizer.rs: PartialEq compares kind, text and value (not span)
        if not isinstance(other, OpaqueToken):
            return NotImplemented
        return (self.kind == other.kind and self.text == other.text
                and self.value_desc == other.value_desc)

    __hash__ = None  # type: ignore


def unpickle_token(data: bytes) -> OpaqueToken:
    try:
        return OpaqueToken._from_obj(json.loads(data))
    except Exception as e:
        raise ValueError(f'Failed to read token: {e}')


def _token_from_json(t) -> OpaqueToken:
    return OpaqueToken(
        t['kind'],
        bytes.fromhex(t['text']).decode('utf-8'),
        t.get('value'),
        t['start'],
        t['end'],
    )


class ParserResult:
    def __init__(self, out, errors):
        self.out = out
        self.errors = errors

    def pack(self) -> bytes:
        if not isinstance(self.out, list):
            raise TypeError('pack() needs a list of tokens')
        toks = []
        for t in self.out:
            if not isinstance(t, OpaqueToken):
                raise TypeError('pack() needs a list of OpaqueToken')
            toks.append(t._to_obj())
        return b'\x00' + json.dumps(toks).encode('utf-8')


def tokenize(s: str) -> ParserResult:
    if not isinstance(s, str):
        raise TypeError('argument must be str')
    res = qllex.tokenize(s)
    if 'ok' in res:
        return ParserResult([_token_from_json(t) for t in res['ok']], [])
    tokens = [_token_from_json(t) for t in res.get('partial', ())]
    err = (res['err'], (res['pos'], res['end']),
           res.get('hint'), res.get('details'))
    return ParserResult(tokens, [err])


def unpack(serialized: bytes):
    buf = bytes(serialized)
    if buf[0] == 0:
        try:
            objs = json.loads(buf[1:])
            return [OpaqueToken._from_obj(o) for o in objs]
        except Exception as e:
            raise ValueError(str(e))
    elif buf[0] == 1:
        try:
            obj = json.loads(buf[1:])
            return Entry._from_packed(obj)
        except Exception as e:
            raise ValueError(f'Failed to unpack: {e}')
    raise ValueError(f'Invalid type/version byte: {buf[0]}')


# --------------------------------------------------------------------------
# positions
# --------------------------------------------------------------------------

class SourcePoint:
    __slots__ = ('_line', '_column', '_utf16column', '_offset',
                 '_char_offset')

    def __init__(self, line, column, utf16column, offset, char_offset):
        self._line = line
        self._column = column
        self._utf16column = utf16column
        self._offset = offset
        self._char_offset = char_offset

    @staticmethod
    def from_offsets(data: bytes, offsets) -> list:
        if not isinstance(data, (bytes, bytearray)):
            raise TypeError('data must be bytes')
        offs = [int(o) for o in offsets]
        for o in offs:
            if o < 0:
                raise OverflowError("can't convert negative int to unsigned")
        res = qllex.positions(bytes(data), offs)
        if 'err' in res:
            raise RuntimeError(res['err'])
        return [
            SourcePoint(p['line'], p['column'], p['utf16column'],
                        p['offset'], p['char_offset'])
            for p in res['ok']
        ]

    @property
    def line(self):
        return self._line + 1

    @property
    def zero_based_line(self):
        return self._line

    @property
    def column(self):
        return self._column + 1

    @property
    def utf16column(self):
        return self._utf16column

    @property
    def offset(self):
        return self._offset

    @property
    def char_offset(self):
        return self._char_offset

    def __repr__(self):
        return (f'<SourcePoint line={self.line} column={self.column} '
                f'offset={self.offset}>')


def offset_of_line(text: str, target: int) -> int:
    """Port of edgeql-parser-python/src/position.rs::_offset_of_line."""
    data = text.encode('utf-8')
    was_lf = False
    line = 0
    for idx, byte in enumerate(data):
        if line >= target:
            return idx
        if byte == 0x0A:
            line += 1
            was_lf = False
        elif was_lf:
            line += 1
            if line >= target:
                return idx
            was_lf = byte == 0x0D
        elif byte == 0x0D:
            was_lf = True
    if was_lf:
        line += 1
    if target > line:
        raise IndexError('line number is too large')
    return len(data)


# --------------------------------------------------------------------------
# Hasher (edgeql-parser/src/hash.rs)
# --------------------------------------------------------------------------

class Hasher:
    def __init__(self, _h=None):
        self._hasher = _h

    @staticmethod
    def start_migration(parent_id: str) -> 'Hasher':
        h = hashlib.sha256()
        h.update(b'CREATE\0MIGRATION\0ONTO\0')
        h.update(parent_id.encode('utf-8'))
        h.update(b'\0{\0')
        return Hasher(h)

    def add_source(self, data: str) -> None:
        if self._hasher is None:
            raise RuntimeError('cannot add source after finish')
        res = qllex.raw_tokenize(data)
        if 'err' in res:
            # hash.rs feeds tokens to the hasher until the error; since the
            # hasher is unusable for a meaningful id afterwards we do the
            # same for fidelity.
            raise SyntaxError(res['err'], (res['pos'], None), None, None)
        for t in res['ok']:
            self._hasher.update(bytes.fromhex(t['text']))
            self._hasher.update(b'\0')
        return None

    def make_migration_id(self) -> str:
        if self._hasher is None:
            raise RuntimeError('cannot do migration id twice')
        h = self._hasher
        self._hasher = None
        h.update(b'}\0')
        b32 = base64.b32encode(h.digest()).decode('ascii').rstrip('=')
        return 'm1' + b32.lower()


# --------------------------------------------------------------------------
# normalize (edgeql-parser-python/src/normalize.rs + pynormalize.rs)
# --------------------------------------------------------------------------

_OPERATOR_KINDS = frozenset('''
    Assign SubAssign AddAssign Arrow Coalesce Namespace DoubleSplat
    BackwardLink FloorDiv Concat GreaterEq LessEq NotEq NotDistinctFrom
    DistinctFrom Comma OpenParen CloseParen OpenBracket CloseBracket
    OpenBrace CloseBrace Dot Semicolon Colon Add Sub Mul Div Modulo
    Pow Less Greater Eq Ampersand Pipe At
'''.split())


def _serialize_tokens(tokens) -> str:
    buf = []
    needs_space = False
    for tok in tokens:
        if tok.kind == 'EOI':
            break
        is_op = tok.kind in _OPERATOR_KINDS
        if needs_space and not is_op and tok.kind != 'Parameter':
            buf.append(' ')
        buf.append(tok.text)
        needs_space = not is_op
    return ''.join(buf)


def _scan_vars(tokens):
    max_visited = None
    names = set()
    for t in tokens:
        if t.kind == 'Parameter':
            body = t.text[1:]
            # Rust: str::parse::<usize>() -- ASCII digits, optional '+'
            v = None
            b = body[1:] if body.startswith('+') else body
            if b and b.isascii() and b.isdigit():
                v = int(b)
                if v >= 1 << 64:
                    v = None
            if v is not None:
                if max_visited is None or v > max_visited:
                    max_visited = v
            else:
                names.add(t.text)
    if not names:
        if max_visited is None:
            return (False, 0)
        if max_visited + 1 >= 1 << 64:
            return None
        return (False, max_visited + 1)
    elif max_visited is not None:
        return None
    else:
        return (True, len(names))


def _blake2b512(text: str) -> bytes:
    return hashlib.blake2b(text.encode('utf-8'), digest_size=64).digest()


def _pg_numeric(negative: bool, int_digits: str, frac_digits: str,
                with_dscale: bool) -> bytes:
    """Encode sign/int digits/fraction digits as PG numeric (base 10000)."""
    int_digits = int_digits.lstrip('0')
    dscale = len(frac_digits)
    # pad to groups of 4
    ipad = (-len(int_digits)) % 4
    ids = '0' * ipad + int_digits
    fpad = (-len(frac_digits)) % 4
    fds = frac_digits + '0' * fpad
    groups = [int(ids[i:i + 4]) for i in range(0, len(ids), 4)]
    weight = len(groups) - 1
    groups += [int(fds[i:i + 4]) for i in range(0, len(fds), 4)]
    # strip leading zero groups
    while groups and groups[0] == 0:
        groups.pop(0)
        weight -= 1
    while groups and groups[-1] == 0:
        groups.pop()
    if not groups:
        weight = 0
        negative = False
    out = struct.pack(
        '>HhHH', len(groups), weight, 0x4000 if negative else 0,
        dscale if with_dscale else 0)
    for g in groups:
        out += struct.pack('>H', g)
    return out


def _encode_value(desc) -> bytes:
    t, v = desc['t'], desc['v']
    if t == 'int':
        return struct.pack('>q', int(v))
    if t == 'str':
        return bytes.fromhex(v)
    if t == 'float':
        return struct.pack('>d', float(v))
    if t == 'bigint':
        n = int(v, 16)
        return _pg_numeric(n < 0, str(abs(n)), '', False)
    if t == 'decimal':
        neg = v.startswith('-')
        if neg:
            v = v[1:]
        digits, _, exp = v.partition('e')
        exp = int(exp)
        if exp >= 0:
            return _pg_numeric(neg, digits + '0' * exp, '', True)
        scale = -exp
        if len(digits) <= scale:
            digits = '0' * (scale - len(digits) + 1) + digits
        return _pg_numeric(neg, digits[:-scale], digits[-scale:], True)
    raise AssertionError('bytes literals are never extracted')


def _serialize_extra(variables) -> bytes:
    out = b''
    for desc in variables:
        enc = _encode_value(desc)
        out += struct.pack('>I', len(enc)) + enc
    return out


class Entry:
    def __init__(self, tokens, variables, named_args, first_arg):
        self._tokens = tokens
        self._variables = variables  # list[list[value_desc]]
        self._named_args = named_args
        self.first_extra = first_arg
        processed = _serialize_tokens(tokens)
        self.key = _blake2b512(processed)
        self.tokens = list(tokens)
        self.extra_blobs = [_serialize_extra(v) for v in variables]
        self.extra_counts = [len(v) for v in variables]

    def get_variables(self):
        res = {}
        if self.first_extra is None:
            return res
        idx = 0
        for group in self._variables:
            for desc in group:
                n = self.first_extra + idx
                name = f'__edb_arg_{n}' if self._named_args else str(n)
                res[name] = _value_from_desc(desc)
                idx += 1
        return res

    def pack(self) -> bytes:
        obj = {
            'tokens': [t._to_obj() for t in self._tokens],
            'variables': self._variables,
            'named_args': self._named_args,
            'first_arg': self.first_extra,
        }
        return b'\x01' + json.dumps(obj).encode('utf-8')

    @classmethod
    def _from_packed(cls, obj):
        return cls(
            [OpaqueToken._from_obj(o) for o in obj['tokens']],
            obj['variables'], obj['named_args'], obj['first_arg'])


def _arg_type_cast(typ: str, var: str, tok: OpaqueToken) -> OpaqueToken:
    return OpaqueToken(
        'ParameterAndType', f'<lit {typ}>{var}', None, tok.start, tok.end)


_NORMALIZE_BAIL_KW = frozenset(
    _kw_kind(k) for k in
    ('configure', 'create', 'alter', 'drop', 'start', 'analyze'))


def normalize(text: str) -> Entry:
    if not isinstance(text, str):
        raise TypeError('argument must be str')
    res = qllex.tokenize(text)
    if 'err' in res:
        raise SyntaxError(res['err'], (res['pos'], None), None, None)
    tokens = [_token_from_json(t) for t in res['ok']]

    scan = _scan_vars(tokens)
    if scan is None:
        return Entry(tokens, [], False, None)
    named_args, var_idx = scan
    rewritten = []
    all_variables = []
    variables = []
    counter = var_idx

    def next_var():
        nonlocal counter
        n = counter
        counter += 1
        return f'$__edb_arg_{n}' if named_args else f'${n}'

    kw_limit = _kw_kind('limit')
    kw_global = _kw_kind('global')
    kw_set = _kw_kind('set')
    last_was_set = False
    simple = {
        'FloatConst': 'float64', 'BigIntConst': 'bigint',
        'DecimalConst': 'decimal', 'Str': 'str',
    }
    for tok in tokens:
        is_set = False
        kind = tok.kind
        if (kind == 'IntConst'
                and not (rewritten and rewritten[-1].kind == 'Dot')
                and (tok.text != '1'
                     or not (rewritten and rewritten[-1].kind == kw_limit))
                and tok.text != '9223372036854775808'):
            rewritten.append(_arg_type_cast('int64', next_var(), tok))
            variables.append(tok.value_desc)
            continue
        elif kind in simple:
            rewritten.append(_arg_type_cast(simple[kind], next_var(), tok))
            variables.append(tok.value_desc)
            continue
        elif (kind in _NORMALIZE_BAIL_KW
              or (last_was_set and kind == kw_global)):
            return Entry(tokens, [], False, None)
        elif kind == 'Semicolon':
            all_variables.append(variables)
            variables = []
            rewritten.append(tok)
        elif kind == kw_set:
            is_set = True
            rewritten.append(tok)
        else:
            rewritten.append(tok)
        last_was_set = is_set
    all_variables.append(variables)
    return Entry(
        rewritten, all_variables, named_args,
        None if counter <= var_idx else var_idx)


# --------------------------------------------------------------------------
# parser (edgeql-parser/src/parser.rs + edgeql-parser-python/src/parser.rs)
# --------------------------------------------------------------------------

class Terminal:
    __slots__ = ('text', 'value', 'start', 'end', '_kind')

    def __init__(self, text, value, start, end, kind=None):
        self.text = text
        self.value = value
        self.start = start
        self.end = end
        self._kind = kind

    def __repr__(self):
        return f'<Terminal {self.text!r} {self.start}..{self.end}>'


class Production:
    __slots__ = ('id', 'args', '_inlined_ids')

    def __init__(self, id, args, inlined_ids=None):
        self.id = id
        self.args = args
        self._inlined_ids = inlined_ids

    def __repr__(self):
        return f'<Production {self.id} {self.args!r}>'


class CSTNode:
    __slots__ = ('production', 'terminal')

    def __init__(self, production=None, terminal=None):
        self.production = production
        self.terminal = terminal

    def __repr__(self):
        if self.terminal is not None:
            return f'<CSTNode {self.terminal!r}>'
        return f'<CSTNode {self.production!r}>'


_FIXED_TOKEN_KINDS = {
    '+': 'Add', '&': 'Ampersand', '@': 'At', '.<': 'BackwardLink',
    '}': 'CloseBrace', ']': 'CloseBracket', ')': 'CloseParen',
    '??': 'Coalesce', ':': 'Colon', ',': 'Comma', '++': 'Concat',
    '/': 'Div', '.': 'Dot', '**': 'DoubleSplat', '=': 'Eq',
    '//': 'FloorDiv', '%': 'Modulo', '*': 'Mul', '::': 'Namespace',
    '{': 'OpenBrace', '[': 'OpenBracket', '(': 'OpenParen', '|': 'Pipe',
    '^': 'Pow', ';': 'Semicolon', '-': 'Sub',
    '?!=': 'DistinctFrom', '>=': 'GreaterEq', '<=': 'LessEq',
    '?=': 'NotDistinctFrom', '!=': 'NotEq', '<': 'Less', '>': 'Greater',
    'IDENT': 'Ident', 'EOI': 'EOI', '<$>': 'EOI', '<e>': 'Epsilon',
    'BCONST': 'BinStr', 'FCONST': 'FloatConst', 'ICONST': 'IntConst',
    'NFCONST': 'DecimalConst', 'NICONST': 'BigIntConst', 'SCONST': 'Str',
    'STARTBLOCK': 'StartBlock', 'STARTEXTENSION': 'StartExtension',
    'STARTFRAGMENT': 'StartFragment', 'STARTMIGRATION': 'StartMigration',
    'STARTSDLDOCUMENT': 'StartSDLDocument',
    '+=': 'AddAssign', '->': 'Arrow', ':=': 'Assign', '-=': 'SubAssign',
    'PARAMETER': 'Parameter', 'PARAMETERANDTYPE': 'ParameterAndType',
    'SUBSTITUTION': 'Substitution',
    'STRINTERPSTART': 'StrInterpStart', 'STRINTERPCONT': 'StrInterpCont',
    'STRINTERPEND': 'StrInterpEnd',
}


def get_token_kind(token_name: str) -> str:
    """Port of parser.rs::get_token_kind (result: Debug string of Kind)."""
    k = _FIXED_TOKEN_KINDS.get(token_name)
    if k is not None:
        return k
    name = token_name.lower()
    if name.startswith('dunder'):
        name = '__%s__' % name[len('dunder'):]
    # keywords::lookup_all
    if name not in _all_keywords:
        raise RuntimeError(f'unknown keyword {name}')
    return _kw_kind(name)


class _Spec:
    """Port of parser.rs `Spec` (+ `impl From<SpecSerializable>`)."""

    def __init__(self, obj):
        self.actions = []
        for st in obj['actions']:
            d = {}
            for name, act in st:
                kind = get_token_kind(name)
                if 'Shift' in act:
                    d[kind] = (0, int(act['Shift']))
                else:
                    r = act['Reduce']
                    d[kind] = (1, int(r['production_id']), r['non_term'],
                               int(r['cnt']))
            self.actions.append(d)
        self.goto = [dict((n, int(s)) for n, s in st) for st in obj['goto']]
        self.start = obj['start']
        self.inlines = {int(i): int(p) for i, p in obj['inlines']}
        self.production_names = [tuple(x) for x in obj['production_names']]


_SPEC: typing.Optional[tuple] = None  # (_Spec, productions)
_SPEC_INFO: dict = {}
_SPEC_MAGIC = 'vrt-edgeql-grammar-spec-1'


def _grammar_module():
    import importlib
    return importlib.import_module('edb.edgeql.parser.grammar.start')


def _build_spec_json(spec=None) -> str:
    from edb.common import parsing as edb_parsing
    if spec is None:
        spec = edb_parsing.load_parser_spec(_grammar_module())
    _SPEC_INFO['stats'] = spec.stats
    _SPEC_INFO['cache_key'] = spec.cache_key
    _SPEC_INFO['pure_lr'] = spec.pureLR
    if not spec.pureLR:
        raise AssertionError(
            'grammar is not pure LR under the stand-in generator; '
            'first conflicts:\n' + '\n'.join(spec.conflicts[:5]))
    return edb_parsing.spec_to_json(spec)


def _install_spec(spec_json: str, cache_path=None) -> None:
    global _SPEC
    from edb.common import parsing as edb_parsing
    spec = _Spec(json.loads(spec_json))
    if cache_path is not None:
        try:
            import marshal
            payload = marshal.dumps((
                _SPEC_MAGIC, spec.actions, spec.goto, spec.start,
                spec.inlines, spec.production_names))
            tmp = f'{cache_path}.tmp{os.getpid()}'
            with open(tmp, 'wb') as f:
                f.write(payload)
            os.replace(tmp, cache_path)
        except OSError:
            pass
    productions = edb_parsing.load_spec_productions(
        [list(p) for p in spec.production_names], _grammar_module())
    _SPEC = (spec, productions)


def _load_cached_spec(cache_path) -> bool:
    """Second-level cache: the final driver tables (marshal)."""
    global _SPEC
    try:
        import marshal
        with open(cache_path, 'rb') as f:
            obj = marshal.loads(f.read())
        magic, actions, goto, start, inlines, production_names = obj
        if magic != _SPEC_MAGIC:
            return False
    except Exception:
        return False
    from edb.common import parsing as edb_parsing
    spec = _Spec.__new__(_Spec)
    spec.actions = actions
    spec.goto = goto
    spec.start = start
    spec.inlines = inlines
    spec.production_names = production_names
    productions = edb_parsing.load_spec_productions(
        [list(p) for p in production_names], _grammar_module())
    _SPEC = (spec, productions)
    return True


def preload_spec(spec_filepath: str) -> None:
    """Load the grammar spec.

    Upstream reads the bincode file produced at build time
    (edb/edgeql/grammar.bc).  That file does not exist in an unbuilt tree, so
    if `spec_filepath` is not a file written by *our* `save_spec`, the spec is
    generated from the grammar modules: real `load_parser_spec` (stand-in
    `parsing.Spec`, LR tables cached as /verif/cache/lrtables-<key>.json) ->
    real `spec_to_json` -> `_Spec`.  The resulting driver tables are cached
    as /verif/cache/edgeql-spec-<key2>.marshal where key2 covers the table
    key, edb/common/parsing.py and this file.
    """
    if _SPEC is not None:
        return
    spec_json = None
    try:
        with open(spec_filepath, 'rb') as f:
            head = f.read(len(_SPEC_MAGIC) + 1)
            if head == (_SPEC_MAGIC + '\n').encode():
                spec_json = f.read().decode('utf-8')
    except (OSError, TypeError):
        pass
    if spec_json is not None:
        _install_spec(spec_json)
        return

    from edb.common import parsing as edb_parsing
    spec = edb_parsing.load_parser_spec(_grammar_module())
    h = hashlib.sha256()
    h.update(spec.cache_key.encode())
    h.update(pathlib.Path(edb_parsing.__file__).read_bytes())
    h.update(pathlib.Path(__file__).read_bytes())
    cache_dir = pathlib.Path(
        os.environ.get('VRT_CACHE_DIR', str(_RT.parent.parent / 'cache')))
    cache_path = cache_dir / f'edgeql-spec-{h.hexdigest()}.marshal'
    _SPEC_INFO['cache_key'] = spec.cache_key
    _SPEC_INFO['spec_cache'] = str(cache_path)
    if os.environ.get('VRT_NO_SPEC_CACHE') or not _load_cached_spec(
            cache_path):
        spec_json = _build_spec_json(spec)
        cache_dir.mkdir(parents=True, exist_ok=True)
        _install_spec(spec_json, cache_path)


def save_spec(spec_json: str, dst: str) -> None:
    try:
        json.loads(spec_json)
    except Exception as e:
        raise ValueError(f'Invalid JSON: {e}')
    with open(dst, 'wb') as f:
        f.write((_SPEC_MAGIC + '\n').encode())
        f.write(spec_json.encode('utf-8'))


def _get_spec():
    if _SPEC is None:
        raise AssertionError('grammar spec not loaded')
    return _SPEC


def _span_of_nodes(args):
    """Port of parser.rs::get_span_of_nodes -> (start, end) | None."""
    start = None
    for x in args:
        if x.terminal is not None:
            start = x.terminal.start
            break
        if x.production is not None:
            sp = _span_of_nodes(x.production.args)
            if sp is not None:
                start = sp[0]
                break
    if start is None:
        return None
    end = None
    for x in reversed(args):
        if x.terminal is not None:
            end = x.terminal.end
            break
        if x.production is not None:
            sp = _span_of_nodes(x.production.args)
            if sp is not None:
                end = sp[1]
                break
    if end is None:
        return None
    return (start, end)


def _quote_name(s: str) -> str:
    return qllex.quote_name(s)


_ALWAYS_RECOVERING = bool(os.environ.get('VRT_PARSER_ALWAYS_RECOVERING'))
_RECOVERY_CTX: typing.Optional[tuple] = None


def _parse_recovering(spec, productions, inp):
    """Run the port of parser.rs::parse (with error recovery and custom
    errors) over `inp` = [(kind, OpaqueToken|None)...] (start token + tokens
    + second EOI)."""
    global _RECOVERY_CTX
    import edgeql_recovery as rec
    if _RECOVERY_CTX is None or _RECOVERY_CTX[0] is not spec:
        _RECOVERY_CTX = (spec, rec.Ctx(spec, sys.modules[__name__]))
    ctx = _RECOVERY_CTX[1]
    terms = []
    for kind, tok in inp[:-1]:  # recovery.parse appends the second EOI itself
        if tok is None:
            terms.append(rec.RTerminal(kind, '', None, 0, 0))
        else:
            terms.append(rec.RTerminal(
                kind, tok.text, tok.value, tok.start, tok.end))
    node, errors = rec.parse(terms, ctx)
    return (ParserResult(node, [e.as_tuple() for e in errors]), productions)


def parse(start_token_name: str, tokens):
    spec, productions = _get_spec()
    if not isinstance(tokens, list):
        raise TypeError('tokens must be a list')

    actions = spec.actions
    goto = spec.goto
    inlines = spec.inlines

    # downcast_tokens: injected start token + the tokens ...
    inp = [(get_token_kind(start_token_name), None)]
    for tok in tokens:
        if not isinstance(tok, OpaqueToken):
            raise TypeError('tokens must be OpaqueToken instances')
        inp.append((tok.kind, tok))
    # ... + the second EOI (see the comment in parser.rs::parse)
    end = tokens[-1].end if tokens else 0
    inp.append(('EOI', OpaqueToken('EOI', '', None, end, end)))

    if _ALWAYS_RECOVERING:
        return _parse_recovering(spec, productions, inp)

    # Fast path: plain LR driver without error recovery.  On the first
    # syntax error the whole input is re-run through the faithful port of
    # the recovering driver (stubs/edgeql_recovery.py), which yields the
    # same CST when there is no error.
    # stack of (state, CSTNode | None)
    states = [0]
    values: list = [None]

    for kind, tok in inp:
        if tok is None:
            term = Terminal('', None, 0, 0, kind)
        else:
            term = Terminal(tok.text, tok.value, tok.start, tok.end, kind)
        while True:
            action = actions[states[-1]].get(kind)
            if action is None:
                return _parse_recovering(spec, productions, inp)
            if action[0] == 0:
                states.append(action[1])
                values.append(CSTNode(None, term))
                break
            _, prod_id, non_term, cnt = action
            if cnt:
                args = values[-cnt:]
                del values[-cnt:]
                del states[-cnt:]
            else:
                args = []
            nstate = states[-1]
            nxt = goto[nstate][non_term]
            inline_pos = inlines.get(prod_id)
            if inline_pos is None:
                value = CSTNode(Production(prod_id, args), None)
            else:
                span = _span_of_nodes(args)
                src = args[inline_pos]
                if src.production is not None:
                    p = src.production
                    value = CSTNode(Production(
                        p.id, p.args,
                        (p._inlined_ids or ()) + (prod_id,)), None)
                elif src.terminal is not None:
                    t = src.terminal
                    if span is not None:
                        t = Terminal(
                            t.text, t.value,
                            min(t.start, span[0]), max(t.end, span[1]),
                            t._kind)
                    value = CSTNode(None, t)
                else:
                    value = src
            states.append(nxt)
            values.append(value)

    # Parser::finish
    top = values[-1]
    assert top is not None and top.terminal is not None \
        and top.terminal._kind == 'EOI', \
        f'expected EOI CST node, got {top!r}'
    final = values[-2]
    assert len(values) == 3 and values[0] is None, \
        f'expected empty CST node, found {values[:-2]!r}'
    return ParserResult(final, []), productions
