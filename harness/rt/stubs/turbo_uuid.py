"""Stand-in for `edb.common.turbo_uuid` (Cython, built from
edb/server/pgproto/uuid.pyx, which is an absent git submodule).

`UUID` is a `uuid.UUID` subclass accepting what the pgproto UUID accepts:
16 raw bytes (bytes/bytearray/memoryview) or a hex string with or without
dashes.  It hashes/compares like `uuid.UUID` (so it is interchangeable with
stdlib UUIDs in dicts/sets, as with the real one) and pickles to
`(UUID, (bytes,))` like the real one.

Not reproduced: the C-level speed, `__slots__`-less attribute rejection
details, and pgproto's stricter error messages for malformed strings (any
string `uuid.UUID(hex=...)` accepts is accepted here, e.g. `{...}`/`urn:uuid:`
forms, which pgproto rejects).
"""

from __future__ import annotations

import uuid


class UUID(uuid.UUID):
    __slots__ = ()

    def __init__(self, inp):
        if isinstance(inp, (bytes, bytearray, memoryview)):
            data = bytes(inp)
            if len(data) != 16:
                raise ValueError(f'16 bytes were expected, got {len(data)}')
            super().__init__(bytes=data)
        elif isinstance(inp, str):
            try:
                super().__init__(hex=inp)
            except ValueError:
                raise ValueError(
                    f'invalid UUID {inp!r}: length must be between '
                    f'32..36 characters, got {len(inp)}') from None
        elif isinstance(inp, uuid.UUID):
            super().__init__(int=inp.int)
        else:
            raise TypeError(
                f'a bytes or str object expected, got {inp!r}')

    def __reduce__(self):
        return (type(self), (self.bytes,))
