"""Stand-in for the third-party `parsing` package (MagicStack/parsing, a fork
of Jason Evans' Parsing.py), which is not installed in the sandbox.

It implements exactly what /repo/edb/common/parsing.py and the grammar
modules under /repo/edb/edgeql/parser/grammar use:

    parsing.Precedence, parsing.Token, parsing.Nonterm   (base classes whose
        subclasses carry the grammar in their docstrings)
    parsing.Spec(modules, skinny=..., logFile=..., verbose=...)
        .pureLR, .actions(), .goto(), .start_sym()
        (+ ._productions, ._precedences, ._tokens, ._nonterms, ._startState
         for inspection)
    action objects: ShiftAction(.nextState) / ReduceAction(.production)
    Production(.method, .qualified, .prec, .lhs, .rhs)
    TokenSpec / NontermSpec with str() == symbol name.

Docstring directives understood (same syntax as the real library):

    class P(parsing.Precedence):  "%left|%right|%nonassoc|%fail|%split [name] [<p|>p|=p ...]"
        `>p`: this precedence is higher than p, `<p`: lower, `=p`: equivalent.
    class T(parsing.Token):       "%token [name] [[prec]]"
    class N(parsing.Nonterm):     "%nonterm [name] [[prec]]"  or  "%start ..."
        def reduce_x(self, ...):  "%reduce A B C [[prec]]"   (`<e>` = empty)

Precedence of a production without an explicit `[prec]`:
    controlled by DEFAULT_PROD_PREC (see below); decided empirically, see
    STATUS.md.  Tokens without a precedence get the built-in `none`
    (%fail) precedence, as in the real library.

Table construction is delegated to ../../lrgen.py (LALR(1) + the library's
all-pairs precedence disambiguation).  Generated tables are cached under
/verif/cache/lrtables-<sha256>.json where the hash covers the complete
extracted grammar (symbols, productions, precedences -- i.e. everything the
grammar modules, edb/common/parsing.py and keywords.rs contribute) plus the
source of this file and of lrgen.py.

NOT reproduced: the GLR/LR runtime drivers (`parsing.Lr`, `parsing.Glr`),
pickling of specs, log/graph file output, Pager's PGM state construction
(state numbering differs from upstream; the accepted language does not, as
long as the table is conflict free -- which `pureLR` asserts).
"""

from __future__ import annotations

import hashlib
import json
import os
import pathlib
import re
import sys
import time
import types

_HERE = pathlib.Path(__file__).resolve().parent
_RT = _HERE.parent.parent
if str(_RT) not in sys.path:
    sys.path.insert(0, str(_RT))

import lrgen  # noqa: E402

__all__ = (
    'Precedence', 'Symbol', 'Nonterm', 'Token', 'Spec', 'SpecError',
    'Production', 'ShiftAction', 'ReduceAction', 'TokenSpec', 'NontermSpec',
)

# How a production without explicit [prec] gets its precedence:
#   'rightmost' : precedence of its right-most terminal that has one
#                 (yacc/bison rule), else the nonterminal's, else `none`
#   'leftmost'  : same with the left-most terminal
#   'nonterm'   : the nonterminal's precedence (original Parsing.py)
DEFAULT_PROD_PREC = os.environ.get('VRT_PROD_PREC', 'rightmost')

# Table construction method: 'pager' (LR(1), Pager's PGM -- what the real
# library does) or 'lalr'.
LR_METHOD = os.environ.get('VRT_LR_METHOD', 'pager')

CACHE_DIR = pathlib.Path(
    os.environ.get('VRT_CACHE_DIR', str(_RT.parent.parent / 'cache')))


class SpecError(Exception):
    pass


# --------------------------------------------------------------------------
# user-facing base classes
# --------------------------------------------------------------------------

class Precedence:
    pass


class Symbol:
    def __init__(self, parser=None):
        self.__parser = parser


class Nonterm(Symbol):
    def __init__(self, parser=None):
        Symbol.__init__(self, parser)


class Token(Symbol):
    def __init__(self, parser=None):
        Symbol.__init__(self, parser)


class NontermStart(Nonterm):
    """Stand-in for the library's internal start nonterminal `<S>`."""

    def reduce(self, *args):
        pass


class EndOfInput(Token):
    pass


class Epsilon(Token):
    pass


# --------------------------------------------------------------------------
# spec objects
# --------------------------------------------------------------------------

class PrecedenceSpec:
    def __init__(self, name, assoc, relationships):
        self.name = name
        self.assoc = assoc
        self.relationships = relationships  # {other name: '<' | '>' | '='}
        self.dominators = set()
        self.equiv = {self}

    def __repr__(self):
        return f'[%{self.assoc} {self.name}]'


class SymbolSpec:
    def __init__(self, name, prec):
        self.name = name
        self.prec = prec

    def __repr__(self):
        return self.name

    __str__ = __repr__


class TokenSpec(SymbolSpec):
    def __init__(self, tokenType, name, prec):
        super().__init__(name, prec)
        self.tokenType = tokenType


class NontermSpec(SymbolSpec):
    def __init__(self, nontermType, name, qualified, prec):
        super().__init__(name, prec)
        self.nontermType = nontermType
        self.qualified = qualified
        self.productions = []


class Production:
    def __init__(self, method, qualified, prec, lhs, rhs):
        self.method = method
        self.qualified = qualified
        self.prec = prec
        self.lhs = lhs
        self.rhs = tuple(rhs)
        self.seq = -1

    def __repr__(self):
        return '%s ::= %s. [%s]' % (
            self.lhs, ' '.join(str(s) for s in self.rhs), self.prec.name)


class Action:
    pass


class ShiftAction(Action):
    def __init__(self, nextState):
        self.nextState = nextState

    def __repr__(self):
        return f'[shift {self.nextState}]'


class ReduceAction(Action):
    def __init__(self, production):
        self.production = production

    def __repr__(self):
        return f'[reduce {self.production}]'


# --------------------------------------------------------------------------
# docstring parsing
# --------------------------------------------------------------------------

_NAME_RE = re.compile(r'^[A-Za-z_]\w*$')
_PREC_RE = re.compile(r'^\[([A-Za-z_]\w*)\]$')
_REL_RE = re.compile(r'^([<>=])([A-Za-z_]\w*)$')
_ASSOCS = ('%fail', '%nonassoc', '%left', '%right', '%split')


def _dirtoks(doc):
    # `\` followed by newline is used as a visual line continuation inside
    # (raw) docstrings; drop stand-alone backslashes.
    return [t for t in doc.split() if t != '\\']


class Spec:
    def __init__(self, modules, pickleFile=None, pickleMode='rw',
                 skinny=True, logFile=None, graphFile=None, verbose=False,
                 default_prod_prec=None, use_cache=True, method=None):
        if isinstance(modules, types.ModuleType):
            modules = [modules]
        self._verbose = verbose
        self._skinny = skinny
        self._default_prod_prec = default_prod_prec or DEFAULT_PROD_PREC
        self._method = method or LR_METHOD
        if self._default_prod_prec not in ('rightmost', 'leftmost',
                                           'nonterm', 'single', 'last',
                                           'first'):
            raise SpecError(
                f'bad default_prod_prec {self._default_prod_prec!r}')

        self._none = PrecedenceSpec('none', 'fail', {})
        self._split = PrecedenceSpec('split', 'split', {})
        self._precedences = {'none': self._none, 'split': self._split}

        self._eoi = TokenSpec(EndOfInput, lrgen.EOF_NAME, self._none)
        self._epsilon = TokenSpec(Epsilon, lrgen.EPS_NAME, self._none)
        self._tokens = {
            self._eoi.name: self._eoi, self._epsilon.name: self._epsilon}
        self._startSym = NontermSpec(
            NontermStart, lrgen.START_NAME,
            f'{__name__}.NontermStart', self._none)
        self._nonterms = {self._startSym.name: self._startSym}
        self._sym2spec = {EndOfInput: self._eoi, Epsilon: self._epsilon}
        self._productions = []
        self._userStartSym = None
        self._startProd = None

        self._introspect(modules)
        self._resolve_precedences()
        self._build(use_cache)

    # ---- public API used by edb ------------------------------------------
    @property
    def pureLR(self):
        return self._pure_lr

    def actions(self):
        return self._action

    def goto(self):
        return self._goto

    def start_sym(self):
        return self._userStartSym

    @property
    def conflicts(self):
        return self._conflicts

    @property
    def stats(self):
        return self._stats

    # ---- introspection -----------------------------------------------------
    def _introspect(self, modules):
        classes = []
        seen = set()
        for module in modules:
            for k, v in module.__dict__.items():
                if not isinstance(v, type) or id(v) in seen:
                    continue
                if not isinstance(v.__dict__.get('__doc__'), str):
                    # the directive must be the class' own docstring
                    continue
                seen.add(id(v))
                classes.append((k, v))

        nonterm_classes = []
        pending_token_prec = []
        pending_nonterm_prec = []
        for k, v in classes:
            toks = _dirtoks(v.__doc__)
            if not toks:
                continue
            d = toks[0]
            if issubclass(v, Precedence) and d in _ASSOCS:
                name = v.__name__
                rels = {}
                i = 1
                if i < len(toks) and _NAME_RE.match(toks[i]):
                    name = toks[i]
                    i += 1
                for t in toks[i:]:
                    m = _REL_RE.match(t)
                    if not m:
                        raise SpecError(
                            f'bad precedence specification {v.__doc__!r}')
                    if m.group(2) in rels:
                        raise SpecError(
                            f'duplicate relationship in {v.__doc__!r}')
                    rels[m.group(2)] = m.group(1)
                if name in self._precedences:
                    raise SpecError(f'duplicate precedence name {name}')
                self._precedences[name] = PrecedenceSpec(name, d[1:], rels)
            elif issubclass(v, Token) and d == '%token':
                name = v.__name__
                prec = None
                i = 1
                if i < len(toks) and _NAME_RE.match(toks[i]):
                    name = toks[i]
                    i += 1
                for t in toks[i:]:
                    m = _PREC_RE.match(t)
                    if not m or prec is not None:
                        raise SpecError(
                            f'bad token specification {v.__doc__!r}')
                    prec = m.group(1)
                if name in self._tokens or name in self._nonterms:
                    raise SpecError(f'duplicate symbol name {name}')
                spec = TokenSpec(v, name, self._none)
                self._tokens[name] = spec
                self._sym2spec[v] = spec
                if prec is not None:
                    pending_token_prec.append((spec, prec))
            elif issubclass(v, Nonterm) and d in ('%start', '%nonterm'):
                name = v.__name__
                prec = None
                i = 1
                if i < len(toks) and _NAME_RE.match(toks[i]):
                    name = toks[i]
                    i += 1
                for t in toks[i:]:
                    m = _PREC_RE.match(t)
                    if not m or prec is not None:
                        raise SpecError(
                            f'bad nonterm specification {v.__doc__!r}')
                    prec = m.group(1)
                if name in self._tokens or name in self._nonterms:
                    raise SpecError(f'duplicate symbol name {name}')
                spec = NontermSpec(
                    v, name, f'{v.__module__}.{v.__name__}', self._none)
                self._nonterms[name] = spec
                self._sym2spec[v] = spec
                if prec is not None:
                    pending_nonterm_prec.append((spec, prec))
                if d == '%start':
                    if self._userStartSym is not None:
                        raise SpecError(
                            'only one %start nonterminal is allowed: '
                            f'{self._userStartSym} / {name}')
                    self._userStartSym = spec
                nonterm_classes.append((v, spec))

        if self._userStartSym is None:
            raise SpecError('no %start nonterminal')

        for spec, prec in pending_token_prec + pending_nonterm_prec:
            if prec not in self._precedences:
                raise SpecError(
                    f'unknown precedence {prec} for symbol {spec.name}')
            spec.prec = self._precedences[prec]

        # <S> ::= S <$>
        self._startProd = Production(
            NontermStart.reduce, f'{__name__}.NontermStart.reduce',
            self._none, self._startSym, [self._userStartSym, self._eoi])
        self._startSym.productions.append(self._startProd)
        self._productions.append(self._startProd)

        for v, nonterm in nonterm_classes:
            for k, meth in v.__dict__.items():
                if not isinstance(meth, types.FunctionType):
                    continue
                doc = meth.__doc__
                if not isinstance(doc, str):
                    continue
                toks = _dirtoks(doc)
                if not toks or toks[0] != '%reduce':
                    continue
                rhs = []
                prec = None
                for t in toks[1:]:
                    if prec is not None:
                        raise SpecError(
                            f'{nonterm.name}.{k}: tokens after precedence '
                            f'in {doc!r}')
                    if t == lrgen.EPS_NAME:
                        continue
                    m = _PREC_RE.match(t)
                    if m:
                        prec = m.group(1)
                        continue
                    if not _NAME_RE.match(t):
                        raise SpecError(
                            f'{nonterm.name}.{k}: bad token {t!r} in '
                            f'{doc!r}')
                    sym = self._tokens.get(t) or self._nonterms.get(t)
                    if sym is None:
                        raise SpecError(
                            f'{nonterm.name}.{k}: unknown symbol {t!r} in '
                            f'{doc!r}')
                    rhs.append(sym)
                if prec is not None:
                    if prec not in self._precedences:
                        raise SpecError(
                            f'{nonterm.name}.{k}: unknown precedence {prec}')
                    pspec = self._precedences[prec]
                else:
                    pspec = self._default_prec(nonterm, rhs)
                prod = Production(
                    meth, f'{nonterm.qualified}.{k}', pspec, nonterm, rhs)
                nonterm.productions.append(prod)
                self._productions.append(prod)

        # Canonical order, independent of dict/set iteration order (keyword
        # token classes are generated from frozensets, whose iteration order
        # depends on PYTHONHASHSEED): start production first, the rest sorted.
        rest = sorted(
            self._productions[1:],
            key=lambda p: (p.lhs.name, tuple(s.name for s in p.rhs),
                           p.qualified))
        self._productions = [self._startProd] + rest
        for i, p in enumerate(self._productions):
            p.seq = i
        self._tokens = dict(sorted(self._tokens.items()))
        self._nonterms = dict(sorted(self._nonterms.items()))
        self._precedences = dict(sorted(self._precedences.items()))

    def _default_prec(self, nonterm, rhs):
        mode = self._default_prod_prec
        if mode == 'single':
            terms = [s for s in rhs if isinstance(s, TokenSpec)]
            if len(terms) == 1:
                return terms[0].prec
            return nonterm.prec
        if mode in ('last', 'first'):
            terms = [s for s in rhs if isinstance(s, TokenSpec)]
            if terms:
                return terms[-1 if mode == 'last' else 0].prec
            return nonterm.prec
        if mode != 'nonterm':
            seq = reversed(rhs) if mode == 'rightmost' else rhs
            for sym in seq:
                if isinstance(sym, TokenSpec) and sym.prec is not self._none:
                    return sym.prec
        return nonterm.prec

    def _resolve_precedences(self):
        precs = self._precedences
        # equivalence classes
        for p in precs.values():
            for other, rel in p.relationships.items():
                if other not in precs:
                    raise SpecError(
                        f'precedence {p.name} refers to unknown {other}')
                if rel == '=':
                    q = precs[other]
                    merged = p.equiv | q.equiv
                    for m in merged:
                        m.equiv = merged
        # direct dominators
        for p in precs.values():
            for other, rel in p.relationships.items():
                q = precs[other]
                if rel == '<':
                    # p is lower than q : q dominates p
                    for m in p.equiv:
                        m.dominators |= q.equiv
                elif rel == '>':
                    for m in q.equiv:
                        m.dominators |= p.equiv
        # transitive closure
        changed = True
        while changed:
            changed = False
            for p in precs.values():
                new = set(p.dominators)
                for d in list(p.dominators):
                    new |= d.dominators
                    new |= d.equiv
                if new != p.dominators:
                    p.dominators = new
                    changed = True
        for p in precs.values():
            if p.dominators & p.equiv:
                raise SpecError(
                    f'precedence cycle involving {p.name}')

    # ---- table construction ------------------------------------------------
    def _grammar(self):
        terminals = list(self._tokens)
        nonterminals = list(self._nonterms)
        productions = [
            (p.lhs.name, tuple(s.name for s in p.rhs), p.prec.name)
            for p in self._productions
        ]
        token_prec = {t.name: t.prec.name for t in self._tokens.values()}
        precedences = {
            p.name: lrgen.PrecInfo(
                name=p.name, assoc=p.assoc,
                dominators={d.name for d in p.dominators},
                equiv={e.name for e in p.equiv})
            for p in self._precedences.values()
        }
        return lrgen.Grammar(
            terminals=terminals, nonterminals=nonterminals,
            productions=productions, token_prec=token_prec,
            precedences=precedences)

    def _cache_key(self, g):
        h = hashlib.sha256()
        desc = {
            'terminals': g.terminals,
            'nonterminals': g.nonterminals,
            'productions': [list(map(
                lambda x: list(x) if isinstance(x, tuple) else x, p))
                for p in g.productions],
            'token_prec': g.token_prec,
            'precedences': {
                k: [v.assoc, sorted(v.dominators), sorted(v.equiv)]
                for k, v in sorted(g.precedences.items())},
        }
        h.update(json.dumps(desc, sort_keys=True).encode('utf-8'))
        h.update(b'\0method=' + self._method.encode())
        for src in (pathlib.Path(lrgen.__file__), pathlib.Path(__file__)):
            h.update(b'\0')
            h.update(src.read_bytes())
        return h.hexdigest()

    def _build(self, use_cache):
        """Compute the cache key now; tables are materialised lazily (the
        stand-in `edb._edgeql_parser` keeps a second-level cache of the final
        driver tables keyed on `cache_key`, so often they are never needed)."""
        self._g = self._grammar()
        self.cache_key = self._cache_key(self._g)
        self._use_cache = use_cache
        self._tables_ready = False
        self._startState = 0

    def _ensure_tables(self):
        if self._tables_ready:
            return
        g = self._g
        key = self.cache_key
        use_cache = self._use_cache
        path = CACHE_DIR / f'lrtables-{key}.json'
        data = None
        if use_cache and path.exists():
            try:
                data = json.loads(path.read_text())
            except Exception:
                data = None
        if data is None:
            t0 = time.time()
            tables = lrgen.generate(
                g, verbose=self._verbose, method=self._method)
            data = {
                'key': key,
                'stats': tables.stats,
                'pure_lr': tables.pure_lr,
                'conflicts': tables.conflicts,
                'action': [
                    {t: [list(a) for a in acts] for t, acts in row.items()}
                    for row in tables.action],
                'goto': tables.goto,
                'gen_seconds': round(time.time() - t0, 2),
            }
            if use_cache:
                CACHE_DIR.mkdir(parents=True, exist_ok=True)
                tmp = path.with_suffix(f'.tmp{os.getpid()}')
                tmp.write_text(json.dumps(data))
                os.replace(tmp, path)
        self._stats_v = data['stats']
        self._pure_lr_v = data['pure_lr']
        self._conflicts_v = data['conflicts']
        prods = self._productions
        toks = self._tokens
        nts = self._nonterms
        shift_cache = {}
        reduce_cache = {}

        def mk(a):
            if a[0] == 'S':
                r = shift_cache.get(a[1])
                if r is None:
                    r = shift_cache[a[1]] = ShiftAction(a[1])
                return r
            r = reduce_cache.get(a[1])
            if r is None:
                r = reduce_cache[a[1]] = ReduceAction(prods[a[1]])
            return r

        self._action_v = [
            {toks[t]: [mk(a) for a in acts] for t, acts in row.items()}
            for row in data['action']]
        self._goto_v = [
            {nts[n]: s for n, s in row.items()} for row in data['goto']]
        self._startState = 0
        self._tables_ready = True

    @property
    def _action(self):
        self._ensure_tables()
        return self._action_v

    @property
    def _goto(self):
        self._ensure_tables()
        return self._goto_v

    @property
    def _pure_lr(self):
        self._ensure_tables()
        return self._pure_lr_v

    @property
    def _stats(self):
        self._ensure_tables()
        return self._stats_v

    @property
    def _conflicts(self):
        self._ensure_tables()
        return self._conflicts_v
