"""Stand-in for `edb.pgsql.parser.parser` (Cython wrapper around libpg_query,
an absent git submodule).  Importable; every entry point that would need
libpg_query raises NotImplementedError.  The enum/NamedTuple declarations are
copied from the .pyx so that importing modules can reference them."""

from __future__ import annotations

import enum
from typing import NamedTuple, List, Tuple

__vrt_stub__ = True


class LiteralTokenType(enum.StrEnum):
    FCONST = "FCONST"
    SCONST = "SCONST"
    BCONST = "BCONST"
    XCONST = "XCONST"
    ICONST = "ICONST"
    TRUE_P = "TRUE_P"
    FALSE_P = "FALSE_P"


class PgLiteralTypeOID(enum.IntEnum):
    BOOL = 16
    INT4 = 23
    TEXT = 25
    VARBIT = 1562
    NUMERIC = 1700
    UNKNOWN = 705


class NormalizedQuery(NamedTuple):
    text: str
    highest_extern_param_id: int
    extracted_constants: List[Tuple[int, LiteralTokenType, bytes]]


def _unavailable(name):
    raise NotImplementedError(
        f'edb.pgsql.parser.parser.{name}: libpg_query is not available in '
        f'the verification sandbox (vrt stub)')


def pg_parse(query) -> str:
    _unavailable('pg_parse')


def pg_normalize(query: str) -> NormalizedQuery:
    _unavailable('pg_normalize')


class Source:
    def __init__(self, *args, **kwargs):
        _unavailable('Source')

    @classmethod
    def from_string(cls, text: str):
        _unavailable('Source.from_string')


class NormalizedSource(Source):
    @classmethod
    def from_string(cls, text: str):
        _unavailable('NormalizedSource.from_string')


def deserialize(serialized: bytes) -> Source:
    _unavailable('deserialize')
