"""Python port of the error-recovering LR driver of
/repo/edb/edgeql-parser/src/parser.rs (`parse`, `Parser`, `StackNode`,
`new_token_for_injection`, `injection_cost`, `impl Display for Terminal`) and
of /repo/edb/edgeql-parser/src/parser/custom_errors.rs (`custom_error`,
`custom_error_from_rule`, `get_rule`, `compare_stack`, `Cond`, `ParserRule`,
`post_process`, `unexpected_reserved_keyword`).

It is used by the stand-in `edb._edgeql_parser.parse` only after the plain
(fast) LR driver has hit a syntax error, to compute the same list of errors
upstream would report ("Missing ','", "Unexpected keyword 'X'" + details,
"Missing parentheses around ...", ...).  With VRT_PARSER_ALWAYS_RECOVERING=1
it is used for every parse (it yields the same CST on valid input; this is
exercised by selftest_syntax.py --slow-driver).

Fidelity notes
  * The algorithm (multiple parser tracks, token injection ordered by the
    action table's key order, skip, custom errors, cost model, pruning,
    final choice) is transcribed statement by statement.
  * It runs on OUR LR tables.  Injection candidates are "all tokens that have
    an action in the current state"; our automaton is language-equivalent to
    upstream's but merged states may carry slightly different look-ahead sets
    for reductions, so in rare cases a different (equally plausible) message
    can come out.  On the upstream corpora the observable differences are
    listed in STATUS.md.
  * u16 arithmetic: `x * x` in `adjusted_cost` wraps modulo 2**16 as in a
    release build; `saturating_sub` is reproduced; additions are not checked.
"""

from __future__ import annotations

import typing

UNEXPECTED = 'Unexpected'

PARSER_COUNT_MAX = 10
ERROR_COST_INJECT_MAX = 15
ERROR_COST_SKIP = 3
ERROR_COST_CUSTOM_ERROR = 3


class Error:
    __slots__ = ('message', 'span', 'hint', 'details')

    def __init__(self, message, span=(0, 0), hint=None, details=None):
        self.message = message
        self.span = span
        self.hint = hint
        self.details = details

    def default_span_to(self, span):
        if self.span == (0, 0):
            self.span = span
        return self

    def as_tuple(self):
        return (self.message, (self.span[0], self.span[1]),
                self.hint, self.details)


class RTerminal:
    """parser.rs `Terminal`."""
    __slots__ = ('kind', 'text', 'value', 'start', 'end', 'is_placeholder')

    def __init__(self, kind, text, value, start, end, is_placeholder=False):
        self.kind = kind
        self.text = text
        self.value = value
        self.start = start
        self.end = end
        self.is_placeholder = is_placeholder


class StackNode:
    __slots__ = ('parent', 'state', 'value')

    def __init__(self, parent, state, value):
        self.parent = parent
        self.state = state
        self.value = value  # api.CSTNode | None (== CSTNode::Empty)

    def step_up(self, steps):
        node = self
        for _ in range(steps):
            if node is None:
                return None
            node = node.parent
        return node


_FRIENDLY = {
    'Ident': 'identifier', 'EOI': 'end of input',
    'BinStr': 'binary constant', 'FloatConst': 'float constant',
    'IntConst': 'int constant', 'DecimalConst': 'decimal constant',
    'BigIntConst': 'big int constant', 'Str': 'string constant',
}

# Kind::text()
_KIND_TEXT = {
    'Add': '+', 'Ampersand': '&', 'At': '@', 'BackwardLink': '.<',
    'CloseBrace': '}', 'CloseBracket': ']', 'CloseParen': ')',
    'Coalesce': '??', 'Colon': ':', 'Comma': ',', 'Concat': '++',
    'Div': '/', 'Dot': '.', 'DoubleSplat': '**', 'Eq': '=',
    'FloorDiv': '//', 'Modulo': '%', 'Mul': '*', 'Namespace': '::',
    'OpenBrace': '{', 'OpenBracket': '[', 'OpenParen': '(', 'Pipe': '|',
    'Pow': '^', 'Semicolon': ';', 'Sub': '-',
    'DistinctFrom': '?!=', 'GreaterEq': '>=', 'LessEq': '<=',
    'NotDistinctFrom': '?=', 'NotEq': '!=', 'Less': '<', 'Greater': '>',
    'AddAssign': '+=', 'Arrow': '->', 'Assign': ':=', 'SubAssign': '-=',
}


class Ctx:
    """What the Rust code reaches through `ctx` plus the API classes of the
    stand-in module (injected to avoid a circular import)."""

    def __init__(self, spec, api):
        self.spec = spec
        self.api = api
        self.kind_keyword = api._kind_keyword
        self.reserved = api._reserved_keywords
        self.quote_name = api._quote_name
        self.span_of_nodes = api._span_of_nodes
        self._inj_cache: dict = {}

    def kind_text(self, kind):
        kw = self.kind_keyword(kind)
        if kw is not None:
            return kw
        return _KIND_TEXT.get(kind)

    def display(self, t: RTerminal) -> str:
        if (t.is_placeholder and t.kind == 'Ident') or not t.text:
            f = _FRIENDLY.get(t.kind)
            if f is not None:
                return f
        if t.kind == 'Ident':
            return "'%s'" % self.quote_name(t.text)
        kw = self.kind_keyword(t.kind)
        if kw is not None:
            # to_ascii_uppercase
            return "keyword '%s'" % ''.join(
                c.upper() if 'a' <= c <= 'z' else c for c in kw)
        return "'%s'" % t.text

    def new_token_for_injection(self, kind) -> RTerminal:
        kw = self.kind_keyword(kind)
        if kw is not None:
            text, value = self.kind_text(kind), kw
        elif kind == 'Ident':
            text = value = '`ident_placeholder`'
        else:
            text, value = self.kind_text(kind), None
        return RTerminal(kind, text or '', value, 0, 0, True)

    def injection_info(self, kind):
        """(injection terminal, cost, 'Missing ...' message), memoised."""
        info = self._inj_cache.get(kind)
        if info is None:
            injection = self.new_token_for_injection(kind)
            info = (injection, self.injection_cost(kind),
                    f'Missing {self.display(injection)}')
            self._inj_cache[kind] = info
        return info

    def injection_cost(self, kind) -> int:
        kw = self.kind_keyword(kind)
        if kind == 'Ident':
            return 10
        if kind == 'Substitution':
            return 8
        if kw is not None:
            if kw in ('delete', 'update', 'migration', 'role', 'global',
                      'administer', 'future', 'database'):
                return 100
            if kw in ('insert', 'module', 'extension', 'branch'):
                return 20
            if kw in ('select', 'property', 'type'):
                return 10
            return 15
        if kind == 'Dot':
            return 5
        if kind in ('OpenBrace', 'OpenBracket'):
            return 5
        if kind == 'OpenParen':
            return 4
        if kind in ('CloseBrace', 'CloseBracket', 'CloseParen'):
            return 1
        if kind == 'Namespace':
            return 10
        if kind in ('Comma', 'Colon', 'Semicolon'):
            return 2
        if kind == 'Eq':
            return 5
        if kind == 'At':
            return 6
        if kind == 'IntConst':
            return 8
        if kind in ('Assign', 'Arrow'):
            return 5
        return 100

    # CSTNode construction ---------------------------------------------------
    def cst_terminal(self, t: RTerminal):
        api = self.api
        return api.CSTNode(None, api.Terminal(
            t.text, t.value, t.start, t.end, t.kind))


# --------------------------------------------------------------------------
# custom_errors.rs: Cond
# --------------------------------------------------------------------------

def _c_term(kind):
    return ('T', kind)


def _c_kw(kw):
    return ('T', 'Keyword(Keyword("%s"))' % kw)


def _c_prod(name):
    return ('P', name)


def _c_any(*conds):
    return ('A', conds)


def _check(cond, node: typing.Optional[StackNode], ctx: Ctx) -> bool:
    if node is None:
        return False
    tag = cond[0]
    v = node.value
    if tag == 'T':
        return (v is not None and v.terminal is not None
                and v.terminal._kind == cond[1])
    if tag == 'P':
        if v is None or v.production is None:
            return False
        prod = v.production
        names = ctx.spec.production_names
        if names[prod.id][0] == cond[1]:
            return True
        for pid in (prod._inlined_ids or ()):
            if names[pid][0] == cond[1]:
                return True
        return False
    return any(_check(c, node, ctx) for c in cond[1])


class Parser:
    __slots__ = ('stack_top', 'error_cost', 'node_count', 'can_recover',
                 'errors', 'has_custom_error')

    def __init__(self, stack_top):
        self.stack_top = stack_top
        self.error_cost = 0
        self.node_count = 0
        self.can_recover = True
        self.errors: list = []
        self.has_custom_error = False

    def clone(self):
        p = Parser(self.stack_top)
        p.error_cost = self.error_cost
        p.node_count = self.node_count
        p.can_recover = self.can_recover
        p.errors = list(self.errors)
        p.has_custom_error = self.has_custom_error
        return p

    # -- LR -----------------------------------------------------------------
    def act(self, ctx: Ctx, token: RTerminal) -> bool:
        actions = ctx.spec.actions
        while True:
            action = actions[self.stack_top.state].get(token.kind)
            if action is None:
                return False
            if action[0] == 0:
                self.push_on_stack(action[1], ctx.cst_terminal(token))
                return True
            self.reduce(ctx, action)

    def reduce(self, ctx: Ctx, action):
        _, prod_id, non_term, cnt = action
        api = ctx.api
        args = []
        for _ in range(cnt):
            args.append(self.stack_top.value)
            self.stack_top = self.stack_top.parent
        args.reverse()
        nstate = self.stack_top.state
        nxt = ctx.spec.goto[nstate][non_term]
        inline_pos = ctx.spec.inlines.get(prod_id)
        if inline_pos is None:
            value = api.CSTNode(api.Production(prod_id, args), None)
        else:
            span = ctx.span_of_nodes(args)
            src = args[inline_pos]
            if src.production is not None:
                p = src.production
                value = api.CSTNode(api.Production(
                    p.id, p.args, (p._inlined_ids or ()) + (prod_id,)), None)
            elif src.terminal is not None:
                t = src.terminal
                if span is not None:
                    t = api.Terminal(
                        t.text, t.value, min(t.start, span[0]),
                        max(t.end, span[1]), t._kind)
                value = api.CSTNode(None, t)
            else:
                value = src
        self.push_on_stack(nxt, value)

    def push_on_stack(self, state, value):
        self.stack_top = StackNode(self.stack_top, state, value)

    def finish(self):
        if not self.can_recover or self.has_custom_error:
            return None
        top = self.stack_top.value
        assert (top is not None and top.terminal is not None
                and top.terminal._kind == 'EOI'), \
            f'expected EOI CST node, got {top!r}'
        final_node = self.stack_top.parent
        first = final_node.parent
        assert first is not None and first.value is None, \
            f'expected empty CST node, found {first and first.value!r}'
        return final_node.value

    # -- errors ---------------------------------------------------------------
    def push_error(self, error: Error, cost: int):
        suppress = False
        if error.message.startswith(UNEXPECTED):
            if self.errors and self.errors[-1].message.startswith(UNEXPECTED):
                suppress = True
        if not suppress:
            self.errors.append(error)
        self.error_cost += cost
        self.node_count = 0

    def node_successful(self):
        self.node_count += 1

    def adjusted_cost(self) -> int:
        x = max(self.node_count - 3, 0)
        sq = (x * x) & 0xFFFF
        return max(self.error_cost - sq, 0)

    def has_recovered(self) -> bool:
        return self.can_recover and self.adjusted_cost() == 0

    def get_from_top(self, steps):
        return self.stack_top.step_up(steps)

    # -- custom_errors.rs -------------------------------------------------
    def custom_error(self, ctx: Ctx, token: RTerminal):
        ltok = self.get_from_top(0)
        value = self.custom_error_from_rule(token, ctx)
        if value is not None:
            return value
        kw = ctx.kind_keyword(token.kind)
        if kw == 'explain':
            return Error(
                "Unexpected keyword '%s'" % token.text.upper(), (0, 0),
                'Use `analyze` to show query performance details', None)
        if kw is not None:
            if kw in ctx.reserved and not _check(_c_prod('Expr'), ltok, ctx):
                return unexpected_reserved_keyword(
                    token.text, (token.start, token.end))
        return None

    def custom_error_from_rule(self, token: RTerminal, ctx: Ctx):
        last = self.get_from_top(0)
        res = self.get_rule(ctx)
        if res is None:
            return None
        i, rule = res
        if rule == 'list of arguments':
            if i == 1 and _check(_c_any(
                    _c_prod('AnyIdentifier'), _c_kw('with'),
                    _c_kw('select'), _c_kw('for'), _c_kw('insert'),
                    _c_kw('update'), _c_kw('delete')), last, ctx):
                span = ctx.span_of_nodes([last.value]) or (0, 0)
                return Error(
                    'Missing parentheses around statement used as an '
                    'expression', span)
        elif rule == 'array slice':
            if (token.kind in ('Ident', 'IntConst')
                    and not _check(_c_term('Colon'), last, ctx)):
                return Error(
                    f"It appears that a ':' is missing in {rule} before "
                    f"{token.text}")
        elif rule == 'definition':
            if token.kind == 'Ident':
                if _check(_c_prod('Identifier'), last, ctx):
                    return Error(
                        f"Expected 'ON', but got '{token.text}' instead")
        elif rule == 'for iterator':
            if i >= 4:
                span_start = self.get_from_top(i - 4)
                sp = ctx.span_of_nodes([span_start.value]) or (0, 0)
                span = (sp[0], token.end)
            else:
                span = (token.start, token.end)
            return Error(
                'Missing parentheses around complex expression in a FOR '
                'iterator clause', span)
        elif rule == 'create':
            if ctx.kind_keyword(token.kind) == 'branch':
                return Error(
                    "Missing one of keywords 'EMPTY', 'SCHEMA' or 'DATA'",
                    (token.start - 1, token.start))
        return None

    def get_rule(self, ctx: Ctx):
        need_match = self.compare_stack([_c_any(
            _c_term('CloseBrace'), _c_term('CloseParen'),
            _c_term('CloseBracket'))], 0, ctx)
        found_union = False
        ltok = self.get_from_top(0)
        nextel = None
        el = self.stack_top
        i = 0
        while el is not None:
            prevel = el.parent
            v = el.value
            kind = (v.terminal._kind
                    if v is not None and v.terminal is not None else None)
            if kind == 'OpenBrace':
                if need_match and _check(_c_term('CloseBrace'), ltok, ctx):
                    need_match = False
                elif _check(_c_prod('OptExtending'), prevel, ctx):
                    return (i, 'definition')
                elif prevel is not None and (
                        _check(_c_prod('Expr'), prevel, ctx)
                        or (_check(_c_term('Colon'), prevel, ctx)
                            and _check(_c_prod('ShapePointer'),
                                       prevel.parent, ctx))):
                    return (i, 'shape')
                else:
                    return None
            elif kind == 'OpenParen':
                if need_match and _check(_c_term('CloseParen'), ltok, ctx):
                    need_match = False
                elif _check(_c_prod('NodeName'), prevel, ctx):
                    return (i, 'list of arguments')
                elif _check(_c_any(
                        _c_kw('for'), _c_kw('select'), _c_kw('update'),
                        _c_kw('delete'), _c_kw('insert'), _c_kw('for')),
                        nextel, ctx):
                    return None
                else:
                    return (i, 'tuple')
            elif kind == 'OpenBracket':
                if need_match and _check(_c_term('CloseBracket'), ltok, ctx):
                    need_match = False
                elif _check(_c_prod('Expr'), prevel, ctx):
                    return (i, 'array slice')
                else:
                    return (i, 'array')
            elif kind == 'Keyword(Keyword("create"))':
                return (i, 'create')

            if self.compare_stack([_c_kw('union')], i, ctx):
                found_union = True
            if not found_union and self.compare_stack([
                    _c_kw('for'), _c_prod('OptionalOptional'),
                    _c_prod('Identifier'), _c_kw('in')], i, ctx):
                return (i + 3, 'for iterator')
            nextel = el
            el = el.parent
            i += 1
        return None

    def compare_stack(self, expected, top_offset, ctx: Ctx) -> bool:
        current = self.get_from_top(top_offset)
        for validator in reversed(expected):
            if current is None:
                return False
            if not _check(validator, current, ctx):
                return False
            current = current.parent
        return True


def unexpected_reserved_keyword(text: str, span) -> Error:
    return Error(
        f"Unexpected keyword '{text.upper()}'", span,
        hint=('Use a different identifier or quote the name with '
              f'backticks: `{text}`'),
        details=('This name is a reserved keyword and cannot be used as an '
                 'identifier'))


def post_process(errors):
    new_errors: list = []
    for error in errors:
        if error.message == 'Missing identifier' and new_errors:
            last = new_errors[-1]
            if (last.message.startswith("Unexpected keyword '")
                    and last.span[1] == error.span[0]):
                new_errors.pop()
                text = last.message[len("Unexpected keyword '"):]
                assert text.endswith("'")
                text = text[:-1]
                new_errors.append(
                    unexpected_reserved_keyword(text, last.span))
                continue
        new_errors.append(error)
    return new_errors


def _starts_with_unexpected(p: Parser) -> bool:
    if not p.errors:
        return True
    return p.errors[0].message.startswith(UNEXPECTED)


def parse(input_terminals, ctx: Ctx):
    """Port of parser.rs::parse.  `input_terminals`: list[RTerminal] (start
    token + tokens); the second EOI is appended here.
    -> (CSTNode | None, list[Error])"""
    initial = Parser(StackNode(None, 0, None))
    end = input_terminals[-1].end if input_terminals else 0
    eoi = RTerminal('EOI', '', None, end, end, False)
    inp = list(input_terminals) + [eoi]

    parsers = [initial]
    prev_span = None
    new_parsers: list = []
    actions = ctx.spec.actions

    for token in inp:
        while parsers:
            parser = parsers.pop()
            if parser.act(ctx, token):
                parser.node_successful()
                new_parsers.append(parser)
                continue

            prev_end = prev_span[1] if prev_span is not None else token.start
            gap_span = (prev_end, token.start)

            # option 1: inject a token
            if parser.error_cost <= ERROR_COST_INJECT_MAX:
                possible_actions = actions[parser.stack_top.state]
                for token_kind in possible_actions.keys():
                    injection, cost, message = ctx.injection_info(token_kind)
                    # (optimisation, same outcome: the Rust code clones the
                    # parser and pushes the error before testing the cost)
                    if parser.error_cost + cost > ERROR_COST_INJECT_MAX:
                        continue
                    inject = parser.clone()
                    error = Error(message, gap_span)
                    inject.push_error(error, cost)
                    if (inject.error_cost <= ERROR_COST_INJECT_MAX
                            and inject.act(ctx, injection)):
                        parsers.append(inject)

            # option 2: custom error
            if parser.error_cost == 0:
                error = parser.custom_error(ctx, token)
                if error is not None:
                    parser.push_error(
                        error.default_span_to((token.start, token.end)),
                        ERROR_COST_CUSTOM_ERROR)
                    parser.has_custom_error = True
                    new_parsers.append(parser)
                    continue
            elif parser.has_custom_error:
                new_parsers.append(parser)
                continue

            # option 3: skip the token
            skip = parser
            error = Error(f'{UNEXPECTED} {ctx.display(token)}',
                          (token.start, token.end))
            skip.push_error(error, ERROR_COST_SKIP)
            if token.kind == 'EOI' or token.kind == 'Semicolon':
                skip.error_cost += ERROR_COST_INJECT_MAX
                skip.can_recover = False
            new_parsers.append(skip)

        if len(new_parsers) > 1:
            new_parsers.sort(key=Parser.adjusted_cost)
            recovered = None
            for idx, p in enumerate(new_parsers):
                if p.has_recovered():
                    recovered = idx
                    break
            if recovered is not None:
                any_custom = any(p.has_custom_error for p in new_parsers)
                if not any_custom or new_parsers[recovered].has_custom_error:
                    rec = new_parsers[recovered]
                    rec.error_cost = 0
                    rec.has_custom_error = False
                    new_parsers = [rec]
            if new_parsers[0].error_cost > ERROR_COST_INJECT_MAX:
                del new_parsers[1:]
            if len(new_parsers) > PARSER_COUNT_MAX:
                del new_parsers[PARSER_COUNT_MAX:]

        assert not parsers
        parsers, new_parsers = new_parsers, []
        prev_span = (token.start, token.end)

    parser = min(
        parsers,
        key=lambda p: (p.error_cost, 0 if _starts_with_unexpected(p) else 1))
    node = parser.finish()
    errors = post_process(parser.errors)
    return node, errors
