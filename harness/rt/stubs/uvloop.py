"""Stand-in for the third-party `uvloop` package: plain asyncio underneath."""

import asyncio

__vrt_stub__ = True


class Loop(asyncio.SelectorEventLoop):
    pass


def new_event_loop():
    return Loop()


class EventLoopPolicy(asyncio.DefaultEventLoopPolicy):
    def _loop_factory(self):
        return new_event_loop()


def install():
    asyncio.set_event_loop_policy(EventLoopPolicy())


def run(main, *, debug=None, **kwargs):
    return asyncio.run(main, debug=debug)
