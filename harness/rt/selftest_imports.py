#!/venv/bin/python
"""Import self-test of the vrt substrate.

    PYTHONPATH=/repo /venv/bin/python /verif/harness/rt/selftest_imports.py

Imports every module listed in MODULES after `vrt.install()` and prints
OK/FAIL per module, then the list of substitute modules that were actually
served by the vrt finder.  Exit status 0 iff everything imported.
"""

from __future__ import annotations

import importlib
import pathlib
import sys
import time
import traceback

HERE = pathlib.Path(__file__).resolve().parent
sys.path.insert(0, str(HERE))

import vrt  # noqa: E402

MODULES = [
    'edb.edgeql.quote',
    'edb.edgeql.codegen',
    'edb.edgeql.ast',
    'edb.edgeql.declarative',
    'edb.edgeql.tracer',
    'edb.edgeql.tokenizer',
    'edb.edgeql.parser',
    'edb.edgeql.parser.grammar',
    'edb.schema.schema',
    'edb.schema.ddl',
    'edb.schema.std',
    'edb.schema.migrations',
    'edb.schema.reflection',
    'edb.edgeql.compiler',
    'edb.ir.ast',
    'edb.ir.statypes',
    'edb.pgsql.common',
    'edb.pgsql.codegen',
    'edb.pgsql.types',
    'edb.pgsql.compiler',
    'edb.pgsql.delta',
    'edb.pgsql.parser',
    'edb.server.connpool.pool',
    'edb.server.compiler_pool.pool',
    'edb.server.compiler_pool.worker',
    'edb.server.compiler_pool.state',
    'edb.server.compiler',
    'edb.server.compiler.compiler',
    'edb.server.compiler.dbstate',
    'edb.server.compiler.sertypes',
    'edb.server.config',
    'edb.server.config.ops',
    'edb.server.bootstrap',
    'edb.testbase.lang',
    'edb.tools.toy_eval_model',
]


def main() -> int:
    finder = vrt.install()
    failed = 0
    for name in MODULES:
        t0 = time.time()
        try:
            importlib.import_module(name)
        except BaseException as e:  # noqa
            if isinstance(e, (KeyboardInterrupt, SystemExit)):
                raise
            failed += 1
            tb = traceback.extract_tb(e.__traceback__)
            where = f'{tb[-1].filename}:{tb[-1].lineno}' if tb else '?'
            print(f'FAIL {name}: {type(e).__name__}: {e}  [{where}]')
        else:
            print(f'OK   {name}  ({time.time() - t0:.2f}s)')
    import edb
    print(f'# edb imported from {list(edb.__path__)}')
    served = sorted(set(finder.served))
    print(f'# substitute modules served by the vrt finder ({len(served)}):')
    for s in served:
        mod = sys.modules.get(s)
        kind = 'lenient' if isinstance(mod, vrt._LenientModule) else 'file'
        print(f'#   {s}  [{kind}]')
    print(f'# {len(MODULES) - failed}/{len(MODULES)} modules imported')
    return 1 if failed else 0


if __name__ == '__main__':
    sys.exit(main())
