"""C03 — DESCRIBE output rebuilds the same schema.

Proof:  coq/theories/C03 (exact model of the repo's name-resolution functions + abstract describe /
        replay; theorems for all schemas, texts and sessions; refutation witnesses), using
        coq/theories/Decl (declaration ordering) and coq/theories/C20 (topological sort).
Tie:    (1) correspondence `resolve`: the REAL FlatSchema._search_with_getter, tracer.resolve_name and
            QualifiedObjectCommand._classname_from_ast run on the same generated names / alias maps /
            object sets as the extracted model; results must be identical;
        (2) correspondence `abstract`: the real DDL text of every generated schema is abstracted to
            the model's schema; the extracted model's verdict "replay in this session rebuilds the
            schema" must agree with what the real replay did, session by session (including the
            colliding-alias sessions, where both must fail);
        (3) END-TO-END monitors on the real code (not proofs): for generated schemas
            (feature grammar of c02_gen, upstream tests/schemas/*.esdl, hand-written edge families)
            ddl_text_from_schema / sdl_text_from_schema (= DESCRIBE SCHEMA AS DDL / SDL; a sample
            also through the EdgeQL compiler) are replayed on the std-only schema under >= 5 sessions
            (different current modules, harmless aliases, no current module at all) + 1 session
            whose alias collides with a module name; every result must equal the original:
            independent structural dump equal AND the repo's own delta_schemas empty.
"""
from __future__ import annotations

import hashlib
import json
import os
import re
import subprocess
import time
from concurrent.futures import ThreadPoolExecutor

import lib
from props import c02_gen as G
from props import c03_gen as CG

PROP = 'C03'
THEOREMS = [
    'C03_describe_rebuilds', 'C03_same_map', 'C03_describe_total', 'C03_fq_name_self_contained',
    'C03_lookup_session_independent', 'C03_created_name_self_contained', 'C03_sdl_rebuilds',
    'C03_tracer_resolution_order_free',
]
REFUTED = ['C03_alias_shadows_module_refuted', 'C03_alias_shadows_std_refuted',
           'C03_alias_lookups_differ_refuted', 'C03_unqualified_text_depends_on_session']
IMPL = os.path.join(lib.VERIF, 'harness', 'impl', 'c03_impl.py')
STDLIB_MODULES = {'schema', 'sys', 'cfg', 'cal', 'math', 'ext', 'fts', 'pg', 'enc', 'net'}

# ---------------------------------------------------------------- stream A: name resolution

MODS = ['-', '1', '4', '5', '4.6', '7', '8', '2', '2.6', '3', '8.6', '1.7', '5.9', '6', '11', '4.6.9', '1.4', '2.4.6', '3.4']
ALIASES = ['N', '', '->4', '->5', '8>4', '->4,8>1', '4>5', '1>4', '->4.6', '8>4.6,->5', '->1', '7>1.7', '4>4', '->11',
           '4.6>5', '->4,4>5,1>5', '2>4', '3>4', '->3', '->2.6', '6>4', '->4,6>5.9']
CAND_MODS = ['1', '4', '5', '4.6', '7', '8', '1.7', '1.4', '1.5', '1.8', '1.4.6', '5.6', '5.9', '1.5.9', '6', '1.6', '11', '1.11',
             '4.6.9', '4.4', '4.6.6', '5.4', '4.9', '1.3', '3', '2.6', '2', '1.2.6', '4.4.6', '1.1', '1.1.7']


def _objs(rnd, short, k=None):
    k = k if k is not None else rnd.choice([0, 1, 1, 2, 3, 4, 6])
    return ','.join(f'{m}:{short}' for m in rnd.sample(CAND_MODS, k))


def gen_resolve(tier, hm):
    rnd = lib.rng('C03resolve')
    lines = []
    n = 4000 if tier == 'quick' else 60000
    # exhaustive slice: every module x every alias map, with the four "obvious" candidate sets
    for m in MODS:
        for al in ALIASES:
            for objs in ('', f'{"4" if m == "-" else m}:10', '1:10,4:10', ','.join(f'{c}:10' for c in CAND_MODS)):
                lines.append(f'S;{m};10;{al};{objs};;{hm}')
            lines.append(f'K;{m};10;{"" if al == "N" else al}')
    for _ in range(n):
        m = rnd.choice(MODS)
        al = rnd.choice(ALIASES)
        dis = rnd.choice(['', '', '', '7', '4,7', '6,8'])
        lines.append(f'S;{m};10;{al};{_objs(rnd, 10)};{dis};{hm}')
    for _ in range(n // 2):
        m = rnd.choice(MODS)
        al = rnd.choice(ALIASES)
        cur = rnd.choice(['4', '5', '4.6', '1', '7', '11'])
        local = ','.join(rnd.sample(['4', '5', '4.6', '7', '5.9', '8.6'], rnd.choice([0, 1, 2, 3])))
        decl = rnd.choice('001')
        lines.append(f'T;{m};10;{al};{cur};{_objs(rnd, 10)};{local};{decl};{_objs(rnd, 10)};{hm}')
    return lines


def resolve_nontrivial(line):
    f = line.split(';')
    if f[0] == 'K':
        return f[1] != '-' and f[3] != ''
    # a qualified or aliased name and at least two candidate objects
    return (f[1] != '-' or f[3] not in ('N', '')) and f[4 if f[0] == 'S' else 5].count(',') >= 1


def coq_resolve_expr(line):
    """Coq term for one S/K line (T lines are cross-checked through S: resolve_name calls search)"""
    f = line.split(';')

    def cm(s):
        return '[' + '; '.join(f'{x}%N' for x in s.split('.')) + ']' if s else '[]'

    def om(s):
        return 'None' if s == '-' else f'(Some {cm(s)})'

    def al(s):
        if s == 'N':
            return 'None'
        ents = [e.split('>') for e in s.split(',')] if s else []
        return '(Some [' + '; '.join(f'({om(k)}, {cm(m)})' for k, m in ents) + '])'

    def qs(s):
        return '[' + '; '.join(f'mkQ {cm(e.split(":")[0])} {e.split(":")[1]}%N' for e in (s.split(',') if s else [])) + ']'

    def cs(s):
        return '[' + '; '.join(f'{x}%N' for x in (s.split(',') if s else [])) + ']'
    if f[0] == 'S':
        return (f'search (mkSenv (fun x => memq x {qs(f[4])}) (fun c => memk c {cs(f[6])}) (fun c => memk c {cs(f[5])})) '
                f'{al(f[3])} {om(f[1])} {f[2]}%N')
    if f[0] == 'K':
        a = al(f[3])
        a = '[]' if a == 'None' else a[len('(Some '):-1]
        return f'classname {a} {om(f[1])} {f[2]}%N'
    return None


def coq_result_to_line(s, kind):
    s = s.strip()
    if s == 'None':
        return 'D' if kind == 'S' else 'E'
    m = re.match(r'Some \{\| q_mod := \[(.*?)\]; q_name := (\d+)(?:%N)? \|\}', s)
    if not m:
        return '?' + s
    comps = '.'.join(x.strip().replace('%N', '') for x in m.group(1).split(';') if x.strip())
    return f'F {comps}:{m.group(2)}'


# ---------------------------------------------------------------- stream B: describe end to end

def corpus():
    p = os.path.join(lib.VERIF, 'corpus', PROP)
    out = []
    if os.path.isdir(p):
        for f in sorted(os.listdir(p)):
            if f.endswith('.json'):
                out.append(json.load(open(os.path.join(p, f)))['case'])
    return out


def mk_case(tag, sdl, kind, rnd, idx, meta=None, nses=None, nextra=1):
    mods, firsts = CG.modules_of(sdl)
    ses = CG.harmless_sessions(rnd, mods, nextra)
    if nses is not None:
        ses = ses[:nses]
    coll = CG.colliding_session(rnd, firsts)
    return {'id': idx, 'tag': tag, 'kind': kind, 'sdl': sdl, 'sessions': ses + [coll], 'ncoll': 1,
            'own': 1, 'commit': True, 'compiler': False, 'meta': meta or {}}


def gen_cases(tier):
    quick = tier == 'quick'
    n_gen = 30 if quick else 250
    nx = 0 if quick else 2
    n_up = 6 if quick else 999
    n_mal = 6 if quick else 40
    cases = []
    for c in corpus():
        c = dict(c)
        c.update(id=len(cases), kind='corpus')
        c.setdefault('sessions', [[[None, 'default']], [[None, 'other']], []])
        c.setdefault('ncoll', 0)
        c.setdefault('own', 1)
        c.setdefault('commit', True)
        cases.append(c)
    for name, t in CG.HAND:
        cases.append(mk_case('hand:' + name, t, 'hand', lib.rng('C03h' + name), len(cases), nextra=1))
    # forced sweep (both tiers): classes of seeded defects the random streams missed; objects live in
    # modules other than `default`, session 0 has default module `default`, session 1 the object's module
    for name, t in CG.SWEEP:
        cases.append(mk_case('sweep:' + name, t, 'sweep', lib.rng('C03s' + name), len(cases), nextra=1))
    for name, t in CG.SWEEP_DDL:
        c = mk_case('sweep:' + name, 'module default {}; module other {}', 'sweep', lib.rng('C03s' + name), len(cases), nextra=1)
        c['ddl_in'] = t
        c['sessions'] = [[[None, 'default']], [[None, 'other']], [[None, 'nonexistent_mod']], []] + c['sessions'][-1:]
        cases.append(c)
    for i in range(2 if quick else 12):
        rnd = lib.rng(f'C03shadow{i}')
        t, names = CG.shadow_doc(rnd, ['User', 'Post', 'fmt'])
        c = mk_case(f'sweep:shadow{i}:' + '/'.join(names), t + '\nmodule default { type User; type Post; function fmt(a: str) -> str using (a); }',
                    'sweep', rnd, len(cases), nextra=0)
        cases.append(c)
    for name, t in CG.ACYCLIC_LOOKALIKE[: (4 if quick else 99)]:
        cases.append(mk_case('ok:' + name, CG.wrap_default(t), 'hand', lib.rng('C03h' + name), len(cases)))
    ups = CG.upstream_corpus(lib.REPO, 3000 if quick else 9000)
    rnd = lib.rng('C03up')
    rnd.shuffle(ups)
    for name, t in ups[:n_up]:
        cases.append(mk_case('up:' + name, t, 'upstream', lib.rng('C03u' + name), len(cases), nextra=nx))
    for i in range(n_gen):
        rnd = lib.rng(f'C03gen{i}')
        txt, feat, s = CG.gen_schema_text(rnd)
        if i % 3 == 1:
            txt = CG.render_unqualified(s, rnd)
        c = mk_case(f'C03gen{i}', txt, 'generated', rnd, len(cases), {'feat': feat}, nextra=nx)
        c['compiler'] = (i % 6 == 0)
        cases.append(c)
    rnd = lib.rng('C03malformed')
    for i in range(n_mal):
        base, _, _ = CG.gen_schema_text(lib.rng(f'C03mal{i}'))
        bad, tag = G.malformed_sdl(rnd, base)
        c = mk_case('malformed:' + tag, bad, 'malformed', rnd, len(cases), nses=1)
        cases.append(c)
    for t in ('module default {}', 'module default {}; module a {}; module a::b {}', ''):
        cases.append(mk_case('edge:empty', t, 'edge', rnd, len(cases), nses=2))
    return cases


def run_impl(cases, mode, workers=8, timeout=7200):
    """JSON cases through c03_impl.py in `workers` processes (each loads the std schema once)"""
    env = lib.impl_env()
    argv = [lib.PY, IMPL, lib.REPO, mode]
    p = subprocess.run(argv, input='', env=env, stdout=subprocess.PIPE, stderr=subprocess.PIPE, text=True, timeout=1800)
    if p.returncode != 0:
        raise RuntimeError('c03_impl warm-up failed:\n' + p.stderr[-3000:])
    if not cases:
        return []
    workers = max(1, min(workers, 8, len(cases)))
    # longest cases first, round-robin
    order = sorted(range(len(cases)), key=lambda i: -len(json.dumps(cases[i])))
    idx = [order[w::workers] for w in range(workers)]

    def one(ix):
        data = '\n'.join(json.dumps(cases[i]) for i in ix) + '\n'
        q = subprocess.run(argv, input=data, env=env, stdout=subprocess.PIPE, stderr=subprocess.PIPE, text=True,
                           timeout=timeout)
        if q.returncode != 0:
            raise RuntimeError(f'c03_impl rc={q.returncode}\n{q.stderr[-3000:]}')
        out = [l for l in q.stdout.split('\n') if l]
        if len(out) != len(ix):
            raise RuntimeError(f'c03_impl: {len(out)} results for {len(ix)} cases\n{q.stderr[-2000:]}')
        return [json.loads(l) for l in out]
    res = [None] * len(cases)
    with ThreadPoolExecutor(workers) as ex:
        for ix, rs in zip(idx, ex.map(one, idx)):
            for i, r in zip(ix, rs):
                res[i] = r
    return res


def slim(case):
    return {k: case[k] for k in ('tag', 'sdl', 'ddl_in', 'sessions', 'ncoll', 'own', 'commit') if k in case}


def brief(v):
    if v == 'eq':
        return 'eq'
    if 'rejected' in v:
        return 'rejected: ' + v['rejected']['type'] + ': ' + v['rejected']['msg'][:140]
    parts = []
    if 'dump_diff' in v:
        parts.append('dump differs: ' + json.dumps(v['dump_diff'][:2])[:260])
    if 'own_diff' in v:
        parts.append('delta_schemas(result, original) not empty: ' + v['own_diff'][:160])
    return '; '.join(parts)


HOW = ("echo '<case json>' | PYTHONPATH=/repo:/verif/harness /venv/bin/python harness/impl/c03_impl.py /repo describe"
       "   (or ./harness/check C03 --replay <this file>)")


def judge(case, r, known):
    """-> list of (kind, fid, what, payload)"""
    out = []
    if r is None or 'harness_error' in r:
        return [('harness', None, 'harness error: ' + json.dumps((r or {}).get('harness_error'))[:300], {'case': slim(case)})]
    if r['status'] != 'ok':
        if case['kind'] in ('hand', 'sweep'):
            # the hand-written families are valid schemas on the pinned tree: if the system no longer
            # accepts one the check loses its inputs (reported as a broken tie, no failing input)
            e = r.get('err') or {}
            out.append(('harness', None, f'a schema of the fixed valid corpus is no longer accepted ({case["tag"]}): '
                        f'{e.get("type")}: {str(e.get("msg"))[:160]}', {'case': slim(case), 'observed': e}))
        return out          # not a schema the system holds
    sdl_in = case['sdl']
    nh = len(case['sessions']) - case.get('ncoll', 0)

    def add(form, i, v, fid=None):
        ses = case['sessions'][i] if i is not None else None
        what = f'{form}' + (f' in session {json.dumps(ses)}' if ses is not None else '') + ' does not rebuild the schema: ' + brief(v)
        out.append(('known' if fid in known else 'violation', fid, what,
                    {'case': slim(case), 'form': form, 'session': ses, 'observed': v,
                     'required': 'schema equal to the original (structural dump equal and delta_schemas empty)',
                     'how': HOW}))
    # ---- describe itself must succeed
    for k, lang in (('ddl_err', 'DDL'), ('sdl_err', 'SDL')):
        if k in r:
            e = r[k]
            fid = None
            if k == 'ddl_err' and 'dependency cycle' in e.get('msg', ''):
                fid = None
            out.append(('violation', fid, f'DESCRIBE SCHEMA AS {lang} fails on a valid schema: {e["type"]}: {e["msg"][:160]}',
                        {'case': slim(case), 'observed': e, 'how': HOW}))
    text = r.get('ddl') or ''
    for i, v in enumerate(r.get('ddl_replay', [])):
        if v == 'eq':
            continue
        ses = case['sessions'][i]
        fid = None
        if i >= nh and CG.alias_collides(ses, text):
            fid = 'C03-alias-shadows-module'
        elif isinstance(v, dict) and 'rejected' in v:
            e = v['rejected']
            if e['type'] == 'InvalidReferenceError' and "property 'id' does not exist" in e['msg'] \
                    and 'access policy' in sdl_in and ':= (' in sdl_in:
                fid = 'C02-create-order-policy-computed'
        add('DESCRIBE SCHEMA AS DDL text replayed', i, v, fid)
    if 'ddl_commit' in r and r['ddl_commit'] != 'eq':
        v = r['ddl_commit']
        fid = 'C03-migration-body-early-resolution' if CG.early_resolution(r.get('sdl') or sdl_in, v) else None
        if fid is None and isinstance(v, dict) and 'rejected' in v and isinstance(r.get('ddl_replay', [None])[0], dict) \
                and 'rejected' in r['ddl_replay'][0]:
            pass        # already reported for the statement-by-statement replay
        else:
            add('DESCRIBE SCHEMA AS DDL text as the body of CREATE MIGRATION', None, v, fid)
    stext = r.get('sdl') or ''
    if 'sdl_target' in r and r['sdl_target'] != 'eq':
        v = r['sdl_target']
        fid = None
        if isinstance(v, dict) and 'rejected' in v:
            fid = CG.c11_reject_finding(stext, v['rejected'])
        add('DESCRIBE SCHEMA AS SDL text loaded by START MIGRATION TO', None, v, fid)
    if 'sdl_populate' in r:
        v = r['sdl_populate']
        e = v['rejected']
        fid = None
        if e['type'] == 'InvalidReferenceError' and "property 'id' does not exist" in e['msg'] \
                and 'access policy' in sdl_in and ':= (' in sdl_in:
            fid = 'C02-create-order-policy-computed'
        add('DESCRIBE SCHEMA AS SDL text via START MIGRATION TO / POPULATE MIGRATION (the system cannot compute the migration)', None, v, fid)
    for i, v in enumerate(r.get('sdl_replay', [])):
        if v == 'eq':
            continue
        ses = case['sessions'][i]
        fid = None
        # the statements replayed here are generated DDL: the same alias lookups apply
        if i >= nh and CG.alias_collides(ses, r.get('ddl') or stext):
            fid = 'C03-alias-shadows-module'
        add('DESCRIBE SCHEMA AS SDL text via START MIGRATION TO / POPULATE', i, v, fid)
    if 'sdl_commit' in r and r['sdl_commit'] != 'eq':
        v = r['sdl_commit']
        fid = 'C03-migration-body-early-resolution' if CG.early_resolution(stext, v) else None
        add('DESCRIBE SCHEMA AS SDL text via START MIGRATION TO / POPULATE / COMMIT', None, v, fid)
    cs = r.get('compiler_same')
    if cs is not None and cs != [True, True]:
        out.append(('violation', None, 'DESCRIBE SCHEMA through the EdgeQL compiler differs from ddl/sdl_text_from_schema: '
                    + json.dumps(cs)[:200], {'case': slim(case), 'how': HOW}))
    return out


# ---------------------------------------------------------------- Part II abstraction -> model

def abstract_lines(case, r, hm):
    """R lines (one per session) for the extracted model, or None when the text is not a pure list of
    CREATE statements"""
    ddl = r.get('ddl')
    if not ddl:
        return None
    ab = CG.abstract_ddl(ddl)
    if ab is None:
        return None
    ents, base = ab
    if not ents:
        return None
    comps = {'std': 1, '__current__': 2, '__std__': 3}
    shorts = {}
    classes = {}

    def comp(c):
        return comps.setdefault(c, len(comps) + 1)

    def enc_mod(m):
        return '.'.join(str(comp(c)) for c in m.split('::'))

    def split(qn):
        parts = qn.split('::')
        return '::'.join(parts[:-1]), parts[-1]

    def enc_q(qn, sep=':'):
        m, n = split(qn)
        return f'{enc_mod(m)}{sep}{shorts.setdefault(qn, len(shorts) + 1)}'
    sch = []
    for name, kind, refs in ents:
        cls = classes.setdefault(kind, len(classes) + 1)
        sch.append(f'{enc_q(name)}:{cls}:0:' + '+'.join(enc_q(x, '/') for x in refs))
    base_s = ','.join(enc_q(b) for b in base)
    lines = []
    multi_firsts = {m.split('::')[0] for m in {split(n)[0] for n, _, _ in ents} if '::' in m}
    for ses in case['sessions']:
        if any(k is not None and (k in multi_firsts or k in STDLIB_MODULES) for k, _ in ses):
            # alias named like a standard-library module other than std (implicit references into
            # schema::, cfg:: ... are not visible in the text), or
            # alias on the first component of a NESTED module: the real code resolves type shells with
            # edb/schema/utils.py::resolve_name, whose fallback after a failed lookup (whole-module alias
            # lookup) is not part of the model's replay -> no prediction for this session
            lines.append(None)
            continue
        al = ','.join(f'{"-" if k is None else enc_mod(k)}>{enc_mod(v)}' for k, v in ses)
        hms = ','.join(str(c) for c in sorted({comp(m.split("::")[0]) for m in
                                                {split(n)[0] for n, _, _ in ents}} | {1}))
        lines.append(f'R;{base_s};{",".join(sch)};{al};{hms}')
    return lines


# ---------------------------------------------------------------- run

def run(tier):
    rep = lib.Report(PROP, tier, 'proof')
    thorough = tier == 'thorough'
    t_start = time.time()
    pf = lib.proof_stage(rep, 'C03', THEOREMS, extra_targets=['theories/C03/Refuted.vo'], thorough=thorough)
    for b in lib.hygiene(['Decl', 'C20']):
        pf['broken'].append('hygiene: ' + b)
        pf['ok'] = False
    exe, blog = lib.build_model('c03', 'ExtractC03.v', 'c03_main.ml', 'C03_ext')
    known = {e['id'] for p in ('C03', 'C11', 'C02') for e in lib.known_findings(p)}

    # ---- stream A: name resolution, real vs model
    env = lib.impl_env()
    p = subprocess.run([lib.PY, IMPL, lib.REPO, 'resolve'], input='M\n', env=env, stdout=subprocess.PIPE,
                       stderr=subprocess.PIPE, text=True, timeout=1800)
    if p.returncode != 0:
        raise RuntimeError('c03_impl resolve failed:\n' + p.stderr[-3000:])
    hm = p.stdout.strip()
    rlines = gen_resolve(tier, hm)
    rimpl = lib.parallel_lines([lib.PY, IMPL, lib.REPO, 'resolve'], rlines, nproc=3 if not thorough else 6, env=env)
    rmodel = lib.run_model(exe, rlines) if exe else None
    rmism = [i for i, (a, b) in enumerate(zip(rimpl, rmodel or [])) if a != b]
    rerr = [i for i, a in enumerate(rimpl) if a.startswith('X')]

    # ---- stream B: describe end to end on the real code
    cases = gen_cases(tier)
    res = run_impl(cases, 'describe')
    verdicts = []
    for c, r in zip(cases, res):
        verdicts += judge(c, r, known)

    # ---- Part II: real text abstracted -> model verdict per session vs real verdict
    ab_lines, ab_ref = [], []
    abstained = 0
    ab_skipped = 0
    for ci, (c, r) in enumerate(zip(cases, res)):
        if not r or r.get('status') != 'ok' or 'ddl_replay' not in r:
            continue
        ls = abstract_lines(c, r, hm)
        if ls is None:
            abstained += 1
            continue
        for si, l in enumerate(ls):
            if l is None:
                ab_skipped += 1
                continue
            ab_lines.append(l)
            ab_ref.append((ci, si))
    ab_model = lib.run_model(exe, ab_lines) if exe and ab_lines else []
    ab_mism = []
    for (ci, si), m in zip(ab_ref, ab_model):
        real_ok = res[ci]['ddl_replay'][si] == 'eq'
        if m not in ('0', '1') or (m == '1') != real_ok:
            ab_mism.append((ci, si, m, real_ok))

    # ---- Coq vm_compute cross-check of the extracted model
    coq_diff, n_coq = [], 0
    if exe:
        rnd = lib.rng('C03coq')
        cand = [i for i, l in enumerate(rlines) if l[0] in 'SK']
        idx = sorted(rnd.sample(cand, min(150 if not thorough else 800, len(cand))))
        outs = lib.coq_eval('C03', 'From Coq Require Import List NArith. Import ListNotations.\n'
                                   'From Verif.C20 Require Import Model.\nFrom Verif.C03 Require Import Model.',
                            [coq_resolve_expr(rlines[i]) for i in idx])
        n_coq = len(outs)
        coq_diff = [i for i, o in zip(idx, outs) if coq_result_to_line(o, rlines[i][0]) != rmodel[i]]

    # ---- verdict
    seen_known = set()
    nviol = 0
    for kind, fid, what, payload in verdicts:
        if kind == 'known':
            rep.known_finding(fid, what)
            seen_known.add(fid)
        elif kind == 'harness':
            rep.violation(what, payload, found_input=False)
        else:
            nviol += 1
            if nviol <= 5:
                rep.violation(what, payload)
    if not nviol:
        if exe is None:
            rep.violation('model does not build: ' + blog[-1500:], {'broken': 'extraction of theories/C03/Model.v'}, False)
        if rerr:
            i = rerr[0]
            rep.violation('the real name-resolution function raised on a generated case: ' + rimpl[i],
                          {'case': rlines[i], 'impl_result': rimpl[i]}, False)
        elif rmism:
            i = min(rmism, key=lambda j: len(rlines[j]))
            rep.violation(f'correspondence broken: model and real name resolution disagree on {len(rmism)} of {len(rlines)} cases '
                          '(no end-to-end monitor failed)',
                          {'broken': 'correspondence C03 Model.search / resolve_name / classname vs '
                                     'FlatSchema._search_with_getter / tracer.resolve_name / _classname_from_ast',
                           'case': rlines[i], 'impl_result': rimpl[i], 'model_result': rmodel[i],
                           'how': 'PYTHONPATH=/repo:/verif/harness /venv/bin/python harness/impl/c03_impl.py /repo resolve <<< case'},
                          False)
        if ab_mism:
            ci, si, m, real_ok = ab_mism[0]
            rep.violation(f'correspondence broken: the abstract describe/replay model predicts rebuilt={m} but the real replay '
                          f'{"rebuilt" if real_ok else "did not rebuild"} the schema ({len(ab_mism)} of {len(ab_lines)} session replays)',
                          {'broken': 'correspondence C03 Model.roundtrip vs real ddl replay', 'case': slim(cases[ci]),
                           'session': cases[ci]['sessions'][si], 'observed': res[ci]['ddl_replay'][si]}, False)
        if coq_diff:
            rep.violation('extracted model disagrees with vm_compute inside Coq',
                          {'broken': 'extraction', 'case': rlines[coq_diff[0]]}, False)
        if not pf['ok']:
            rep.violation('proof obligations no longer check: ' + '; '.join(pf['broken'][:6]),
                          {'broken': pf['broken'], 'log_tail': pf['log'][-3000:]}, False)

    # ---- evidence
    ok_cases = [(c, r) for c, r in zip(cases, res) if r and r.get('status') == 'ok']
    distinct = set()
    feats = {}
    sizes = {}
    forms = {'ddl_replay': {}, 'sdl_replay': {}}
    nrep = 0
    for c, r in ok_cases:
        ddl = r.get('ddl') or ''
        nst = r.get('ddl_nstmts', 0)
        sizes[min(nst // 3 * 3, 30)] = sizes.get(min(nst // 3 * 3, 30), 0) + 1
        for f in (c.get('meta') or {}).get('feat', []):
            feats[f] = feats.get(f, 0) + 1
        user_refs = len(re.findall(r'(?<![\w:])(?!std::)[A-Za-z_]\w*(?:::\w+)+', ddl))
        if nst >= 3 and user_refs >= 3 and len(c['sessions']) >= 4:
            distinct.add(hashlib.sha256(ddl.encode()).hexdigest())
        for k in forms:
            for i, v in enumerate(r.get(k, [])):
                nrep += 1
                key = 'eq' if v == 'eq' else ('rejected' if 'rejected' in v else 'differs')
                key = ('colliding:' if i >= len(c['sessions']) - c.get('ncoll', 0) else 'harmless:') + key
                forms[k][key] = forms[k].get(key, 0) + 1
    kinds = {}
    for c, r in zip(cases, res):
        k = c['kind'] + ':' + ((r or {}).get('status') or 'harness-error')
        kinds[k] = kinds.get(k, 0) + 1
    rkinds = {}
    for l, a in zip(rlines, rimpl):
        k = l[0] + ':' + a[:1]
        rkinds[k] = rkinds.get(k, 0) + 1
    rep.coverage.update({
        'evaluations': len(cases) + len(rlines),
        'distinct_nontrivial': len(distinct) + len({l for l in rlines if resolve_nontrivial(l)}),
        'distinct_nontrivial_schemas': len(distinct),
        'distinct_nontrivial_resolution_cases': len({l for l in rlines if resolve_nontrivial(l)}),
        'rule': 'schema case non-trivial = accepted schema whose DDL text has >= 3 statements and >= 3 qualified '
                'user-name occurrences, replayed under >= 4 sessions (distinct = distinct DDL text); resolution case '
                'non-trivial = qualified or aliased name with >= 2 candidate objects (distinct = distinct encoded line)',
        'exhaustive': False,
        'exhaustive_subspaces': [f'name resolution: all {len(MODS)} module shapes x {len(ALIASES)} alias maps x 4 candidate sets'],
        'samples': [rlines[0], rlines[len(rlines) // 2]] + [c['sdl'][:300] for c, _ in ok_cases[-2:]],
        'traces_validated_against_impl': (len(rlines) if rmodel is not None else 0) + len(ab_lines),
        'model_vs_impl_disagreements': len(rmism) + len(ab_mism),
        'resolution_cases': len(rlines),
        'resolution_result_kinds': rkinds,
        'abstract_replay_sessions_compared': len(ab_lines),
        'abstract_replay_abstained_schemas': abstained,
        'abstract_replay_sessions_without_prediction': ab_skipped,
        'coq_vm_compute_cross_checked': n_coq,
        'schema_cases': kinds,
        'replays_on_real_code': nrep,
        'replay_outcomes': forms,
        'ddl_statement_count_histogram': dict(sorted(sizes.items())),
        'features_hit': dict(sorted(feats.items())),
        'monitor_failures': nviol,
        'known_findings_seen': sorted(seen_known),
        'refutation_witnesses': REFUTED,
        'trusted_base': [
            'Coq 8.16.1 kernel (coqc; coqchk in the thorough tier); vm_compute only for witnesses / cases.v',
            'extraction: ExtrOcamlBasic only; OCaml 4.13.1; ocaml/conv.ml + c03_main.ml',
            'harness: generators (c02_gen feature grammar, c03_gen), structural dump + own-diff comparison '
            '(harness/impl/c02_impl.py dump/own_diff, c03_impl.py), abstraction of DDL text to the model schema',
            'vrt substrate (stubs, substitute LR parser, std schema pickle)',
            'modelled, not verified: the printer (per-class _get_ast, codegen, expression normalisation) is NOT modelled; '
            'its correctness is only monitored on the generated schemas; module names are lists of components '
            "(a quoted identifier containing '::' is outside the model)",
        ],
    })
    rep.assumptions = ["module names are '::'-joined identifier components; alias maps have distinct keys",
                       'end-to-end statement (every object class, every field) is monitored on generated schemas, not proved']
    import resource
    ru = resource.getrusage(resource.RUSAGE_CHILDREN)
    rep.coverage['cpu_seconds_children'] = round(ru.ru_utime + ru.ru_stime, 1)
    rep.coverage['abstract_replay_disagreements'] = [
        {'tag': cases[ci]['tag'], 'session': cases[ci]['sessions'][si], 'model': m, 'real_rebuilt': ok}
        for ci, si, m, ok in ab_mism[:5]]
    rep.notes.append(f'stage times: total {time.time() - t_start:.0f}s')
    return rep.finish()


def replay(path):
    d = json.load(open(path))
    pay = d['replay']
    case = pay.get('case')
    if isinstance(case, str):
        exe, _ = lib.build_model('c03', 'ExtractC03.v', 'c03_main.ml', 'C03_ext')
        print('case :', case)
        print('impl :', lib.parallel_lines([lib.PY, IMPL, lib.REPO, 'resolve'], [case], env=lib.impl_env())[0])
        print('model:', lib.run_model(exe, [case])[0] if exe else 'model does not build')
        return 0
    c = dict(case)
    c.setdefault('id', 0)
    c.setdefault('own', 1)
    r = run_impl([c], 'describe', workers=1)[0]
    print('schema (SDL given):\n' + c['sdl'])
    print('status:', r.get('status'), r.get('err', ''))
    print('DESCRIBE SCHEMA AS DDL:\n' + str(r.get('ddl') or r.get('ddl_err')))
    print('DESCRIBE SCHEMA AS SDL:\n' + str(r.get('sdl') or r.get('sdl_err')))
    for k in ('ddl_replay', 'sdl_replay'):
        for ses, v in zip(c['sessions'], r.get(k, [])):
            print(f'{k} session={json.dumps(ses)}: {brief(v)}')
    for k in ('ddl_commit', 'sdl_target', 'sdl_populate', 'sdl_commit'):
        if k in r:
            print(f'{k}: {brief(r[k])}')
    return 0
