"""C01 -- EdgeQL text survives a print / re-parse round trip.

Two layers (DESIGN.md section 4, C01):

  (1) proof      coq/theories/C01: tokens, the expression core, `pp` mirroring the visit_* methods of
                 edb/edgeql/codegen.py, a precedence-climbing `parse` driven by Gen_Grammar.v (translated
                 fail-closed from precedence.py / expressions.py / tokens.py); theorems C01_roundtrip,
                 C01_idempotent, C01_lex_stable (+ Refuted.v: the deliberate `x {}` == `x` normalisation).
                 Tie: correspondence -- model pp vs real generate_source, model parse vs real parser.
  (2) exploration (real code only): grammar-driven derivations from the repo's own productions,
                 upstream syntax corpora, mutation / recombination, operator-pair scope; for every accepted
                 text and every printer mode: parse -> print -> parse -> same AST -> print byte-identical.
"""
from __future__ import annotations

import collections
import hashlib
import json
import os
import re
import sys
import time

import lib

sys.path.insert(0, os.path.dirname(os.path.abspath(__file__)))
import c01_gen as G  # noqa: E402

PROP = 'C01'
IMPL = os.path.join(lib.VERIF, 'harness', 'impl', 'c01_impl.py')
SCRATCH = os.path.join(lib.CACHE, 'c01')


# ----------------------------------------------------------------------------- running the real code

def run_impl(mode, lines, nproc=16):
    return lib.parallel_lines([lib.PY, IMPL, lib.REPO, mode], lines, nproc=nproc, env=lib.impl_env())


def enc_case(entry, text):
    return json.dumps({'e': entry, 't': text})


def load_grammar():
    rc, out, err = lib.impl_python(IMPL, [lib.REPO, 'grammar'], extra_env={'VRT_REPO': lib.REPO, 'VERIF_REPO': lib.REPO})
    if rc != 0:
        raise RuntimeError('grammar dump failed:\n' + err[-3000:])
    g = json.loads(out)
    KEYWORDS.clear()
    KEYWORDS.update(kw for tn, kw in g['kwtext'].items() if g['kwtype'].get(tn) in (2, 4))
    return g


# ----------------------------------------------------------------------------- case generation

def corpus_cases():
    p = os.path.join(lib.VERIF, 'corpus', 'C01')
    out = []
    if os.path.isdir(p):
        for f in sorted(os.listdir(p)):
            if f.endswith('.json'):
                d = json.load(open(os.path.join(p, f)))
                c = d['case']
                if isinstance(c, str):
                    c = json.loads(c)
                if 'e' in c:
                    out.append((c['e'], c['t'], 'corpus:' + f))
    return out


def lib_texts(repo, rnd, n):
    """statements of the standard library sources (real DDL texts)"""
    out = []
    root = os.path.join(repo, 'edb', 'lib')
    files = []
    for dp, _, fs in os.walk(root):
        files += [os.path.join(dp, f) for f in fs if f.endswith('.edgeql')]
    files.sort()
    for f in files:
        try:
            txt = open(f, encoding='utf-8').read()
        except OSError:
            continue
        out += [s for s in G.split_statements(txt) if 10 < len(s) < 1500]
    rnd.shuffle(out)
    return out[:n]


def gen_explore_cases(tier, g, rnd):
    """-> list of (entry, text, origin)"""
    thorough = tier == 'thorough'
    cases = list(corpus_cases())
    pos, neg = G.upstream_corpus(lib.REPO)
    cases += [(e, t, 'upstream:' + n) for e, t, n in pos]
    # block texts are also tried statement by statement as fragments where they are expressions
    seeds_block = [t for e, t, _ in pos if e == 'block']
    seeds_sdl = [t for e, t, _ in pos if e == 'sdl']
    stmts = []
    for t in seeds_block:
        stmts += G.split_statements(t)
    stmts = [s for s in stmts if s]
    # operator-pair scope (exhaustive depth 2) + random core expressions
    cases += [('fragment', t, 'oppair') for t in G.op_pair_texts()]
    ncore = 30000 if thorough else 1500
    for _ in range(ncore):
        cases.append(('fragment', G.core_expr(rnd, rnd.randint(1, 5 if thorough else 4), rnd.choice([0, .2, .5])), 'core'))
    # grammar-driven: every production targeted k times + free derivations
    S = G.GrammarSampler(g)
    k_target = 20 if thorough else 2
    for k in range(len(S.prods)):
        for rep in range(k_target):
            for e in rnd.sample(['block', 'sdl', 'sdlmod', 'fragment', 'migration', 'extension'], 6):
                t = S.sample(e, rnd, budget=rnd.choice([6, 12, 25]), target_prod=k)
                if t is not None:
                    cases.append((G.REAL_ENTRY.get(e, e), t, 'grammar-target'))
                    break
    nfree = 40000 if thorough else 1200
    for _ in range(nfree):
        e = rnd.choice(['block', 'block', 'fragment', 'sdl', 'sdlmod', 'migration', 'extension'])
        t = S.sample(e, rnd, budget=rnd.choice([8, 15, 30, 60]))
        if t is not None:
            cases.append((G.REAL_ENTRY.get(e, e), t, 'grammar-free'))
    # standard library statements
    libs = lib_texts(lib.REPO, rnd, 3000 if thorough else 250)
    cases += [('block', s, 'stdlib') for s in libs]
    cases += [(e, t, 'template') for e, t in G.DDL_TEMPLATES]
    # union / except / intersect (quoted) in every identifier position of templates, statement forms and upstream texts
    allkw = set(g['kwtext'].values())
    pr_seeds = list(G.DDL_TEMPLATES) + [(e, h.replace('@2', 'y').replace('@', 'x')) for e, h in G.STMT_HOLES] + \
        [('block', s_ + ';') for s_ in G.STMT_FORMS]
    cases += [(e, t, 'partial-reserved') for e, t in G.partial_reserved_texts(rnd, pr_seeds, allkw, every=True)]
    up = [(e, t) for e, t, _ in pos if len(t) < 400]
    cases += [(e, t, 'partial-reserved') for e, t in G.partial_reserved_texts(rnd, up, allkw, per_text=6 if thorough else 2)]
    # string literals: every ordered pair of character classes in every quoting style
    cases += [(e, t, 'string-classes') for e, t in G.string_class_texts(rnd, 3 if thorough else 2)]
    # statements in every statement position (hole x statement form, exhaustive) + two-level nesting
    cases += [(e, t, 'stmt-nesting') for e, t in G.stmt_nest_texts(rnd, 3000 if thorough else 300)]
    # mutation / recombination
    pool = [G.core_expr(rnd, 2, 0.3) for _ in range(200)] + [s for s in stmts if len(s) < 200][:300]
    nmut = 60000 if thorough else 2000
    base = [(e, t) for e, t, _ in pos] + [('block', s) for s in stmts] + [('block', s) for s in libs[:200]]
    for _ in range(nmut):
        e, t = rnd.choice(base)
        m = t
        for _ in range(rnd.choice([1, 1, 2, 3])):
            m = G.mutate(m, rnd, pool)
        cases.append((e, m, 'mutate'))
    # fragments out of statements: `SELECT <expr>` bodies and parenthesised groups
    for s in rnd.sample(stmts, min(len(stmts), 4000 if thorough else 400)):
        cases.append(('fragment', s, 'stmt-as-fragment'))
    # migration / extension bodies built from statements
    for _ in range(2000 if thorough else 150):
        body = '; '.join(rnd.choice(stmts) for _ in range(rnd.randint(1, 3))) + rnd.choice(['', ';', ' ;;'])
        cases.append((rnd.choice(['migration', 'extension']), body, 'body'))
    # malformed / edge stream
    seeds = stmts + seeds_sdl
    for _ in range(6000 if thorough else 600):
        cases.append((rnd.choice(['block', 'fragment', 'sdl', 'migration']), G.malformed(rnd, seeds), 'malformed'))
    cases += [(e, t, 'upstream-negative:' + n) for e, t, n in neg]
    # de-duplicate, keep first origin
    seen, out = set(), []
    for e, t, o in cases:
        if (e, t) in seen:
            continue
        seen.add((e, t))
        out.append((e, t, o))
    return out


# ----------------------------------------------------------------------------- forced grammar coverage

EDGE_FILE = os.path.join(SCRATCH, 'edge_positions.json')


def coverage_setup(S):
    """tell the parser driver for which (production, position) pairs the child production is recorded"""
    targets, positions = S.edge_targets()
    os.makedirs(SCRATCH, exist_ok=True)
    tmp = EDGE_FILE + '.%d' % os.getpid()
    json.dump(positions, open(tmp, 'w'))
    os.replace(tmp, EDGE_FILE)
    os.environ['C01_EDGE_FILE'] = EDGE_FILE
    return targets


def coverage_state(outs):
    prods, edges = set(), set()
    for o in outs:
        if o.get('acc'):
            prods.update(o.get('prods', ()))
            edges.update(tuple(x) for x in o.get('edges', ()))
    return prods, edges


def force_coverage(S, rnd, edge_targets, cases, outs, tier):
    """Adaptive rounds: for every production / (parent, position, child) edge that no ACCEPTED text has used yet,
    derive texts that use it (shortest context, minimal or small random fillers, plain token spellings) until the
    real parser accepts one.  The new cases are appended to cases / outs and judged by the same monitors."""
    plan = [4, 6, 8, 10, 12] if tier == 'thorough' else [3, 5, 8]
    entries = ['sdlmod', 'block', 'sdl', 'fragment', 'migration', 'extension']
    stats = {'rounds': []}
    seen = {(e, t) for e, t, _ in cases}
    want_p = [pid for pid, k in sorted(S.k_of.items()) if k not in S.unobservable and S.prodlen[k] < 10 ** 9]
    S.safe = True
    try:
        for per in plan:
            prods, edges = coverage_state(outs)
            miss_p = [p for p in want_p if p not in prods]
            miss_e = [t for t in edge_targets if t not in edges]
            stats['rounds'].append({'unreached_productions': len(miss_p), 'unreached_edges': len(miss_e)})
            if not miss_p and not miss_e:
                break
            new = []

            def gen(fn):
                n = 0
                for e in entries:
                    for j in range(per):
                        t = fn(e, [0, 0, 2, 4, 8][j % 5])
                        if t is None:
                            break
                        re_ = G.REAL_ENTRY.get(e, e)
                        if (re_, t) not in seen:
                            seen.add((re_, t))
                            new.append((re_, t, 'grammar-force'))
                            n += 1
                    if n >= per:
                        break
            for pid in miss_p:
                gen(lambda e, b, pid=pid: S.sample(e, rnd, budget=b, target_prod=S.k_of[pid]))
            for pid, pos, cid in miss_e:
                gen(lambda e, b, t=(pid, pos, cid): S.sample_edge(e, rnd, t[0], t[1], t[2], budget=b))
            if not new:
                break
            stats['rounds'][-1]['generated'] = len(new)
            o2 = explore(new)
            stats['rounds'][-1]['accepted'] = sum(x.get('acc', 0) for x in o2)
            cases.extend(new)
            outs.extend(o2)
    finally:
        S.safe = False
    prods, edges = coverage_state(outs)
    g = S.g
    nm = lambda i: ' '.join(g['production_names'][i])
    stats['productions_observable'] = len(want_p)
    stats['productions_reached'] = len([p for p in want_p if p in prods])
    stats['edges_total'] = len(edge_targets)
    stats['edges_reached'] = len([t for t in edge_targets if t in edges])
    stats['unobservable_productions'] = sorted(nm(S.id_of[k]) for k in S.unobservable if k in S.id_of)
    stats['ungeneratable_productions'] = sorted(nm(i) for i in S.unmapped_ids)
    stats['unreached_productions'] = sorted(nm(p) for p in want_p if p not in prods)
    stats['unreached_edges'] = ['%s[%d] <- %s' % (nm(a), b, nm(c)) for a, b, c in edge_targets if (a, b, c) not in edges]
    return stats


# ----------------------------------------------------------------------------- known findings
# A finding is recognised by a precise predicate over the failure record of the real code
# (monitor kind, printer-independent signature of the first AST difference / error, text patterns).
# It only downgrades a failure when known_findings.json lists its id for C01.


BACKTICK_RE = re.compile(r'`((?:[^`]|``)+)`')


KEYWORDS: set = set()      # reserved + partial reserved keywords of the repo grammar (filled by load_grammar)


def must_quote(name):
    return not re.fullmatch(r'[^\W\d]\w*', name) or name.lower() in KEYWORDS


def quoted_ident_bare(text, printed):
    """an identifier the input had to quote (not a plain word, or a reserved keyword) appears
    unquoted in the printed text"""
    for m in BACKTICK_RE.finditer(text):
        name = m.group(1).replace('``', '`')
        if not must_quote(name):
            continue
        if re.search(r'(?<![`\w])' + re.escape(name) + r'(?![`\w])', printed):
            return name
    return None


class Finding:
    def __init__(self, fid, kinds, site, predicate, what, sig=None, tag=None, feat=None, printed=None,
                 text=None, special=None, modes=None):
        self.id = fid
        self.kinds = kinds.split('|')
        self.site, self.predicate, self.what = site, predicate, what
        self.sig = re.compile(sig) if sig else None
        self.tag = tag
        self.feat = feat
        self.printed = re.compile(printed, re.S | re.I) if printed else None
        self.text = re.compile(text, re.S | re.I) if text else None
        self.special = special
        self.modes = modes

    def matches(self, case, res, f):
        if f['kind'] not in self.kinds:
            return False
        if self.modes and not re.search(self.modes, f['mode']):
            return False
        if self.sig and not self.sig.search(f.get('sig') or ''):
            return False
        if self.tag and f.get('tag') != self.tag:
            return False
        if self.feat and not any(re.fullmatch(self.feat, x) for x in res.get('feats', ())):
            return False
        if self.printed and not self.printed.search(f.get('printed') or ''):
            return False
        if self.text and not self.text.search(case[1]):
            return False
        if self.special and not self.special(case, res, f):
            return False
        return True

    def entry(self):
        e = {'id': self.id, 'property': PROP, 'site': self.site, 'predicate': self.predicate, 'what': self.what}
        if self.id in REPLAYS:
            e['replay'] = json.dumps({'e': REPLAYS[self.id][0], 't': REPLAYS[self.id][1]})
        return e


PARTIAL_RESERVED = ('union', 'except', 'intersect')
RAW_NAME_SITES = (':=', 'reset', 'savepoint', 'alias')


def bare_names(text, printed):
    """(name, preceding word) for every identifier the input had to quote that occurs unquoted in the print"""
    out = []
    for m in BACKTICK_RE.finditer(text):
        name = m.group(1).replace('``', '`')
        if not must_quote(name):
            continue
        for mm in re.finditer(r'(?:(\w+)\s+)?(?<![`\w])' + re.escape(name) + r'(?![`\w])(\s*:=)?', printed):
            out.append((name, ':=' if mm.group(2) else (mm.group(1) or '').lower()))
    return out


def _sp_partial(case, res, f):
    return any(n.lower() in PARTIAL_RESERVED for n, _ in bare_names(case[1], f.get('printed') or ''))


def _sp_quoted(case, res, f):
    return any(n.lower() not in PARTIAL_RESERVED and w in RAW_NAME_SITES
               for n, w in bare_names(case[1], f.get('printed') or ''))


CG = 'edb/edgeql/codegen.py'
FINDINGS = [
    Finding('C01-typeop-left-typeof-introspect', 'same-ast', f'{CG}::visit_TypeOp (left operand printed bare; _visit_left_operand is not used here)',
            'a type operator `|` / `&` whose LEFT operand is TYPEOF <expr> where <expr> ends (on its right spine) in INTROSPECT <type>; the re-parsed tree is '
            'the input with the type operator pushed under that INTROSPECT',
            '`x IS ((TYPEOF INTROSPECT T) | U)` prints `(x IS (TYPEOF INTROSPECT T | U))` = TYPEOF INTROSPECT (T | U): residual of the repaired '
            'C01-prefix-left-operand (visit_TypeOp was not changed)',
            sig=r'\|TypeOp\([&|]\)>TypeOf$', printed=r'TYPEOF\b.*\bINTROSPECT\b.*[|&]'),
    Finding('C01-prefix-left-operand', 'same-ast', f'{CG}::visit_BinOp/visit_IsOp/visit_TypeOp/visit_IfElse + visit_UnaryOp/visit_TypeCast/visit_DetachedExpr/visit_Introspect/visit_TypeOf/visit_Constant',
            'the left operand of a binary / IS / type operator (or the first operand of python-style IF..ELSE) is, or ends on its right spine '
            '(UnaryOp.operand, TypeCast.expr, DetachedExpr.expr, Introspect.type, TypeOf.expr) in, a prefix form (+x, -x, NOT x, EXISTS x, DISTINCT x, '
            'TYPEOF x, negative numeric literal) whose operator binds looser than the binary operator; the re-parsed tree is exactly the input tree with '
            'the binary operator pushed under that prefix form',
            'left operands are printed bare inside the parentheses of the binary operator: `(-5) ^ 2` prints `(-5 ^ 2)` = -(5 ^ 2); `(NOT a) = b` prints `(NOT (a) = b)` = NOT (a = b)',
            tag='prefix-left-operand'),
    Finding('C01-shape-on-prefix', 'same-ast', f'{CG}::visit_Shape',
            'Shape whose subject is (or ends on its right spine in) a prefix form: UnaryOp, TypeCast, negative numeric literal; the re-parsed tree is the input with the shape pushed under the prefix form',
            'the subject of a shape is printed without parentheses: `(<T>x) {a}` prints `<T>x {a}` = <T>(x {a}); `(-5) {a}` prints `-5 {a}`',
            tag='shape-on-prefix'),
    Finding('C01-detached-postfix', 'same-ast', f'{CG}::visit_DetachedExpr',
            'DetachedExpr whose operand is a Path with more than one step, an Indirection or a Shape; the re-parsed tree has DETACHED applied to the head of that postfix chain only',
            'DETACHED binds tighter than `.`, `[]` and `{}` but its operand is printed bare: `DETACHED (x.y)` prints `detached x.y` = (DETACHED x).y',
            tag='detached-postfix'),
    Finding('C01-nested-unary-plus', 'reparse|same-ast', f'{CG}::visit_UnaryOp',
            'the tree contains UnaryOp(+, UnaryOp(+, _))', '`+ +x` prints `++x`, which lexes as the concatenation operator',
            feat='nested-unary-plus', printed=r'\+\+'),
    Finding('C01-typecast-required', 'same-ast', f'{CG}::visit_TypeCast',
            'TypeCast with cardinality_mod = Required', '`<required T>x` prints `<T>x` (only `optional` is printed)',
            sig=r'TypeCast\.cardinality_mod\|str>None'),
    Finding('C01-param-backtick', 'same-ast|reparse', 'edb/edgeql/parser/grammar/expressions.py::Constant.reduce_PARAMETER + codegen.param_to_str',
            'a query parameter written with backticks ($`name`)',
            'the parser keeps the backticks in Parameter.name; the printer quotes them again ($```name```)',
            feat='param-backtick', printed=r'\$```'),
    Finding('C01-for-optional', 'same-ast', f'{CG}::visit_ForQuery', 'ForQuery with optional = true',
            '`FOR OPTIONAL x IN ...` is printed without OPTIONAL', sig=r'ForQuery\.optional\|True>False'),
    Finding('C01-for-iterator-parens', 'reparse', f'{CG}::visit_ForQuery',
            'FOR whose iterator is not an atomic expression (grammar requires parentheses around complex iterators)',
            'the iterator is printed bare; the parser answers "Missing parentheses around complex expression in a FOR iterator clause"',
            sig=r'Missing parentheses around complex expression in a FOR'),
    Finding('C01-subtype-label', 'same-ast', f'{CG}::visit_TypeOp/visit_TypeOf (element name only printed by visit_TypeName)',
            'a named collection subtype (`tuple<a: T | U>`) whose type is a TypeOp or TypeOf', 'the element name is dropped',
            sig=r'TypeName\.subtypes\[\]/(TypeOp|TypeOf)\.name\|str>None'),
    Finding('C01-alter-empty-body', 'reparse', f'{CG}::_visit_AlterObject',
            'an ALTER command with an empty command block `{ }`', 'printed with no body at all (`alter role x;`), which the grammar rejects',
            feat='alter-empty', special=lambda c, r, f: bool(re.search(r'\balter\s[^{};]*(;|$)', f.get('printed') or '', re.I)
                                                              or "Missing '{'" in (f.get('sig') or ''))),
    Finding('C01-operator-multi-using-bare', 'reparse', f'{CG}::visit_CreateOperator',
            'CREATE OPERATOR (not abstract) whose body holds at least two of USING <lang> OPERATOR / USING <lang> FUNCTION / USING <lang> <code> '
            'and no other command',
            'with no SET / annotation command the printer opens no block, yet writes every USING clause: '
            "`create infix operator ... -> int64 using sql operator '||';using sql function 'array_cat';` -- the grammar allows a single "
            "bare USING clause only (Unexpected keyword 'USING')",
            feat='operator-multi-using-bare', sig=r"Unexpected keyword 'USING'",
            printed=r"create\s[^{}]*\boperator\b[^{}]*\busing\s+\w+\s+(operator|function)\s[^{};]*;\s*using\b"),
    Finding('C01-function-from-function-plus-body', 'same-ast|reparse', f'{CG}::_function_after_name',
            'CREATE / ALTER FUNCTION whose body holds USING <lang> FUNCTION together with USING <lang> <code> or USING (<expr>)',
            "the from_function branch is taken and the code / expression is dropped: `{ using sql function 'foo'; using sql $$select 1$$; }` prints "
            "`using sql function 'foo'` (FunctionCode.code lost); with `using (1)` the language becomes EdgeQL and the print "
            "`using edgeql function 'foo'` is rejected by the grammar",
            feat='function-from-function-plus-body',
            special=lambda c, r, f: (f['kind'] == 'same-ast' and bool(re.search(r'FunctionCode\.code\|str>None$|\.nativecode\|', f.get('sig') or '')))
            or (f['kind'] == 'reparse' and 'language is not supported in USING FUNCTION' in (f.get('sig') or '') + (f.get('detail') or ''))),
    Finding('C01-extension-package-migration-to-version', 'reparse', f'{CG}::visit_CreateExtensionPackageMigration / visit_DropExtensionPackageMigration',
            'CREATE / DROP EXTENSION PACKAGE <name> MIGRATION FROM VERSION <a> TO VERSION <b>',
            "the second VERSION keyword is not printed: `... migration from  version '1.0' to '2.0'` -- rejected (Missing keyword 'VERSION')",
            sig=r"Missing keyword 'VERSION'", printed=r"extension\s+package\s+\S+\s+migration\s+from\s+version\s+\S+\s+to\s+(?!version)"),
    Finding('C01-drop-extension-version', 'same-ast', f'{CG}::visit_DropExtension (_visit_DropObject)',
            "DROP EXTENSION <name> VERSION '<v>'",
            "printed as `drop extension <name>;`: the version is lost (DropExtension.version Constant -> None)",
            sig=r"DropExtension\.version\|Constant>None$", printed=r"drop\s+extension\s+(?!package)[^;]*?(;|$)"),
    Finding('C01-sdl-overloaded-computed', 'reparse', f'{CG}::visit_CreateConcreteLink / visit_CreateConcreteProperty / visit_CreateConcreteUnknownPointer (SDL short form)',
            'SDL declaration `overloaded [required|optional] [single|multi] [link|property] p { using (<expr>) }` (computed pointer written with a body)',
            "printed in the short form `overloaded ... p := (<expr>);`, which the grammar does not have for OVERLOADED (Unexpected ':=')",
            feat='sdl-overloaded-computed', sig=r"Unexpected ':='|Missing ':'", printed=r"\boverloaded\s+[^;{}]*?:="),
    Finding('C01-sdl-trigger-qualified-name', 'same-ast|reparse', f'{CG}::visit_CreateTrigger',
            'SDL trigger declared with a module-qualified name (`trigger a::b after insert ...`; the DDL form rejects such names, the SDL grammar accepts them)',
            'only the short name is printed: CreateTrigger.name.module is lost; when the short name is a keyword that is only allowed after `::` '
            '(`trigger a::except ...`) the print is rejected',
            feat='trigger-qualified-name',
            special=lambda c, r, f: (f['kind'] == 'same-ast' and bool(re.search(r"CreateTrigger\.name/ObjectRef\.module\|str>None$", f.get('sig') or '')))
            or (f['kind'] == 'reparse' and bool(re.search(r'\btrigger\s+(?!\w+\s*::)', f.get('printed') or '', re.I)))),
    Finding('C01-abstract-index-kwarg-statement-bare', 'reparse', f'{CG}::visit_CreateIndex (keyword arguments of CREATE ABSTRACT INDEX / SDL abstract index)',
            'a SELECT/INSERT/UPDATE/DELETE/FOR/GROUP/WITH statement as a keyword argument of an ABSTRACT index definition',
            'printed without the parentheses the grammar requires: `create abstract index i(conf := select 1) extending fts;` -- residual of the repaired '
            'C01-ddl-value-statement-bare (annotation values, concrete index / constraint arguments are parenthesised now)',
            feat='abstract-index-kwarg-statement',
            printed=r"abstract\s+index\s[^;{]*\(\s*(?:[^()]*,\s*)?\S+\s*:=\s*(with|select|insert|update|delete|for|group)\b"),
    Finding('C01-operator-returning-typeof-block', 'reparse|same-ast', f'{CG}::visit_CreateOperator (returning type printed with visit, not _ddl_visit_type_before_body)',
            'CREATE [ABSTRACT] OPERATOR whose returning type is TYPEOF <expr> and that has at least one command (printed as a `{ ... }` block)',
            'the block is printed right after `TYPEOF <expr>`, where `{` is read as a shape on <expr>: '
            "`create abstract infix operator o(a: int64, b: int64) -> typeof x set a := 1;` prints `... ->  TYPEOF x { set a := 1; };`",
            feat='operator-returning-typeof-block', printed=r"operator\b[^;{]*->\s*(?:\w+\s+)?TYPEOF\b[^;]*?\{"),
    Finding('C01-sdl-link-unknown-pointer-computed-short', 'same-ast|reparse', f'{CG}::visit_CreateConcreteUnknownPointer (SDL short form inside an abstract link body)',
            'SDL `abstract link L { p { using (<expr>) } }`: a computed pointer declared WITHOUT the `property` keyword inside an abstract link',
            'printed in the short form `p := (<expr>);`, which in an abstract-link body is a SetField (CreateConcreteUnknownPointer -> SetField), or is rejected '
            "when it has qualifiers / a keyword-like name (`required p := (1)`, `union := (1)`: Unexpected ':=')",
            feat='link-unknown-pointer-computed',
            special=lambda c, r, f: (f['kind'] == 'same-ast' and bool(re.search(r'CreateLink\.commands\[\]\|CreateConcreteUnknownPointer>SetField$', f.get('sig') or '')))
            or (f['kind'] == 'reparse' and bool(re.search(r"Unexpected ':='|Missing ':'", f.get('sig') or '')))),
    Finding('C01-group-by-partial-reserved-bare', 'reparse|same-ast', f'{CG}::visit_GroupingSimple / visit_Path (BY clause of GROUP: path steps are printed with allow_partial_reserved)',
            'GROUP ... BY with a grouping element `.name` / `@name` (also inside a tuple, a set, ROLLUP or CUBE) whose name is `union`, `except` or `intersect` (quoted in the input)',
            'printed bare (`by @union`); the BY clause takes an Identifier there, not a PathStepName, so the keyword is read: residual of the repaired '
            'C01-partial-reserved-bare (ordinary path and shape steps may be bare, grouping elements may not)',
            printed=r"\bby\b[^;]*?[.@]\s*(union|except|intersect)\b",
            special=lambda c, r, f: _sp_partial(c, r, f) and 'GroupQuery' in (r.get('nodes') or ()) or _sp_partial(c, r, f) and 'InternalGroupQuery' in (r.get('nodes') or ())),
    Finding('C01-function-edgeql-code-text', 'same-ast', f'{CG}::_function_after_name (EdgeQL branch: `USING (<code text>)`)',
            'CREATE / ALTER FUNCTION ... USING EdgeQL $$<text>$$ (body given as a dollar-quoted / string literal with the language spelled out)',
            'printed as `USING (<text>)`, which the parser reads as the expression form: FunctionCode.code (text) becomes CreateFunction.nativecode (an AST); '
            'same function, different tree (and a text that is not an expression would not re-parse)',
            feat='function-edgeql-code-text', sig=r'FunctionCode\.code\|str>None$|\.nativecode\|None>'),
    Finding('C01-function-from-expr-plus-body', 'same-ast|reparse', f'{CG}::_function_after_name (from_expr branch)',
            'CREATE / ALTER FUNCTION whose body holds USING <lang> EXPRESSION together with USING (<expr>)',
            'the from_expr branch is taken and the expression is dropped (`using sql expression;`, CreateFunction.nativecode lost); when USING (<expr>) comes last the '
            'language is EdgeQL and the print `using edgeql expression` is rejected by the grammar',
            feat='function-from-expr-plus-body',
            special=lambda c, r, f: (f['kind'] == 'same-ast' and bool(re.search(r'\.nativecode\||FunctionCode\.code\|', f.get('sig') or '')))
            or (f['kind'] == 'reparse' and 'language is not supported in USING' in (f.get('sig') or '') + (f.get('detail') or ''))),
    Finding('C01-collection-type-partial-reserved-bare', 'reparse|same-ast', f'{CG}::visit_TypeName (main type of a parametrised type printed with allow_partial_reserved)',
            'a parametrised type whose main type name is `union`, `except` or `intersect` (quoted in the input): `<`union`<int64>>x`, `extending `union`<a, b>`',
            'printed bare (`union<int64>`); a collection type name is a NodeName, not a type-name position where the keyword may be bare',
            printed=r"(?<![`\w.:@])(union|except|intersect)\s*<", special=_sp_partial),
    Finding('C01-free-shape-partial-reserved-bare', 'reparse|same-ast', f'{CG}::visit_ShapeElement / visit_Path (element of a free shape)',
            'a free shape `{ name := ... }` (no subject) with an element named `union`, `except` or `intersect` (quoted in the input)',
            'printed bare (`select { union := 1 }`): free-shape elements take an Identifier, unlike the steps of an ordinary shape',
            feat='free-shape-partial-reserved', special=_sp_partial),
    Finding('C01-role-base-partial-reserved-bare', 'reparse|same-ast', f'{CG}::visit_CreateRole / visit_AlterAddInherit / visit_AlterDropInherit (role bases printed like type names)',
            'CREATE ROLE ... EXTENDING / ALTER ROLE { [DROP] EXTENDING ... } with a base role named `union`, `except` or `intersect` (quoted in the input)',
            'printed bare (`create role r extending union`): role bases are plain names, not type names',
            printed=r"\bextending\b[^;{}]*\b(union|except|intersect)\b",
            special=lambda c, r, f: _sp_partial(c, r, f) and bool({'CreateRole', 'AlterRole'} & set(r.get('nodes') or ()))),
    Finding('C01-partial-reserved-bare', 'reparse|same-ast', 'edb/edgeql/quote.py::needs_quoting (only RESERVED_KEYWORD is consulted)',
            'an identifier `union`, `except` or `intersect` (partial reserved keywords) that the input had to quote',
            'printed bare; in expression position the parser reads the keyword',
            special=_sp_partial),
    Finding('C01-quoted-ident-bare', 'reparse|same-ast', f'{CG}::visit_SetField (f"{{node.name}} :=" / RESET name), visit_SelectQuery (result_alias), savepoint statements, SET/RESET ALIAS',
            'an identifier the input had to quote (not union/except/intersect) is printed unquoted as the target of `:=` (SET field / SDL field / SELECT result alias) or directly after RESET, SAVEPOINT or ALIAS',
            'several statement printers write names without ident_to_str: `SET `select` := 1` (quoted) in a DDL body prints `set select := 1`; DECLARE SAVEPOINT with a quoted name prints `declare savepoint my name`',
            special=_sp_quoted),
    Finding('C01-dunder-ident-quoted', 'reparse', 'edb/edgeql/quote.py::quote_ident vs tokenizer.rs (quoted dunder names are forbidden)',
            'a bare identifier of the form __name__ that is not a keyword (e.g. __edgedbtpl__)',
            'printed with backticks, which the lexer forbids for names surrounded by double underscores',
            sig=r'backtick-quoted names surrounded by double underscores'),
    Finding('C01-cast-from-space', 'reparse', f'{CG}::visit_AlterCast / visit_DropCast', 'ALTER CAST / DROP CAST statement',
            'printed `alter castfrom A to B` (missing space between CAST and FROM)', printed=r'\bcastfrom\b'),
    Finding('C01-index-match-for-space', 'reparse', f'{CG}::visit_CreateIndexMatch / DropIndexMatch', 'CREATE / DROP INDEX MATCH FOR statement',
            'printed `create index match forstd::str using ...` (missing space after FOR)', printed=r'match for[^\s]'),
    Finding('C01-config-reset-filter-space', 'reparse', f'{CG}::visit_ConfigReset', 'CONFIGURE ... RESET <object> FILTER ...',
            'printed `reset Foofilter` (missing space before FILTER)', printed=r'reset\s+\S+filter\b'),
    Finding('C01-no-printer', 'print-error', f'{CG}::generic_visit', 'ADMINISTER or ANALYZE (ExplainStmt) statement',
            'EdgeQLSourceGeneratorError: No method to generate code for AdministerStmt / ExplainStmt',
            sig=r'No method to generate code for (AdministerStmt|ExplainStmt)'),
    Finding('C01-sorted-body-itemclass', 'print-error', f'{CG}::_ddl_visit_body.sort_desc_or_sdl',
            'SDL text (Schema node; printer not `unsorted`) with a concrete constraint or index inside a non-empty body',
            'the sort key asserts name.itemclass, which the parser never sets: AssertionError, nothing is printed',
            sig=r'AssertionError:@sort_desc_or_sdl'),
    Finding('C01-create-database-template', 'same-ast', f'{CG}::visit_CreateDatabase', 'CREATE DATABASE x FROM y',
            'the template is not printed', sig=r'CreateDatabase\.template\|ObjectRef>None'),
    Finding('C01-branch-force', 'same-ast', f'{CG}::visit_AlterDatabase / visit_DropDatabase', 'ALTER/DROP BRANCH ... FORCE',
            'FORCE is not printed', sig=r'(AlterDatabase|DropDatabase)\.force\|True>False'),
    Finding('C01-ddl-with-dropped', 'same-ast', f'{CG}::visit_CreateExtension / visit_CreateFuture (no _visit_aliases)',
            'CREATE EXTENSION / CREATE FUTURE with a WITH block', 'the WITH block is not printed',
            sig=r'(CreateExtension|CreateFuture)\.aliases\|list>None'),
    Finding('C01-scalar-final', 'same-ast', f'{CG}::visit_CreateScalarType', 'CREATE FINAL SCALAR TYPE', 'FINAL is not printed',
            sig=r'CreateScalarType\.final\|True>False'),
    Finding('C01-reset-schema-target', 'reparse', f'{CG}::visit_ResetSchema', 'RESET SCHEMA TO <name>',
            'the target ObjectRef is interpolated with str(): `reset schema to <edb.edgeql.ast.ObjectRef object at 0x..>`',
            printed=r'reset schema to <'),
    Finding('C01-create-alias-reset-expr', 'print-error', f'{CG}::visit_CreateAlias', 'CREATE ALIAS x { RESET EXPRESSION }',
            'assert expr is not None fails', sig=r'AssertionError:@visit_CreateAlias'),
    Finding('C01-operator-abstract-commands', 'same-ast', f'{CG}::visit_CreateOperator', 'CREATE ABSTRACT ... OPERATOR with commands',
            'the commands of an abstract operator are not printed', sig=r'CreateOperator\.commands\|list>None'),
    Finding('C01-migration-body-whitespace', 'idem', f'{CG}::visit_CreateMigration / visit_CreateExtensionPackage (body.text)',
            'CREATE MIGRATION / EXTENSION PACKAGE with a non-empty body: printed from the saved source text',
            'second print differs from the first in whitespace only (leading/trailing blanks of the saved text are re-indented each time)',
            sig=r'^ws-only$', feat='nested-ql-block'),
    Finding('C01-migration-body-comment-compact', 'reparse|same-ast|mode-tokens', f'{CG}::visit_CreateMigration (body.text) + common/ast/codegen.py::write (pretty=False)',
            'compact mode; CREATE MIGRATION / EXTENSION PACKAGE whose saved body text contains a `#` comment',
            'newlines of the verbatim text are followed by the closing brace on the same line in compact mode, so the comment swallows `}`',
            feat='nested-ql-block', printed=r'#', modes=r'compact'),
    Finding('C01-splat-type-expr', 'reparse|same-ast', f'{CG}::visit_Splat', 'a splat `T.*` / `T.**` whose type is a parenthesised type expression or carries a type intersection',
            'the type expression is printed bare (`TYPEOF x[is T].**`)', feat='splat-typed', printed=r'\.\*'),
    Finding('C01-function-using-sql-expression', 'reparse', f'{CG}::visit_FunctionCode', 'CREATE FUNCTION ... { USING SQL EXPRESSION }',
            'printed `using sql` with nothing after it', printed=r'using sql\s*;'),
    Finding('C01-for-group-internal', 'reparse|same-ast', f'{CG}::visit_InternalGroupQuery',
            'the text uses the internal `FOR GROUP ... USING ... BY ... IN ... UNION` form (InternalGroupQuery)',
            'result_alias is never printed; `union <expr> order by` is printed without the parentheses / separators the grammar needs',
            feat='internal-group', printed=r'for\s+group'),
    Finding('C01-alias-empty-body', 'reparse', f'{CG}::visit_CreateAlias / _visit_CreateObject',
            'SDL/DDL alias declared with an empty block (`alias Foo { }`), which the parser accepts',
            'printed `alias Foo;`, which the grammar rejects', printed=r'\balias\s+[^\s;{(]+\s*;'),
    Finding('C01-empty-shape', 'idem', f'{CG}::visit_Shape / visit_Path',
            'a Shape with no elements (`Foo { }`; upstream expects it to print as `Foo`)',
            'first print keeps traces of the shape (a trailing blank, or parentheses around it as a path head: `(() ).<x`); the re-parsed tree has no shape and prints without them',
            feat='empty-shape'),
    Finding('C01-ddl-value-statement-bare', 'reparse', f'{CG}::_needs_parentheses (parent is a DDL node -> no parentheses)',
            'a SELECT/INSERT/UPDATE/DELETE/FOR/GROUP/WITH statement directly as an annotation value or an index/constraint argument of a DDL command',
            'printed without the parentheses the grammar requires: `create annotation a := select ...`, `create abstract index i(conf := select ...)`',
            feat='ddl-arg-statement'),
    Finding('C01-describe', 'reparse|same-ast', f'{CG}::visit_DescribeStmt',
            'DESCRIBE OBJECT <name>, DESCRIBE ... CONFIG statements',
            'printed as `describe <name> as DDL` / `describe DATABASE CONFIG as DDL`: rejected, or read back as DESCRIBE SCHEMA/ROLES',
            printed=r'(^|;)\s*describe\b'),
    Finding('C01-typeof-bare', 'reparse|same-ast', f'{CG}::visit_TypeOf', 'a TYPEOF type expression inside a cast `<...>`, in collection subtypes / base type arguments, or as the target type of a pointer / global',
            'printed bare: `<TYPEOF x>y` reads `>` as greater-than; `create link l: TYPEOF x { ... }` reads the block as a shape',
            feat='typeof-in-type-context', printed=r'typeof'),
    Finding('C01-overloaded-optional', 'same-ast', f'{CG}::visit_CreateConcretePointer', 'SDL `overloaded optional <pointer>`',
            'OPTIONAL is not printed after OVERLOADED', sig=r'is_required\|False>None'),
    Finding('C01-operator-code-from-function', 'same-ast', f'{CG}::visit_OperatorCode', 'CREATE OPERATOR ... USING SQL FUNCTION',
            'from_function is printed as `using sql operator`', sig=r'OperatorCode\.from_function'),
    Finding('C01-cast-code', 'same-ast', f'{CG}::visit_CastCode', 'CREATE CAST with both USING SQL FUNCTION and USING SQL <code>', 'the code is dropped',
            sig=r'CastCode\.code\|str>None'),
    Finding('C01-update-empty-set', 'reparse', f'{CG}::visit_UpdateQuery / _visit_shape', 'UPDATE x SET { } (empty shape)',
            'printed `update x set ` with no braces', feat='update-empty-set', printed=r'\bset\s*(;|\)|,|$)'),
    Finding('C01-sdl-constraint-on-without-params', 'same-ast', 'edb/edgeql/parser/grammar/sdl.py (abstract constraint without parameter list ignores ON (...)) + codegen.visit_CreateConstraint (empty parameter list not printed)',
            'SDL `abstract constraint c() on (expr)` with an empty parameter list',
            'printed without `()`; the SDL production without a parameter list discards the ON expression', sig=r'CreateConstraint\.subjectexpr\|.*>None'),
    Finding('C01-config-insert-empty-shape', 'reparse', f'{CG}::visit_ConfigInsert', 'CONFIGURE ... INSERT T { } (empty shape)',
            'printed `configure SESSION insert T;` with no braces', printed=r'configure\s+[^;]*\binsert\s+(?:`[^`]*`|[^\s;{]+)\s*;'),
    Finding('C01-sql-function-name-repr', 'reparse', f'{CG}::visit_CreateFunction / visit_CreateOperator / visit_CreateCast (f"{{from_function!r}}")',
            'USING SQL FUNCTION / OPERATOR name containing a C1 control character (U+0080-009F)',
            "the name is written with Python's repr(): `using sql function 'c1\\x85'`, an escape the lexer rejects (the visit_Constant repair does not cover these sites)",
            feat='string-c1', printed=r"using sql\s+(function|operator)\s*'[^']*\\x[89]"),
]


# one minimal input per finding: replayed first on every run (so a finding that stops reproducing is
# noticed) and quoted in the proposed known_findings.json entries
REPLAYS = {
    'C01-prefix-left-operand': ('fragment', '(-5) ^ 2'),
    'C01-shape-on-prefix': ('fragment', '(<T>x) {a}'),
    'C01-detached-postfix': ('fragment', 'DETACHED (x.y)'),
    'C01-nested-unary-plus': ('fragment', '+ +x'),
    'C01-typecast-required': ('fragment', '<required T>x'),
    'C01-param-backtick': ('fragment', '$`select`'),
    'C01-for-optional': ('fragment', 'FOR OPTIONAL x IN {1} UNION x'),
    'C01-for-iterator-parens': ('block', 'FOR x IN <a>(<optional b>(y)) UNION x'),
    'C01-subtype-label': ('fragment', '<tuple<a: T | U>>x'),
    'C01-alter-empty-body': ('block', 'ALTER ROLE r { }'),
    'C01-partial-reserved-bare': ('block', 'SELECT `union`.age'),
    'C01-collection-type-partial-reserved-bare': ('block', 'select <`union`<int64>>$1;'),
    'C01-free-shape-partial-reserved-bare': ('block', "select { `union` := 'foo' };"),
    'C01-role-base-partial-reserved-bare': ('block', 'create role r extending `union`;'),
    'C01-function-edgeql-code-text': ('block', 'create function f() -> int64 using edgeql $$ select 1 $$;'),
    'C01-function-from-expr-plus-body': ('block', 'create function f() -> int64 { using sql expression; using (1); };'),
    'C01-group-by-partial-reserved-bare': ('block', 'group x by @`union`;'),
    'C01-sdl-link-unknown-pointer-computed-short': ('sdl', 'module default { abstract link l { p { using (1) } } }'),
    'C01-typeop-left-typeof-introspect': ('fragment', 'x is ((typeof introspect T) | U)'),
    'C01-sdl-overloaded-computed': ('sdl', 'module default { type T { overloaded p { using (1) } } }'),
    'C01-sdl-trigger-qualified-name': ('sdl', 'module default { type T { trigger a::b after insert for all do (1) } }'),
    'C01-abstract-index-kwarg-statement-bare': ('block', 'create abstract index i(conf := (select 1)) extending fts;'),
    'C01-operator-returning-typeof-block': ('block', 'create abstract infix operator o(a: int64, b: int64) -> typeof x set a := 1;'),
    'C01-extension-package-migration-to-version': ('block', "create extension package foo migration from version '1.0' to version '2.0';"),
    'C01-drop-extension-version': ('block', "drop extension foo version '1.0';"),
    'C01-operator-multi-using-bare': ('block', "create infix operator std::`||` (a: int64, b: int64) -> int64 { using sql operator '||'; using sql function 'array_cat'; };"),
    'C01-function-from-function-plus-body': ('block', "create function f(a: int64) -> int64 { using sql function 'foo'; using sql $$select 1$$; };"),
    'C01-quoted-ident-bare': ('block', 'DECLARE SAVEPOINT `my name`'),
    'C01-dunder-ident-quoted': ('block', 'DROP DATABASE __edgedbtpl__'),
    'C01-cast-from-space': ('block', 'DROP CAST FROM std::BaseObject TO std::json'),
    'C01-index-match-for-space': ('block', 'CREATE INDEX MATCH FOR std::str USING pg::brin'),
    'C01-config-reset-filter-space': ('block', 'CONFIGURE INSTANCE RESET Foo FILTER .bar = 2'),
    'C01-no-printer': ('block', 'ADMINISTER foo()'),
    'C01-sorted-body-itemclass': ('sdl', 'type default::Foo { property p: str { constraint exclusive; } }'),
    'C01-create-database-template': ('block', 'CREATE DATABASE x FROM y'),
    'C01-branch-force': ('block', 'DROP BRANCH x FORCE'),
    'C01-ddl-with-dropped': ('block', 'WITH MODULE m CREATE FUTURE f'),
    'C01-scalar-final': ('block', 'CREATE FINAL SCALAR TYPE s EXTENDING str'),
    'C01-reset-schema-target': ('block', 'RESET SCHEMA TO x'),
    'C01-create-alias-reset-expr': ('block', 'CREATE ALIAS a { RESET EXPRESSION }'),
    'C01-operator-abstract-commands': ('block', 'CREATE ABSTRACT INFIX OPERATOR std::`>=` (l: anytype, r: anytype) -> std::bool { CREATE ANNOTATION description := "x" }'),
    'C01-migration-body-whitespace': ('block', 'CREATE MIGRATION m1 ONTO m0 { CREATE TYPE Foo; }'),
    'C01-migration-body-comment-compact': ('block', 'CREATE MIGRATION m1 ONTO m0 { CREATE TYPE Foo; # c\n}'),
    'C01-for-group-internal': ('fragment', 'FOR GROUP x USING y := 1 BY y IN g UNION r := g'),
    'C01-alias-empty-body': ('sdl', 'alias default::Foo { }'),
    'C01-empty-shape': ('block', 'SELECT sys::Branch { }'),
    'C01-ddl-value-statement-bare': ('block', 'CREATE TYPE Foo { CREATE ANNOTATION description := (SELECT 1) }'),
    'C01-describe': ('block', 'DESCRIBE OBJECT Foo'),
    'C01-typeof-bare': ('block', 'CREATE TYPE Foo { CREATE LINK l: (TYPEOF x) { SET REQUIRED } }'),
    'C01-overloaded-optional': ('sdl', 'type default::Foo { overloaded optional link l; }'),
    'C01-operator-code-from-function': ('block', "CREATE INFIX OPERATOR std::`++` (l: array<anytype>, r: array<anytype>) -> array<anytype> { USING SQL FUNCTION 'array_cat'; }"),
    'C01-cast-code': ('block', "CREATE CAST FROM std::int64 TO std::json { SET volatility := 'Immutable'; USING SQL FUNCTION 'to_jsonb'; USING SQL $$ SELECT 1 $$; }"),
    'C01-update-empty-set': ('fragment', 'UPDATE Foo SET { }'),
    'C01-sdl-constraint-on-without-params': ('sdl', 'abstract constraint default::c() on (distinct x) { }'),
    'C01-config-insert-empty-shape': ('block', 'CONFIGURE SESSION INSERT Foo { }'),
    'C01-splat-type-expr': ('fragment', 'x { (TYPEOF y).** }'),
    'C01-function-using-sql-expression': ('block', 'CREATE FUNCTION f() -> std::int64 { USING SQL EXPRESSION; }'),
    'C01-sql-function-name-repr': ('block', "CREATE FUNCTION f() -> std::int64 { USING SQL FUNCTION 'c1\x85'; }"),
}


def _prio(fd):
    return 0 if (fd.tag or fd.sig) else (1 if (fd.printed or fd.special) and not fd.feat else 2)


FINDINGS.sort(key=_prio)       # structural / signature predicates first, feature-only predicates last


def classify(case, res, f, listed):
    """-> finding if the failure is a recognised finding whose id is listed in known_findings.json"""
    first = None
    for fd in FINDINGS:
        if fd.matches(case, res, f):
            if fd.id in listed or '*' in listed:
                return fd
            first = first or fd
    return None


# ----------------------------------------------------------------------------- clustering / triage

def fkey(f):
    return (f['kind'], f.get('sig') or '')


def explore(cases):
    lines = [enc_case(e, t) for e, t, _ in cases]
    outs = run_impl('explore', lines)
    return [json.loads(o) if o else {} for o in outs]


def triage(argv):
    """debug helper:  harness/props/c01.py triage [quick|thorough] [max clusters]"""
    tier = argv[0] if argv else 'quick'
    g = load_grammar()
    rnd = lib.rng('C01explore')
    t0 = time.time()
    S = G.GrammarSampler(g)
    edge_targets = coverage_setup(S)
    cases = gen_explore_cases(tier, g, rnd)
    print('generated', len(cases), 'in', round(time.time() - t0, 1))
    t0 = time.time()
    os.makedirs(SCRATCH, exist_ok=True)
    cpath = os.path.join(SCRATCH, f'triage_{tier}.cache.json')
    if os.environ.get('C01_REUSE') and os.path.exists(cpath):
        cases, outs = json.load(open(cpath))
        cases = [tuple(c) for c in cases]
    else:
        outs = explore(cases)
        st = force_coverage(S, lib.rng('C01force'), edge_targets, cases, outs, tier)
        print('forced coverage:', json.dumps({k: v for k, v in st.items() if k != 'unreached_edges'}, indent=1))
        print('unreached edges:', len(st['unreached_edges']))
        json.dump([cases, outs], open(cpath, 'w'))
    print('explored in', round(time.time() - t0, 1))
    acc = sum(o.get('acc', 0) for o in outs)
    prods = set()
    for o in outs:
        prods |= set(o.get('prods', []))
    print('accepted', acc, 'productions', len(prods), '/', len(g['production_names']))
    byorig = collections.Counter()
    accorig = collections.Counter()
    for (e, t, o), r in zip(cases, outs):
        byorig[o.split(':')[0]] += 1
        accorig[o.split(':')[0]] += r.get('acc', 0)
    print({k: (accorig[k], v) for k, v in byorig.items()})
    for (e, t, o), r in zip(cases, outs):
        if r.get('crash'):
            print('PARSER-CRASH', e, repr(t)[:160], r['crash'][:200])
    listed = {e['id'] for e in lib.known_findings(PROP)} | ({'*'} if os.environ.get('C01_ALL_LISTED') else set())
    cl = collections.Counter()
    ex = {}
    known = collections.Counter()
    for case, r in zip(cases, outs):
        for f in r.get('fail', []):
            if f['mode'].startswith('info:'):
                continue
            ms = [fd.id for fd in FINDINGS if fd.matches(case, r, f)]
            fid = next((x for x in ms if x in listed or '*' in listed), None)
            if fid:
                known[fid] += 1
                continue
            k = fkey(f) if not ms else ('matches-unlisted:' + ms[0], f['kind'])
            cl[k] += 1
            if k not in ex or len(case[1]) < len(ex[k][0][1]):
                ex[k] = (case, f)
    print('recognised findings:', dict(known))
    print(len(cl), 'unrecognised failure clusters')
    mx = int(argv[1]) if len(argv) > 1 else 60
    dump = []
    for k, (case, f) in sorted(ex.items(), key=lambda kv: -cl[kv[0]])[:mx]:
        print('==', cl[k], k, '|', f['mode'], case[0], case[2])
        print('     T:', repr(case[1])[:400])
        print('     D:', f['detail'][:300])
        print('     P:', f.get('printed', '')[:300].replace('\n', '\\n'))
        dump.append({'n': cl[k], 'key': k, 'case': case, 'f': f})
    os.makedirs(SCRATCH, exist_ok=True)
    json.dump(dump, open(os.path.join(SCRATCH, 'triage.json'), 'w'), indent=1)


# ----------------------------------------------------------------------------- shrinking

def shrink_text(case, pred, budget=14):
    """greedy token-chunk deletion while pred((entry, text)) holds; candidates evaluated in batches"""
    entry, text = case[0], case[1]
    toks = G.rough_tokens(text)
    if len(toks) > 400:
        return entry, text
    cur = toks
    rounds = 0
    n = 2
    while len(cur) >= 2 and rounds < budget:
        rounds += 1
        size = max(1, len(cur) // n)
        cands = []
        for i in range(0, len(cur), size):
            c = cur[:i] + cur[i + size:]
            if c:
                cands.append(c)
        texts = [G.join_tokens(c) for c in cands][:64]
        oks = pred([(entry, t) for t in texts])
        hit = next((i for i, ok in enumerate(oks) if ok), None)
        if hit is not None:
            cur = cands[hit]
            n = max(n - 1, 2)
        elif size == 1:
            break
        else:
            n = min(len(cur), n * 2)
    return entry, G.join_tokens(cur)


def same_failure_pred(f0):
    key = (f0['kind'], f0.get('sig'))

    def pred(cases):
        outs = explore([(e, t, 'shrink') for e, t in cases])
        res = []
        for (e, t), r in zip(cases, outs):
            ok = False
            for f in r.get('fail', []):
                if f['mode'] == f0['mode'] and (f['kind'], f.get('sig')) == key:
                    if not any(fd.matches((e, t, 'shrink'), r, f) for fd in FINDINGS):
                        ok = True
            res.append(ok)
        return res
    return pred


# ----------------------------------------------------------------------------- core correspondence

THEOREMS = ['C01_roundtrip', 'C01_image_wf', 'C01_roundtrip_wf', 'C01_idempotent', 'C01_in_context', 'C01_lex_stable']
REFUTED = ['C01_roundtrip_refuted', 'C01_empty_shape_path_refuted']


def gen_core_cases(tier, rnd, nops):
    thorough = tier == 'thorough'
    terms = []
    # exhaustive small scope: every operator at the root with every prefix form / postfix form as either operand
    leaves = ['R - 0 0', 'C i 0 1', 'C i 1 3']
    pre = ['U - R - 0 0', 'U + R - 0 0', 'U N R - 0 0', 'U E R - 0 0', 'U D R - 0 0', 'T 0 n - 7 R - 0 0', 'T 2 n - 7 R - 0 0', 'A R - 0 0',
           'C i 1 3', 'C i 2 3', 'R - 0 1 p 0 1', 'D 1 R - 0 0 0 C i 0 1 _', 'H R - 0 0 1 4 _', 'U - U - R - 0 0',
           'T 0 n - 7 U - R - 0 0', 'A U N R - 0 0', 'U - A R - 0 0', 'I 0 R - 0 0 n - 7', 'F 1 R - 0 0 R - 1 0 R - 2 0']
    for o in range(nops):
        for a in pre + leaves:
            terms.append(f'B {o} {a} R - 1 0')
            terms.append(f'B {o} R - 1 0 {a}')
    for a in pre:
        for b in pre:
            if b.split()[0] in 'UTA':
                # prefix over prefix: replace the innermost operand
                terms.append(a.replace('R - 0 0', b, 1) if 'R - 0 0' in a else a)
        terms += [f'H {a} 1 4 _', f'I 0 {a} n - 7', f'I 1 {a} c - 23 1 n - 7', f'F 1 R - 1 0 {a} R - 2 0',
                  f'F 0 R - 1 0 R - 2 0 {a}', f'F 1 R - 1 0 R - 2 0 {a}', f'A {a}', f'T 1 n - 7 {a}', f'T 2 n - 7 {a}', f'X {a} 1 p 0 4'
                  if a[0] not in 'RQX' else f'A {a}', f'D 1 {a} 0 C i 0 1 _' if a[0] != 'D' else f'A {a}',
                  f'S T 1 {a}', f'K - 10 1 {a} 1 20 {a}', f'N 1 5 {a}']
    n = 40000 if thorough else 2000
    for _ in range(n):
        terms.append(G.g_term(rnd, rnd.randint(1, 6 if thorough else 4), nops, image=rnd.random() < 0.9))
    seen, out = set(), []
    for t in terms:
        if t not in seen:
            seen.add(t)
            out.append(t)
    return out


def nontrivial_term(t):
    toks = t.split()
    nops = sum(1 for x in toks if x in ('B', 'U', 'I', 'F', 'T', 'A', 'D', 'H', 'X'))
    quoting = any(x in ('13', '14', '15', '16', '17', '22', '28', '29') for x in toks)   # names that need quoting
    return nops >= 2 or quoting


def run_core(rep, tier, exe, man):
    """model vs real printer / parser on generated trees and texts.  -> dict of results"""
    rnd = lib.rng('C01core')
    nops = len(man['operators'])
    terms = gen_core_cases(tier, rnd, nops)
    res = {'terms': len(terms)}
    real = [json.loads(x) for x in run_impl('core', [json.dumps({'k': 'pp', 'x': t}) for t in terms])]
    mod = lib.run_model(exe, ['pp ' + t for t in terms])
    dis = []          # model/impl disagreements (broken tie)
    mon = []          # monitor failures on the real code: wf tree that does not round-trip
    st = collections.Counter()
    for t, r, m in zip(terms, real, mod):
        parts = [x.strip() for x in m.split('|')]
        if len(parts) != 5:
            dis.append({'term': t, 'what': 'model driver: ' + m})
            continue
        mi, mb, mf, mwf, mimg = parts
        if r.get('err'):
            dis.append({'term': t, 'what': 'real printer raised ' + r['err']})
            continue
        st['wf' if mwf == '1' else 'not-wf'] += 1
        st['image' if mimg == '1' else 'not-image'] += 1
        if mimg == '1' and mwf != '1':
            dis.append({'term': t, 'what': 'image holds but wf does not (contradicts C01_image_wf)'})
        if mf == '1':
            if r['items'] != mi:
                dis.append({'term': t, 'what': 'printed tokens / spacing differ', 'text': r['text'], 'real': r['items'], 'model': mi})
            elif r['back'] != mb:
                dis.append({'term': t, 'what': 're-parse differs', 'text': r['text'], 'real': r['back'], 'model': mb})
        else:
            st['model-says-fuse'] += 1
            if r['items'] == mi:
                dis.append({'term': t, 'what': 'model predicts fused tokens, the real lexer reads them apart', 'text': r['text']})
        if not r.get('pretty_same_tokens') or not r.get('pretty_same_spacing'):
            mon.append({'term': t, 'what': 'pretty and compact print differ in tokens or in where white space separates tokens',
                        'text': r.get('text')})
        if mimg == '1':
            if mf != '1':
                mon.append({'term': t, 'what': 'parser-shaped tree whose printed tokens can fuse (model no_fuse = false)',
                            'text': r.get('text')})
            if r['back'] != t:
                mon.append({'term': t, 'what': 'parser-shaped tree (image) does not round-trip on the real code',
                            'text': r['text'], 'reparsed': r['back']})
            if r.get('back_pretty') != t:
                mon.append({'term': t, 'what': 'parser-shaped tree (image) does not round-trip through the pretty printer',
                            'text': r['text'], 'reparsed': r.get('back_pretty')})
        elif mb != t and r['back'] == t:
            st['model-fails-real-ok'] += 1
    res.update({'disagreements': dis, 'monitor': mon, 'stats': dict(st)})
    # parser agreement on arbitrary core texts
    ntext = 30000 if tier == 'thorough' else 2000
    texts = [G.core_text(rnd, rnd.randint(1, 5 if tier == 'thorough' else 4), rnd.choice([0, .2, .5])) for _ in range(ntext)]
    texts = list(dict.fromkeys(texts))
    realp = [json.loads(x) for x in run_impl('core', [json.dumps({'k': 'parse', 't': t}) for t in texts])]
    idx = [i for i, r in enumerate(realp) if not r['items'].startswith('LEXERR') and '?' not in r['items']]
    modp = lib.run_model(exe, ['parse ' + ' '.join(x for x in realp[i]['items'].split() if x != '_') for i in idx])
    pst = collections.Counter()
    pdis = []
    sym = man['symbols']
    y_not, y_like, y_ilike = f'y{sym["NOT"]}', f'y{sym["LIKE"]}', f'y{sym["ILIKE"]}'
    y_open = {f'y{sym[k]}' for k in ('LPAREN', 'LBRACKET', 'LBRACE')}
    y_close = {f'y{sym[k]}' for k in ('RPAREN', 'RBRACKET', 'RBRACE')}

    def not_like_chain(items):
        """`x NOT [I]LIKE y` followed at the same nesting depth by LIKE / ILIKE / NOT: the only inputs on which the
        substrate's LR table may differ from upstream's (harness/rt/STATUS.md: 6 cells)"""
        toks = [x for x in items.split() if x != '_']
        for i in range(len(toks) - 1):
            if toks[i] == y_not and toks[i + 1] in (y_like, y_ilike):
                d = 0
                for t in toks[i + 2:]:
                    if t in y_open:
                        d += 1
                    elif t in y_close:
                        d -= 1
                        if d < 0:
                            break
                    elif d == 0 and t in (y_not, y_like, y_ilike):
                        return True
        return False
    for i, m in zip(idx, modp):
        r = realp[i]
        if r['back'].startswith('UNSUPPORTED'):
            pst['outside-core'] += 1
            continue
        if not_like_chain(r['items']):
            pst['excluded-not-like-chain'] += 1
            continue
        pst['accepted' if r['back'] != 'FAIL' else 'rejected'] += 1
        if r['back'] != m:
            pdis.append({'text': texts[i], 'real': r['back'], 'model': m})
    # every tree the real parser produces for a core text is inside [image], unless it has an empty shape
    # (the class of C01_roundtrip is the whole parser image minus the documented `x {}` normalisation)
    outs = sorted({realp[i]['back'] for i, m in zip(idx, modp)
                   if realp[i]['back'] == m and not m.startswith(('FAIL', 'UNSUPPORTED'))})
    flags_of = []
    for t in outs:
        fl = {}
        try:
            coq_term(t, fl)
        except Exception as ex:  # noqa: BLE001
            pdis.append({'text': t, 'real': 'unreadable term: %r' % (ex,), 'model': ''})
            fl = {'empty_shape': True}
        flags_of.append(fl)
    img = lib.run_model(exe, ['pp ' + t for t in outs])
    for t, fl, m in zip(outs, flags_of, img):
        parts = [x.strip() for x in m.split('|')]
        inimg = len(parts) == 5 and parts[4] == '1'
        if fl.get('empty_shape'):
            pst['parsed-tree-with-empty-shape'] += 1
            if inimg:
                pdis.append({'text': t, 'real': 'tree with an empty shape', 'model': 'image = true'})
        else:
            pst['parsed-tree-in-image' if inimg else 'parsed-tree-outside-image'] += 1
            if not inimg:
                pdis.append({'text': t, 'real': 'tree produced by the real parser', 'model': 'image = false (class of C01_roundtrip too small)'})
            elif len(parts) == 5 and parts[1] != t:
                pdis.append({'text': t, 'real': 'tree produced by the real parser', 'model': 'image but model round trip gives ' + parts[1]})
    res.update({'texts': len(texts), 'texts_compared': pst['accepted'] + pst['rejected'], 'parse_stats': dict(pst),
                'parse_disagreements': pdis})
    # lexical adjacency table vs the real lexer
    reps = {}
    for name, sid in man['symbols'].items():
        reps[f'y{sid}'] = man['symbol_text'][name]
    reps.update({'i0': 'x', 'i13': '`my name`', 'ni1': '1', 'nf0': '1.5', 'nf2': '1e10', 'nn0': '1n', 'nd0': '1.5n',
                 's0': "'abc'", 's1': '"abc"', 's2': "r'abc'", 's3': '$$abc$$', 'b0': "b'ab'", 'p0': '$x', 'p1': '$0'})
    keys = sorted(reps)
    pairs = [(a, b) for a in keys for b in keys]
    fz = lib.run_model(exe, [f'fuse {a} {b}' for a, b in pairs])
    lx = [json.loads(x) for x in run_impl('lexpairs', [json.dumps({'a': reps[a], 'b': reps[b]}) for a, b in pairs])]
    unsound, conservative = [], 0
    for (a, b), f, l in zip(pairs, fz, lx):
        if f == '0' and not l['ok']:
            unsound.append({'a': reps[a], 'b': reps[b]})
        if f == '1' and l['ok']:
            conservative += 1
    res.update({'lex_pairs': len(pairs), 'lex_unsound': unsound, 'lex_conservative': conservative})
    res['samples'] = [terms[i] for i in (0, len(terms) // 2, len(terms) - 1)]
    res['distinct_nontrivial'] = len({t for t in terms if nontrivial_term(t)})
    res['exe_terms'] = terms
    res['model_lines'] = mod
    return res


def coq_term(t, flags=None):
    """prefix notation -> Coq term of Model.expr; flags['empty_shape'] is set when the term has a shape without elements"""
    toks = t.split()
    pos = [0]

    def nxt():
        v = toks[pos[0]]
        pos[0] += 1
        return v

    def on(v):
        return 'None' if v == '-' else f'(Some {v}%N)'

    def typ():
        k = nxt()
        m, n = nxt(), nxt()
        if k == 'n':
            return f'(TyName {on(m)} {n}%N)'
        cnt = int(nxt())
        return f'(TyColl {on(m)} {n}%N [{"; ".join(typ() for _ in range(cnt))}])'

    def step():
        k = nxt()
        if k == 'p':
            bw = nxt()
            return f'(SPtr {"true" if bw == "1" else "false"} {nxt()}%N)'
        if k == 'a':
            return f'(SAt {nxt()}%N)'
        return f'(SIs {typ()})'

    def opt():
        if toks[pos[0]] == '_':
            pos[0] += 1
            return 'None'
        return f'(Some {ex()})'

    def nat(n):
        return str(n)

    def ex():
        k = nxt()
        if k == 'C':
            kind, nneg, v = nxt(), nxt(), nxt()
            ck = {'s': 'CStr', 'b': 'CBytes', 't': 'CBool', 'i': '(CNum KInt)', 'f': '(CNum KFloat)',
                  'n': '(CNum KBigInt)', 'd': '(CNum KDecimal)'}[kind]
            return f'(EConst {ck} {nat(nneg)} {v}%N)'
        if k == 'P':
            return f'(EParam {nxt()}%N)'
        if k == 'R':
            m, n, cnt = nxt(), nxt(), int(nxt())
            return f'(EPathRef {on(m)} {n}%N [{"; ".join(step() for _ in range(cnt))}])'
        if k == 'Q':
            cnt = int(nxt())
            return f'(EPathPartial [{"; ".join(step() for _ in range(cnt))}])'
        if k == 'X':
            e = ex()
            cnt = int(nxt())
            return f'(EPathExpr {e} [{"; ".join(step() for _ in range(cnt))}])'
        if k == 'U':
            o = {'+': 'UPlus', '-': 'UMinus', 'N': 'UNot', 'E': 'UExists', 'D': 'UDistinct'}[nxt()]
            return f'(EUn {o} {ex()})'
        if k == 'B':
            o = nxt()
            l = ex()
            return f'(EBin {o}%N {l} {ex()})'
        if k == 'I':
            neg = nxt()
            l = ex()
            return f'(EIs {"true" if neg == "1" else "false"} {l} {typ()})'
        if k == 'F':
            py = nxt()
            c, a, b = ex(), ex(), ex()
            return f'(EIf {"true" if py == "1" else "false"} {c} {a} {b})'
        if k == 'S':
            kind, cnt = nxt(), int(nxt())
            return f'(ESeq {dict(T="QTuple", A="QArray", S="QSet")[kind]} [{"; ".join(ex() for _ in range(cnt))}])'
        if k == 'N':
            cnt = int(nxt())
            fs = []
            for _ in range(cnt):
                n = nxt()
                fs.append(f'({n}%N, {ex()})')
            return f'(ENamedTuple [{"; ".join(fs)}])'
        if k == 'K':
            m, f, ka = nxt(), nxt(), int(nxt())
            args = [ex() for _ in range(ka)]
            kk = int(nxt())
            kw = []
            for _ in range(kk):
                n = nxt()
                kw.append(f'({n}%N, {ex()})')
            return f'(ECall {on(m)} {f}%N [{"; ".join(args)}] [{"; ".join(kw)}])'
        if k == 'T':
            o = nxt()
            t_ = typ()
            return f'(ECast {dict(zip("012", ("CNone", "COpt", "CReq")))[o]} {t_} {ex()})'
        if k == 'D':
            cnt = int(nxt())
            e = ex()
            ixs = []
            for _ in range(cnt):
                sl = nxt()
                a, b = opt(), opt()
                ixs.append(f'({"true" if sl == "1" else "false"}, {a}, {b})')
            return f'(EIndir {e} [{"; ".join(ixs)}])'
        if k == 'A':
            return f'(EDetached {ex()})'
        if k == 'G':
            m = nxt()
            return f'(EGlobal {on(m)} {nxt()}%N)'
        if k == 'H':
            e = ex()
            cnt = int(nxt())
            if cnt == 0 and flags is not None:
                flags['empty_shape'] = True
            els = []
            for _ in range(cnt):
                n = nxt()
                els.append(f'({n}%N, {opt()})')
            return f'(EShape {e} [{"; ".join(els)}])'
        raise ValueError(k)
    return ex()


# ----------------------------------------------------------------------------- run

def run(tier):
    rep = lib.Report(PROP, tier, 'proof')
    thorough = tier == 'thorough'
    t_start = time.time()
    sys.path.insert(0, os.path.join(lib.VERIF, 'harness', 'translate'))
    import c01_grammar
    tr_ok, tr_msg, man = c01_grammar.regenerate(lib.REPO, lib.COQ)
    pf = {'ok': False, 'broken': ['translator failed closed: ' + tr_msg], 'log': ''}
    exe, blog = None, ''
    if tr_ok:
        pf = lib.proof_stage(rep, 'C01', THEOREMS, extra_targets=['theories/C01/Refuted.vo'], thorough=thorough)
        exe, blog = lib.build_model('c01', 'ExtractC01.v', 'c01_main.ml', 'C01_ext')
    else:
        rep.coverage.update({'obligations': len(THEOREMS), 'discharged': 0,
                             'checker_cmd': 'harness/translate/c01_grammar.py failed closed: ' + tr_msg})
    listed = {e['id'] for e in lib.known_findings(PROP)}

    phases = {'proof+build': round(time.time() - t_start, 1)}
    # ---- core correspondence (model vs real code)
    core = None
    t_ph = time.time()
    if exe and man:
        core = run_core(rep, tier, exe, man)
    phases['core'] = round(time.time() - t_ph, 1)
    t_ph = time.time()

    # ---- Coq-internal evaluation of a sample (guards extraction)
    coq_diff, n_coq = [], 0
    if core is not None:
        rnd = lib.rng('C01coq')
        terms = core['exe_terms']
        idx = sorted(rnd.sample(range(len(terms)), min(400 if thorough else 120, len(terms))))
        idx = [i for i in idx if len(terms[i]) < 600]
        exprs = []
        for i in idx:
            ct = coq_term(terms[i])
            exprs.append(f'(wf {ct}, image {ct}, no_fuse (pp_items {ct}), match parse (pp {ct}) with Some e => if wf e then 1 else 2 | None => 0 end)%nat')
        try:
            outs = lib.coq_eval('C01', 'From Coq Require Import List NArith Bool. Import ListNotations.\n'
                                       'From Verif.C01 Require Import Gen_Grammar Model.', exprs, timeout=900)
            n_coq = len(outs)
            for i, o in zip(idx, outs):
                parts = [x.strip() for x in core['model_lines'][i].split('|')]
                mb, mf, mwf, mimg = parts[1], parts[2], parts[3], parts[4]
                flags = re.findall(r'true|false', o)
                num = re.findall(r'\b([012])\b', o.split(',')[-1])
                ok = (len(flags) >= 3 and flags[0] == ('true' if mwf == '1' else 'false')
                      and flags[1] == ('true' if mimg == '1' else 'false')
                      and flags[2] == ('true' if mf == '1' else 'false')
                      and bool(num) and ((num[0] == '0') == (mb == 'FAIL')))
                if not ok:
                    coq_diff.append({'term': terms[i], 'coq': o, 'extracted': core['model_lines'][i][-200:]})
        except RuntimeError as e:
            coq_diff.append({'error': str(e)[-1500:]})

    phases['coq_eval'] = round(time.time() - t_ph, 1)
    t_ph = time.time()
    # ---- exploration on the real code
    g = load_grammar()
    rnd = lib.rng('C01explore')
    S = G.GrammarSampler(g)
    edge_targets = coverage_setup(S)
    cases = gen_explore_cases(tier, g, rnd)
    replay_cases = [(REPLAYS[k][0], REPLAYS[k][1], 'finding-replay:' + k) for k in REPLAYS]
    cases = replay_cases + cases
    outs = explore(cases)
    phases['exploration-first-pass'] = round(time.time() - t_ph, 1)
    # productions / optional clauses no accepted text has used yet are forced (adaptive rounds)
    forced = force_coverage(S, lib.rng('C01force'), edge_targets, cases, outs, tier)

    phases['exploration'] = round(time.time() - t_ph, 1)
    t_ph = time.time()
    acc = sum(o.get('acc', 0) for o in outs)
    prods = set()
    pairs = set()
    nodes = set()
    for o in outs:
        prods |= set(o.get('prods', []))
        pairs |= set(o.get('pairs', []))
        nodes |= set(o.get('nodes', []))
    byorig, accorig = collections.Counter(), collections.Counter()
    entry_acc = collections.Counter()
    depth_hist = collections.Counter()
    rej_kinds = collections.Counter()
    crashes = []
    for (e, t, o), r in zip(cases, outs):
        oo = o.split(':')[0]
        byorig[oo] += 1
        accorig[oo] += r.get('acc', 0)
        if r.get('acc'):
            entry_acc[e] += 1
            depth_hist[min(r.get('depth', 0) // 5 * 5, 40)] += 1
        elif r.get('crash'):
            crashes.append({'entry': e, 'text': t[:300], 'error': r['crash']})
        else:
            rej_kinds[re.sub(r"'[^']*'", "'..'", r.get('rej', ''))[:40]] += 1
    known = collections.Counter()
    info = collections.Counter()
    unrec = []
    mode_checks = collections.Counter()
    for case, r in zip(cases, outs):
        if r.get('acc'):
            for mname in ('pretty', 'compact', 'upper', 'upper-compact'):
                mode_checks[mname] += 1
        for f in r.get('fail', []):
            if f['mode'].startswith('info:'):
                info[f['mode'] + ' ' + f['kind']] += 1
                continue
            fd = None
            for cand in FINDINGS:                      # a failure is downgraded when ANY listed predicate holds of it;
                if cand.matches(case, r, f):           # otherwise the first (most specific) recognised one names it
                    if fd is None:
                        fd = cand
                    if cand.id in listed:
                        fd = cand
                        break
            if fd is not None and fd.id in listed:
                known[fd.id] += 1
            else:
                unrec.append((case, r, f, fd))
    not_reproduced = []
    for (e, t, o), r in zip(replay_cases, outs[:len(replay_cases)]):
        fid = o.split(':', 1)[1]
        hit = any((not f['mode'].startswith('info:')) and any(fd.id == fid and fd.matches((e, t, o), r, f) for fd in FINDINGS)
                  for f in r.get('fail', []))
        if not hit and fid in listed:
            not_reproduced.append(fid)

    # ---- verdict
    for fid, n in sorted(known.items()):
        fd = next(x for x in FINDINGS if x.id == fid)
        rep.known_finding(fid, f'{fd.what} [{n} failing (case, mode) pairs this run]')
    clusters = {}
    for case, r, f, fd in unrec:
        k = ((fd.id if fd else None), f['kind'], f.get('sig') if fd is None else '')
        if k not in clusters or len(case[1]) < len(clusters[k][0][1]):
            clusters[k] = (case, r, f, fd)
    for k, (case, r, f, fd) in sorted(clusters.items(), key=lambda kv: len(kv[1][0][1]))[:5]:
        small = (case[0], case[1])
        if fd is None:
            try:
                small = shrink_text(case, same_failure_pred(f))
            except Exception:
                small = (case[0], case[1])
        r2 = explore([(small[0], small[1], 'shrunk')])[0]
        f2 = next((x for x in r2.get('fail', []) if x['kind'] == f['kind'] and x['mode'] == f['mode']), f)
        what = {'reparse': 'the printed text is rejected by the parser',
                'same-ast': 'the printed text parses to a different program',
                'idem': 'printing the re-parsed program gives different text',
                'print-error': 'the printer raises on a program the parser accepted',
                'mode-tokens': 'printer modes disagree beyond white space / keyword case'}[f['kind']]
        if fd is not None:
            what += f' (matches finding {fd.id}, which is not listed in known_findings.json)'
        rep.violation(f'{what}: entry={small[0]} mode={f["mode"]}',
                      {'case': enc_case(small[0], small[1]), 'original_case': enc_case(case[0], case[1]),
                       'mode': f['mode'], 'monitor': f['kind'], 'printed': f2.get('printed'), 'detail': f2.get('detail'),
                       'signature': f.get('sig'), 'origin': case[2],
                       'how': f'PYTHONPATH={lib.REPO}:harness /venv/bin/python harness/impl/c01_impl.py {lib.REPO} explore <<< case'})
    if core is not None:
        for m in core['monitor'][:2]:
            rep.violation('core monitor on the real code: ' + m['what'], {'case': json.dumps({'k': 'pp', 'x': m['term']}), **m})
        for u in core['lex_unsound'][:2]:
            rep.violation('lexical adjacency table of the model is unsound for the real lexer (model: tokens may touch; '
                          'lexer: they fuse)', {'broken': 'Model.fuses vs tokenizer.rs', **u}, False)
    broken = []
    if not rep.violations:
        if not tr_ok:
            broken.append('translator failed closed: ' + tr_msg)
        elif exe is None:
            broken.append('model does not build: ' + blog[-800:])
        else:
            if core['disagreements']:
                d = min(core['disagreements'], key=lambda x: len(x['term']))
                rep.violation(f'correspondence broken: model and real printer/parser disagree on {len(core["disagreements"])} of '
                              f'{core["terms"]} trees; no monitor failed', {'broken': 'Model.pp_items / Model.parse vs codegen.py / parser',
                                                                             'case': json.dumps({'k': 'pp', 'x': d['term']}), **d}, False)
            if core['parse_disagreements']:
                d = min(core['parse_disagreements'], key=lambda x: len(x['text']))
                rep.violation(f'correspondence broken: model parser and real parser disagree on {len(core["parse_disagreements"])} of '
                              f'{core["texts_compared"]} core texts', {'broken': 'Model.parse vs the LR tables of the grammar',
                                                                       'case': json.dumps({'k': 'parse', 't': d['text']}), **d}, False)
            if coq_diff:
                rep.violation('extracted model disagrees with vm_compute inside Coq', {'broken': 'extraction', **coq_diff[0]}, False)
            if not pf['ok']:
                broken += pf['broken']
        if broken:
            rep.violation('proof obligations / translator no longer check: ' + '; '.join(broken[:6]),
                          {'broken': broken, 'log_tail': pf.get('log', '')[-3000:]}, False)
    if not_reproduced:
        rep.notes.append('known findings whose replay no longer fails (repaired?): ' + ', '.join(sorted(not_reproduced)))

    # ---- evidence
    accepted_hashes = {o['h'] for o in outs if o.get('acc')}
    nontriv = {o['h'] for (e, t, _), o in zip(cases, outs)
               if o.get('acc') and (o.get('nops', 0) >= 2 or '`' in t)}
    rep.coverage.update({
        'evaluations': len(cases) + (core['terms'] + core['texts'] + core['lex_pairs'] if core else 0),
        'distinct_nontrivial': len(nontriv) + (core['distinct_nontrivial'] if core else 0),
        'rule': 'exploration: upstream syntax corpora, operator-pair scope (every outer x inner operator x position, bare and '
                'parenthesised), random core expressions, production-targeted and free derivations from the repo grammar, '
                'standard-library statements, token-level mutation/recombination, migration/extension bodies, malformed stream; '
                'non-trivial = accepted text whose tree has >= 2 operator nodes or that contains a quoted identifier; distinct = '
                'distinct canonical tree.  core: trees of the Coq model (exhaustive operator x prefix/postfix scope + random); '
                'non-trivial = >= 2 operator nodes or a name that needs quoting; distinct = distinct term',
        'exhaustive': False,
        'exhaustive_subspaces': ['operator-pair texts: every (outer, inner, position) of binary/IS/IF-ELSE/prefix/postfix forms, bare and parenthesised',
                                 'core trees: every binary operator with every prefix/postfix form as left and as right operand'],
        'samples': [{'entry': cases[i][0], 'text': cases[i][1][:300], 'origin': cases[i][2]}
                    for i in (len(replay_cases), len(cases) // 3, len(cases) // 2, len(cases) - 1)]
                   + ([{'core_term': x} for x in core['samples']] if core else []),
        'traces_validated_against_impl': (core['terms'] + core['texts_compared']) if core else 0,
        'model_vs_impl_disagreements': (len(core['disagreements']) + len(core['parse_disagreements'])) if core else None,
        'coq_vm_compute_cross_checked': n_coq,
        'core': {k: v for k, v in (core or {}).items() if k in ('terms', 'texts', 'texts_compared', 'stats', 'parse_stats',
                                                                 'lex_pairs', 'lex_conservative')},
        'core_lex_unsound_pairs': len(core['lex_unsound']) if core else None,
        'exploration': {
            'label': 'exploration (real code only; not proof)',
            'texts': len(cases), 'accepted': acc, 'accepted_by_entry': dict(entry_acc),
            'generated_by_origin': dict(byorig), 'accepted_by_origin': dict(accorig),
            'productions_reached': len(prods), 'productions_total': len(g['production_names']),
            'forced_coverage': forced,
            'operator_pairs_reached': len(pairs), 'ast_node_classes_reached': len(nodes),
            'tree_depth_histogram': {str(k): v for k, v in sorted(depth_hist.items())},
            'rejection_kinds_top': dict(rej_kinds.most_common(8)),
            'printer_mode_checks': dict(mode_checks),
            'known_finding_hits': dict(known),
            'informational_descmode_failures': dict(info),
            'parser_crashes': crashes[:5], 'parser_crash_count': len(crashes),
            'unrecognised_failure_clusters': len(clusters),
            'normalisations': 'N1 {USING e} == := e; N2 empty shape == subject; N3 ONTO initial == no parent; N4 kind lists are sets; '
                              'N5 SDL body order (sorted printer); N6 rewrite name derived from kinds (see harness/impl/c01_impl.py)',
            'excluded': 'nothing is excluded from the exploration: every text is judged by what the substrate parser accepts, and the '
                        'printer parenthesises every binary operator, so a printed text never contains an unparenthesised '
                        '`a NOT LIKE b LIKE c` chain (the only inputs on which the substrate LR table may differ from upstream, 6 cells); '
                        'in the model-parser agreement such chains are excluded from alarms and counted '
                        '(core.parse_stats.excluded-not-like-chain)',
        },
        'gen_manifest': man and {k: man[k] for k in ('sources', 'operators', 'levels')},
        'refutation_theorems': REFUTED,
        'trusted_base': [
            'Coq 8.16.1 kernel (coqc; coqchk in the thorough tier); vm_compute only for witnesses / examples / table facts',
            'extraction: ExtrOcamlBasic only; OCaml 4.13.1; ocaml/conv.ml + c01_main.ml (cross-checked by vm_compute on a sample)',
            'translator harness/translate/c01_grammar.py (fail-closed; precedence classes, token texts, operator productions)',
            'correspondence harness harness/props/c01.py + c01_gen.py + harness/impl/c01_impl.py (generators, term <-> qlast '
            'conversion, canonical AST comparison with the documented normalisations N1-N6, finding predicates)',
            'runtime substrate harness/rt (real Rust lexer; own LR(1) tables for the repo grammar; real reduce_* methods)',
            'modelled, not verified: the LR engine (substitute), spelling of identifiers / literals (C18), the printer outside '
            'the expression core (covered by exploration only)',
        ],
    })
    rep.assumptions = [
        'leaves (identifier / literal / parameter spellings) are abstract in the model; their quoting is C18',
        'Model.fuses over-approximates token fusion; swept against the real lexer on every pair of representatives',
        'the statement layer (SELECT/INSERT/..., DDL, SDL, migrations, config, describe) is exploration on the real code, not proof',
    ]
    phases['verdict+shrink'] = round(time.time() - t_ph, 1)
    rep.coverage['phase_seconds'] = phases
    return rep.finish()


def replay(path):
    d = json.load(open(path))
    rp = d.get('replay', d)                       # violation replay file, or a corpus file {"case": ...}
    case = rp.get('case') or rp.get('original_case')
    c = json.loads(case)
    if 'e' in c:
        print('case :', case)
        r = json.loads(run_impl('explore', [case])[0])
        print('accepted:', r.get('acc'), r.get('rej') or r.get('crash') or '')
        print('printed (compact):', r.get('out'))
        for f in r.get('fail', []):
            print(' ', f['mode'], f['kind'], f.get('sig'), '|', (f.get('detail') or '')[:300])
            if f.get('printed'):
                print('      printed:', f['printed'][:300].replace('\n', '\\n'))
        return 0
    exe, _ = lib.build_model('c01', 'ExtractC01.v', 'c01_main.ml', 'C01_ext')
    r = json.loads(run_impl('core', [case])[0])
    print('case :', case)
    print('impl :', r)
    if exe:
        if c['k'] == 'pp':
            print('model:', lib.run_model(exe, ['pp ' + c['x']])[0])
        else:
            print('model:', lib.run_model(exe, ['parse ' + ' '.join(x for x in r['items'].split() if x != '_')])[0])
    return 0


if __name__ == '__main__':
    if len(sys.argv) > 1 and sys.argv[1] == 'triage':
        triage(sys.argv[2:])
    elif len(sys.argv) > 1 and sys.argv[1] == 'findings':
        print(json.dumps([fd.entry() for fd in FINDINGS], indent=1))
    elif len(sys.argv) > 1 and sys.argv[1] == 'replays':
        load_grammar()
        cases = [(REPLAYS[k][0], REPLAYS[k][1], k) for k in REPLAYS]
        outs = explore(cases)
        for c, r in zip(cases, outs):
            got = set()
            for f in r.get('fail', []):
                if f['mode'].startswith('info:'):
                    continue
                for fd in FINDINGS:
                    if fd.matches(c, r, f):
                        got.add(fd.id)
                        break
                else:
                    got.add('UNRECOGNISED:' + f['kind'] + ':' + str(f.get('sig')))
            print('ok ' if c[2] in got else 'BAD', c[2], 'acc=%s' % r.get('acc'), r.get('rej', ''), sorted(got - {c[2]}))
