"""C01 -- EdgeQL text survives a print / re-parse round trip.

Two layers (DESIGN.md section 4, C01):

  (1) proof      coq/theories/C01: tokens, the expression core, `pp` mirroring the visit_* methods of
                 edb/edgeql/codegen.py, a precedence-climbing `parse` driven by Gen_Grammar.v (translated
                 fail-closed from precedence.py / expressions.py / tokens.py); theorems C01_roundtrip,
                 C01_idempotent, C01_lex_stable (+ Refuted.v witnesses for the printer's defects).
                 Tie: correspondence -- model pp vs real generate_source, model parse vs real parser.
  (2) exploration (real code only): grammar-driven derivations from the repo's own productions,
                 upstream syntax corpora, mutation / recombination, operator-pair scope; for every accepted
                 text and every printer mode: parse -> print -> parse -> same AST -> print byte-identical.
"""
from __future__ import annotations

import collections
import hashlib
import json
import os
import re
import sys
import time

import lib

sys.path.insert(0, os.path.dirname(os.path.abspath(__file__)))
import c01_gen as G  # noqa: E402

PROP = 'C01'
IMPL = os.path.join(lib.VERIF, 'harness', 'impl', 'c01_impl.py')
SCRATCH = os.path.join(lib.CACHE, 'c01')


# ----------------------------------------------------------------------------- running the real code

def run_impl(mode, lines, nproc=16):
    return lib.parallel_lines([lib.PY, IMPL, lib.REPO, mode], lines, nproc=nproc, env=lib.impl_env())


def enc_case(entry, text):
    return json.dumps({'e': entry, 't': text})


def load_grammar():
    rc, out, err = lib.impl_python(IMPL, [lib.REPO, 'grammar'], extra_env={'VRT_REPO': lib.REPO, 'VERIF_REPO': lib.REPO})
    if rc != 0:
        raise RuntimeError('grammar dump failed:\n' + err[-3000:])
    g = json.loads(out)
    KEYWORDS.clear()
    KEYWORDS.update(kw for tn, kw in g['kwtext'].items() if g['kwtype'].get(tn) in (2, 4))
    return g


# ----------------------------------------------------------------------------- case generation

def corpus_cases():
    p = os.path.join(lib.VERIF, 'corpus', 'C01')
    out = []
    if os.path.isdir(p):
        for f in sorted(os.listdir(p)):
            if f.endswith('.json'):
                d = json.load(open(os.path.join(p, f)))
                c = d['case']
                if isinstance(c, str):
                    c = json.loads(c)
                if 'e' in c:
                    out.append((c['e'], c['t'], 'corpus:' + f))
    return out


def lib_texts(repo, rnd, n):
    """statements of the standard library sources (real DDL texts)"""
    out = []
    root = os.path.join(repo, 'edb', 'lib')
    files = []
    for dp, _, fs in os.walk(root):
        files += [os.path.join(dp, f) for f in fs if f.endswith('.edgeql')]
    files.sort()
    for f in files:
        try:
            txt = open(f, encoding='utf-8').read()
        except OSError:
            continue
        out += [s for s in G.split_statements(txt) if 10 < len(s) < 1500]
    rnd.shuffle(out)
    return out[:n]


def gen_explore_cases(tier, g, rnd):
    """-> list of (entry, text, origin)"""
    thorough = tier == 'thorough'
    cases = list(corpus_cases())
    pos, neg = G.upstream_corpus(lib.REPO)
    cases += [(e, t, 'upstream:' + n) for e, t, n in pos]
    # block texts are also tried statement by statement as fragments where they are expressions
    seeds_block = [t for e, t, _ in pos if e == 'block']
    seeds_sdl = [t for e, t, _ in pos if e == 'sdl']
    stmts = []
    for t in seeds_block:
        stmts += G.split_statements(t)
    stmts = [s for s in stmts if s]
    # operator-pair scope (exhaustive depth 2) + random core expressions
    cases += [('fragment', t, 'oppair') for t in G.op_pair_texts()]
    ncore = 30000 if thorough else 2500
    for _ in range(ncore):
        cases.append(('fragment', G.core_expr(rnd, rnd.randint(1, 5 if thorough else 4), rnd.choice([0, .2, .5])), 'core'))
    # grammar-driven: every production targeted k times + free derivations
    S = G.GrammarSampler(g)
    k_target = 20 if thorough else 2
    for k in range(len(S.prods)):
        for rep in range(k_target):
            for e in rnd.sample(['block', 'sdl', 'fragment', 'migration', 'extension'], 5):
                t = S.sample(e, rnd, budget=rnd.choice([6, 12, 25]), target_prod=k)
                if t is not None:
                    cases.append((e, t, 'grammar-target'))
                    break
    nfree = 40000 if thorough else 1500
    for _ in range(nfree):
        e = rnd.choice(['block', 'block', 'fragment', 'sdl', 'sdl', 'migration', 'extension'])
        t = S.sample(e, rnd, budget=rnd.choice([8, 15, 30, 60]))
        if t is not None:
            cases.append((e, t, 'grammar-free'))
    # standard library statements
    libs = lib_texts(lib.REPO, rnd, 3000 if thorough else 250)
    cases += [('block', s, 'stdlib') for s in libs]
    # mutation / recombination
    pool = [G.core_expr(rnd, 2, 0.3) for _ in range(200)] + [s for s in stmts if len(s) < 200][:300]
    nmut = 60000 if thorough else 2500
    base = [(e, t) for e, t, _ in pos] + [('block', s) for s in stmts] + [('block', s) for s in libs[:200]]
    for _ in range(nmut):
        e, t = rnd.choice(base)
        m = t
        for _ in range(rnd.choice([1, 1, 2, 3])):
            m = G.mutate(m, rnd, pool)
        cases.append((e, m, 'mutate'))
    # fragments out of statements: `SELECT <expr>` bodies and parenthesised groups
    for s in rnd.sample(stmts, min(len(stmts), 4000 if thorough else 400)):
        cases.append(('fragment', s, 'stmt-as-fragment'))
    # migration / extension bodies built from statements
    for _ in range(2000 if thorough else 150):
        body = '; '.join(rnd.choice(stmts) for _ in range(rnd.randint(1, 3))) + rnd.choice(['', ';', ' ;;'])
        cases.append((rnd.choice(['migration', 'extension']), body, 'body'))
    # malformed / edge stream
    seeds = stmts + seeds_sdl
    for _ in range(6000 if thorough else 600):
        cases.append((rnd.choice(['block', 'fragment', 'sdl', 'migration']), G.malformed(rnd, seeds), 'malformed'))
    cases += [(e, t, 'upstream-negative:' + n) for e, t, n in neg]
    # de-duplicate, keep first origin
    seen, out = set(), []
    for e, t, o in cases:
        if (e, t) in seen:
            continue
        seen.add((e, t))
        out.append((e, t, o))
    return out


# ----------------------------------------------------------------------------- known findings
# A finding is recognised by a precise predicate over the failure record of the real code
# (monitor kind, printer-independent signature of the first AST difference / error, text patterns).
# It only downgrades a failure when known_findings.json lists its id for C01.


BACKTICK_RE = re.compile(r'`((?:[^`]|``)+)`')


KEYWORDS: set = set()      # reserved + partial reserved keywords of the repo grammar (filled by load_grammar)


def must_quote(name):
    return not re.fullmatch(r'[^\W\d]\w*', name) or name.lower() in KEYWORDS


def quoted_ident_bare(text, printed):
    """an identifier the input had to quote (not a plain word, or a reserved keyword) appears
    unquoted in the printed text"""
    for m in BACKTICK_RE.finditer(text):
        name = m.group(1).replace('``', '`')
        if not must_quote(name):
            continue
        if re.search(r'(?<![`\w])' + re.escape(name) + r'(?![`\w])', printed):
            return name
    return None


class Finding:
    def __init__(self, fid, kinds, site, predicate, what, sig=None, tag=None, feat=None, printed=None,
                 text=None, special=None, modes=None):
        self.id = fid
        self.kinds = kinds.split('|')
        self.site, self.predicate, self.what = site, predicate, what
        self.sig = re.compile(sig) if sig else None
        self.tag = tag
        self.feat = feat
        self.printed = re.compile(printed, re.S | re.I) if printed else None
        self.text = re.compile(text, re.S | re.I) if text else None
        self.special = special
        self.modes = modes

    def matches(self, case, res, f):
        if f['kind'] not in self.kinds:
            return False
        if self.modes and not re.search(self.modes, f['mode']):
            return False
        if self.sig and not self.sig.search(f.get('sig') or ''):
            return False
        if self.tag and f.get('tag') != self.tag:
            return False
        if self.feat and not any(re.fullmatch(self.feat, x) for x in res.get('feats', ())):
            return False
        if self.printed and not self.printed.search(f.get('printed') or ''):
            return False
        if self.text and not self.text.search(case[1]):
            return False
        if self.special and not self.special(case, res, f):
            return False
        return True

    def entry(self):
        e = {'id': self.id, 'property': PROP, 'site': self.site, 'predicate': self.predicate, 'what': self.what}
        if self.id in REPLAYS:
            e['replay'] = json.dumps({'e': REPLAYS[self.id][0], 't': REPLAYS[self.id][1]})
        return e


def _sp_quoted(case, res, f):
    return quoted_ident_bare(case[1], f.get('printed') or '') is not None


CG = 'edb/edgeql/codegen.py'
FINDINGS = [
    Finding('C01-prefix-left-operand', 'same-ast', f'{CG}::visit_BinOp/visit_IsOp/visit_TypeOp/visit_IfElse + visit_UnaryOp/visit_TypeCast/visit_DetachedExpr/visit_Introspect/visit_TypeOf/visit_Constant',
            'the left operand of a binary / IS / type operator (or the first operand of python-style IF..ELSE) is, or ends on its right spine '
            '(UnaryOp.operand, TypeCast.expr, DetachedExpr.expr, Introspect.type, TypeOf.expr) in, a prefix form (+x, -x, NOT x, EXISTS x, DISTINCT x, '
            'TYPEOF x, negative numeric literal) whose operator binds looser than the binary operator; the re-parsed tree is exactly the input tree with '
            'the binary operator pushed under that prefix form',
            'left operands are printed bare inside the parentheses of the binary operator: `(-5) ^ 2` prints `(-5 ^ 2)` = -(5 ^ 2); `(NOT a) = b` prints `(NOT (a) = b)` = NOT (a = b)',
            tag='prefix-left-operand'),
    Finding('C01-shape-on-prefix', 'same-ast', f'{CG}::visit_Shape',
            'Shape whose subject is (or ends on its right spine in) a prefix form: UnaryOp, TypeCast, negative numeric literal; the re-parsed tree is the input with the shape pushed under the prefix form',
            'the subject of a shape is printed without parentheses: `(<T>x) {a}` prints `<T>x {a}` = <T>(x {a}); `(-5) {a}` prints `-5 {a}`',
            tag='shape-on-prefix'),
    Finding('C01-detached-postfix', 'same-ast', f'{CG}::visit_DetachedExpr',
            'DetachedExpr whose operand is a Path with more than one step, an Indirection or a Shape; the re-parsed tree has DETACHED applied to the head of that postfix chain only',
            'DETACHED binds tighter than `.`, `[]` and `{}` but its operand is printed bare: `DETACHED (x.y)` prints `detached x.y` = (DETACHED x).y',
            tag='detached-postfix'),
    Finding('C01-nested-unary-plus', 'reparse|same-ast', f'{CG}::visit_UnaryOp',
            'the tree contains UnaryOp(+, UnaryOp(+, _))', '`+ +x` prints `++x`, which lexes as the concatenation operator',
            feat='nested-unary-plus', printed=r'\+\+'),
    Finding('C01-typecast-required', 'same-ast', f'{CG}::visit_TypeCast',
            'TypeCast with cardinality_mod = Required', '`<required T>x` prints `<T>x` (only `optional` is printed)',
            sig=r'TypeCast\.cardinality_mod\|str>None'),
    Finding('C01-param-backtick', 'same-ast|reparse', 'edb/edgeql/parser/grammar/expressions.py::Constant.reduce_PARAMETER + codegen.param_to_str',
            'a query parameter written with backticks ($`name`)',
            'the parser keeps the backticks in Parameter.name; the printer quotes them again ($```name```)',
            feat='param-backtick', printed=r'\$```'),
    Finding('C01-for-optional', 'same-ast', f'{CG}::visit_ForQuery', 'ForQuery with optional = true',
            '`FOR OPTIONAL x IN ...` is printed without OPTIONAL', sig=r'ForQuery\.optional\|True>False'),
    Finding('C01-for-iterator-parens', 'reparse', f'{CG}::visit_ForQuery',
            'FOR whose iterator is not an atomic expression (grammar requires parentheses around complex iterators)',
            'the iterator is printed bare; the parser answers "Missing parentheses around complex expression in a FOR iterator clause"',
            sig=r'Missing parentheses around complex expression in a FOR'),
    Finding('C01-subtype-label', 'same-ast', f'{CG}::visit_TypeOp/visit_TypeOf (element name only printed by visit_TypeName)',
            'a named collection subtype (`tuple<a: T | U>`) whose type is a TypeOp or TypeOf', 'the element name is dropped',
            sig=r'TypeName\.subtypes\[\]/(TypeOp|TypeOf)\.name\|str>None'),
    Finding('C01-alter-empty-body', 'reparse', f'{CG}::_visit_AlterObject',
            'an ALTER command with an empty command block `{ }`', 'printed with no body at all (`alter role x;`), which the grammar rejects',
            feat='alter-empty', printed=r'\balter\s[^{};]*(;|$)'),
    Finding('C01-partial-reserved-bare', 'reparse|same-ast', 'edb/edgeql/quote.py::needs_quoting (only RESERVED_KEYWORD is consulted)',
            'an identifier `union`, `except` or `intersect` (partial reserved keywords) that the input had to quote',
            'printed bare; in expression position the parser reads the keyword',
            special=lambda c, r, f: (quoted_ident_bare(c[1], f.get('printed') or '') or '').lower() in ('union', 'except', 'intersect')),
    Finding('C01-quoted-ident-bare', 'reparse|same-ast', f'{CG}::visit_SetField (f"{{node.name}} :="), visit_ConfigReset / session and transaction statements, _visit_DropObject callers that write names raw',
            'a backtick-quoted identifier of the input occurs unquoted in the printed text',
            'several statement printers write names without ident_to_str: `SET `select` := 1` (quoted) in a DDL body prints `set select := 1`; DECLARE SAVEPOINT with a quoted name prints `declare savepoint my name`',
            special=_sp_quoted),
    Finding('C01-dunder-ident-quoted', 'reparse', 'edb/edgeql/quote.py::quote_ident vs tokenizer.rs (quoted dunder names are forbidden)',
            'a bare identifier of the form __name__ that is not a keyword (e.g. __edgedbtpl__)',
            'printed with backticks, which the lexer forbids for names surrounded by double underscores',
            sig=r'backtick-quoted names surrounded by double underscores'),
    Finding('C01-cast-from-space', 'reparse', f'{CG}::visit_AlterCast / visit_DropCast', 'ALTER CAST / DROP CAST statement',
            'printed `alter castfrom A to B` (missing space between CAST and FROM)', printed=r'\bcastfrom\b'),
    Finding('C01-index-match-for-space', 'reparse', f'{CG}::visit_CreateIndexMatch / DropIndexMatch', 'CREATE / DROP INDEX MATCH FOR statement',
            'printed `create index match forstd::str using ...` (missing space after FOR)', printed=r'match for[^\s]'),
    Finding('C01-config-reset-filter-space', 'reparse', f'{CG}::visit_ConfigReset', 'CONFIGURE ... RESET <object> FILTER ...',
            'printed `reset Foofilter` (missing space before FILTER)', printed=r'reset\s+\S+filter\b'),
    Finding('C01-no-printer', 'print-error', f'{CG}::generic_visit', 'ADMINISTER or ANALYZE (ExplainStmt) statement',
            'EdgeQLSourceGeneratorError: No method to generate code for AdministerStmt / ExplainStmt',
            sig=r'No method to generate code for (AdministerStmt|ExplainStmt)'),
    Finding('C01-sorted-body-itemclass', 'print-error', f'{CG}::_ddl_visit_body.sort_desc_or_sdl',
            'SDL text (Schema node; printer not `unsorted`) with a concrete constraint or index inside a non-empty body',
            'the sort key asserts name.itemclass, which the parser never sets: AssertionError, nothing is printed',
            sig=r'AssertionError:@sort_desc_or_sdl'),
    Finding('C01-create-database-template', 'same-ast', f'{CG}::visit_CreateDatabase', 'CREATE DATABASE x FROM y',
            'the template is not printed', sig=r'CreateDatabase\.template\|ObjectRef>None'),
    Finding('C01-branch-force', 'same-ast', f'{CG}::visit_AlterDatabase / visit_DropDatabase', 'ALTER/DROP BRANCH ... FORCE',
            'FORCE is not printed', sig=r'(AlterDatabase|DropDatabase)\.force\|True>False'),
    Finding('C01-ddl-with-dropped', 'same-ast', f'{CG}::visit_CreateExtension / visit_CreateFuture (no _visit_aliases)',
            'CREATE EXTENSION / CREATE FUTURE with a WITH block', 'the WITH block is not printed',
            sig=r'(CreateExtension|CreateFuture)\.aliases\|list>None'),
    Finding('C01-scalar-final', 'same-ast', f'{CG}::visit_CreateScalarType', 'CREATE FINAL SCALAR TYPE', 'FINAL is not printed',
            sig=r'CreateScalarType\.final\|True>False'),
    Finding('C01-reset-schema-target', 'reparse', f'{CG}::visit_ResetSchema', 'RESET SCHEMA TO <name>',
            'the target ObjectRef is interpolated with str(): `reset schema to <edb.edgeql.ast.ObjectRef object at 0x..>`',
            printed=r'reset schema to <'),
    Finding('C01-create-alias-reset-expr', 'print-error', f'{CG}::visit_CreateAlias', 'CREATE ALIAS x { RESET EXPRESSION }',
            'assert expr is not None fails', sig=r'AssertionError:@visit_CreateAlias'),
    Finding('C01-operator-abstract-commands', 'same-ast', f'{CG}::visit_CreateOperator', 'CREATE ABSTRACT ... OPERATOR with commands',
            'the commands of an abstract operator are not printed', sig=r'CreateOperator\.commands\|list>None'),
    Finding('C01-migration-body-whitespace', 'idem', f'{CG}::visit_CreateMigration / visit_CreateExtensionPackage (body.text)',
            'CREATE MIGRATION / EXTENSION PACKAGE with a non-empty body: printed from the saved source text',
            'second print differs from the first in whitespace only (leading/trailing blanks of the saved text are re-indented each time)',
            sig=r'^ws-only$', feat='nested-ql-block'),
    Finding('C01-migration-body-comment-compact', 'reparse|same-ast|mode-tokens', f'{CG}::visit_CreateMigration (body.text) + common/ast/codegen.py::write (pretty=False)',
            'compact mode; CREATE MIGRATION / EXTENSION PACKAGE whose saved body text contains a `#` comment',
            'newlines of the verbatim text are followed by the closing brace on the same line in compact mode, so the comment swallows `}`',
            feat='nested-ql-block', printed=r'#', modes=r'compact'),
    Finding('C01-splat-type-expr', 'reparse|same-ast', f'{CG}::visit_Splat', 'a splat `T.*` / `T.**` whose type is a parenthesised type expression or carries a type intersection',
            'the type expression is printed bare (`TYPEOF x[is T].**`)', feat='splat-typed', printed=r'\.\*'),
    Finding('C01-function-using-sql-expression', 'reparse', f'{CG}::visit_FunctionCode', 'CREATE FUNCTION ... { USING SQL EXPRESSION }',
            'printed `using sql` with nothing after it', printed=r'using sql\s*;'),
    Finding('C01-for-group-internal', 'reparse|same-ast', f'{CG}::visit_InternalGroupQuery',
            'the text uses the internal `FOR GROUP ... USING ... BY ... IN ... UNION` form (InternalGroupQuery)',
            'result_alias is never printed; `union <expr> order by` is printed without the parentheses / separators the grammar needs',
            feat='internal-group', printed=r'for\s+group'),
    Finding('C01-alias-empty-body', 'reparse', f'{CG}::visit_CreateAlias / _visit_CreateObject',
            'SDL/DDL alias declared with an empty block (`alias Foo { }`), which the parser accepts',
            'printed `alias Foo;`, which the grammar rejects', printed=r'\balias\s+[^\s;{(]+\s*;'),
    Finding('C01-empty-shape', 'idem', f'{CG}::visit_Shape / visit_Path',
            'a Shape with no elements (`Foo { }`; upstream expects it to print as `Foo`)',
            'first print keeps traces of the shape (a trailing blank, or parentheses around it as a path head: `(() ).<x`); the re-parsed tree has no shape and prints without them',
            feat='empty-shape'),
    Finding('C01-ddl-value-statement-bare', 'reparse', f'{CG}::_needs_parentheses (parent is a DDL node -> no parentheses)',
            'a SELECT/INSERT/UPDATE/DELETE/FOR/GROUP/WITH statement directly as an annotation value or an index/constraint argument of a DDL command',
            'printed without the parentheses the grammar requires: `create annotation a := select ...`, `create abstract index i(conf := select ...)`',
            feat='ddl-arg-statement'),
    Finding('C01-describe', 'reparse|same-ast', f'{CG}::visit_DescribeStmt',
            'DESCRIBE OBJECT <name>, DESCRIBE ... CONFIG statements',
            'printed as `describe <name> as DDL` / `describe DATABASE CONFIG as DDL`: rejected, or read back as DESCRIBE SCHEMA/ROLES',
            printed=r'(^|;)\s*describe\b'),
    Finding('C01-typeof-bare', 'reparse|same-ast', f'{CG}::visit_TypeOf', 'a TYPEOF type expression inside a cast `<...>`, in collection subtypes / base type arguments, or as the target type of a pointer / global',
            'printed bare: `<TYPEOF x>y` reads `>` as greater-than; `create link l: TYPEOF x { ... }` reads the block as a shape',
            feat='typeof-in-type-context', printed=r'typeof'),
    Finding('C01-overloaded-optional', 'same-ast', f'{CG}::visit_CreateConcretePointer', 'SDL `overloaded optional <pointer>`',
            'OPTIONAL is not printed after OVERLOADED', sig=r'is_required\|False>None'),
    Finding('C01-operator-code-from-function', 'same-ast', f'{CG}::visit_OperatorCode', 'CREATE OPERATOR ... USING SQL FUNCTION',
            'from_function is printed as `using sql operator`', sig=r'OperatorCode\.from_function'),
    Finding('C01-cast-code', 'same-ast', f'{CG}::visit_CastCode', 'CREATE CAST with both USING SQL FUNCTION and USING SQL <code>', 'the code is dropped',
            sig=r'CastCode\.code\|str>None'),
    Finding('C01-update-empty-set', 'reparse', f'{CG}::visit_UpdateQuery / _visit_shape', 'UPDATE x SET { } (empty shape)',
            'printed `update x set ` with no braces', feat='update-empty-set', printed=r'\bset\s*(;|\)|,|$)'),
    Finding('C01-sdl-constraint-on-without-params', 'same-ast', 'edb/edgeql/parser/grammar/sdl.py (abstract constraint without parameter list ignores ON (...)) + codegen.visit_CreateConstraint (empty parameter list not printed)',
            'SDL `abstract constraint c() on (expr)` with an empty parameter list',
            'printed without `()`; the SDL production without a parameter list discards the ON expression', sig=r'CreateConstraint\.subjectexpr\|.*>None'),
    Finding('C01-config-insert-empty-shape', 'reparse', f'{CG}::visit_ConfigInsert', 'CONFIGURE ... INSERT T { } (empty shape)',
            'printed `configure SESSION insert T;` with no braces', printed=r'configure\s+[^;]*\binsert\s+(?:`[^`]*`|[^\s;{]+)\s*;'),
]


# one minimal input per finding: replayed first on every run (so a finding that stops reproducing is
# noticed) and quoted in the proposed known_findings.json entries
REPLAYS = {
    'C01-prefix-left-operand': ('fragment', '(-5) ^ 2'),
    'C01-shape-on-prefix': ('fragment', '(<T>x) {a}'),
    'C01-detached-postfix': ('fragment', 'DETACHED (x.y)'),
    'C01-nested-unary-plus': ('fragment', '+ +x'),
    'C01-typecast-required': ('fragment', '<required T>x'),
    'C01-param-backtick': ('fragment', '$`select`'),
    'C01-for-optional': ('fragment', 'FOR OPTIONAL x IN {1} UNION x'),
    'C01-for-iterator-parens': ('block', 'FOR x IN <a>(<optional b>(y)) UNION x'),
    'C01-subtype-label': ('fragment', '<tuple<a: T | U>>x'),
    'C01-alter-empty-body': ('block', 'ALTER ROLE r { }'),
    'C01-partial-reserved-bare': ('block', 'SELECT `union`.age'),
    'C01-quoted-ident-bare': ('block', 'DECLARE SAVEPOINT `my name`'),
    'C01-dunder-ident-quoted': ('block', 'DROP DATABASE __edgedbtpl__'),
    'C01-cast-from-space': ('block', 'DROP CAST FROM std::BaseObject TO std::json'),
    'C01-index-match-for-space': ('block', 'CREATE INDEX MATCH FOR std::str USING pg::brin'),
    'C01-config-reset-filter-space': ('block', 'CONFIGURE INSTANCE RESET Foo FILTER .bar = 2'),
    'C01-no-printer': ('block', 'ADMINISTER foo()'),
    'C01-sorted-body-itemclass': ('sdl', 'type default::Foo { property p: str { constraint exclusive; } }'),
    'C01-create-database-template': ('block', 'CREATE DATABASE x FROM y'),
    'C01-branch-force': ('block', 'DROP BRANCH x FORCE'),
    'C01-ddl-with-dropped': ('block', 'WITH MODULE m CREATE FUTURE f'),
    'C01-scalar-final': ('block', 'CREATE FINAL SCALAR TYPE s EXTENDING str'),
    'C01-reset-schema-target': ('block', 'RESET SCHEMA TO x'),
    'C01-create-alias-reset-expr': ('block', 'CREATE ALIAS a { RESET EXPRESSION }'),
    'C01-operator-abstract-commands': ('block', 'CREATE ABSTRACT INFIX OPERATOR std::`>=` (l: anytype, r: anytype) -> std::bool { CREATE ANNOTATION description := "x" }'),
    'C01-migration-body-whitespace': ('block', 'CREATE MIGRATION m1 ONTO m0 { CREATE TYPE Foo; }'),
    'C01-migration-body-comment-compact': ('block', 'CREATE MIGRATION m1 ONTO m0 { CREATE TYPE Foo; # c\n}'),
    'C01-for-group-internal': ('fragment', 'FOR GROUP x USING y := 1 BY y IN g UNION r := g'),
    'C01-alias-empty-body': ('sdl', 'alias default::Foo { }'),
    'C01-empty-shape': ('block', 'SELECT sys::Branch { }'),
    'C01-ddl-value-statement-bare': ('block', 'CREATE TYPE Foo { CREATE ANNOTATION description := (SELECT 1) }'),
    'C01-describe': ('block', 'DESCRIBE OBJECT Foo'),
    'C01-typeof-bare': ('block', 'CREATE TYPE Foo { CREATE LINK l: (TYPEOF x) { SET REQUIRED } }'),
    'C01-overloaded-optional': ('sdl', 'type default::Foo { overloaded optional link l; }'),
    'C01-operator-code-from-function': ('block', "CREATE INFIX OPERATOR std::`++` (l: array<anytype>, r: array<anytype>) -> array<anytype> { USING SQL FUNCTION 'array_cat'; }"),
    'C01-cast-code': ('block', "CREATE CAST FROM std::int64 TO std::json { SET volatility := 'Immutable'; USING SQL FUNCTION 'to_jsonb'; USING SQL $$ SELECT 1 $$; }"),
    'C01-update-empty-set': ('fragment', 'UPDATE Foo SET { }'),
    'C01-sdl-constraint-on-without-params': ('sdl', 'abstract constraint default::c() on (distinct x) { }'),
    'C01-config-insert-empty-shape': ('block', 'CONFIGURE SESSION INSERT Foo { }'),
    'C01-splat-type-expr': ('fragment', 'x { (TYPEOF y).** }'),
    'C01-function-using-sql-expression': ('block', 'CREATE FUNCTION f() -> std::int64 { USING SQL EXPRESSION; }'),
}


def _prio(fd):
    return 0 if (fd.tag or fd.sig) else (1 if (fd.printed or fd.special) and not fd.feat else 2)


FINDINGS.sort(key=_prio)       # structural / signature predicates first, feature-only predicates last


def classify(case, res, f, listed):
    """-> finding if the failure is a recognised finding whose id is listed in known_findings.json"""
    for fd in FINDINGS:
        if fd.matches(case, res, f):
            return fd if (fd.id in listed or '*' in listed) else None
    return None


# ----------------------------------------------------------------------------- clustering / triage

def fkey(f):
    return (f['kind'], f.get('sig') or '')


def explore(cases):
    lines = [enc_case(e, t) for e, t, _ in cases]
    outs = run_impl('explore', lines)
    return [json.loads(o) if o else {} for o in outs]


def triage(argv):
    """debug helper:  harness/props/c01.py triage [quick|thorough] [max clusters]"""
    tier = argv[0] if argv else 'quick'
    g = load_grammar()
    rnd = lib.rng('C01explore')
    t0 = time.time()
    cases = gen_explore_cases(tier, g, rnd)
    print('generated', len(cases), 'in', round(time.time() - t0, 1))
    t0 = time.time()
    os.makedirs(SCRATCH, exist_ok=True)
    cpath = os.path.join(SCRATCH, f'triage_{tier}.cache.json')
    if os.environ.get('C01_REUSE') and os.path.exists(cpath):
        cases, outs = json.load(open(cpath))
        cases = [tuple(c) for c in cases]
    else:
        outs = explore(cases)
        json.dump([cases, outs], open(cpath, 'w'))
    print('explored in', round(time.time() - t0, 1))
    acc = sum(o.get('acc', 0) for o in outs)
    prods = set()
    for o in outs:
        prods |= set(o.get('prods', []))
    print('accepted', acc, 'productions', len(prods), '/', len(g['production_names']))
    byorig = collections.Counter()
    accorig = collections.Counter()
    for (e, t, o), r in zip(cases, outs):
        byorig[o.split(':')[0]] += 1
        accorig[o.split(':')[0]] += r.get('acc', 0)
    print({k: (accorig[k], v) for k, v in byorig.items()})
    for (e, t, o), r in zip(cases, outs):
        if r.get('crash'):
            print('PARSER-CRASH', e, repr(t)[:160], r['crash'][:200])
    listed = {e['id'] for e in lib.known_findings(PROP)} | ({'*'} if os.environ.get('C01_ALL_LISTED') else set())
    cl = collections.Counter()
    ex = {}
    known = collections.Counter()
    for case, r in zip(cases, outs):
        for f in r.get('fail', []):
            if f['mode'].startswith('info:'):
                continue
            fid = None
            for fd in FINDINGS:
                if fd.matches(case, r, f):
                    fid = fd.id
                    break
            if fid:
                known[fid] += 1
                continue
            k = fkey(f)
            cl[k] += 1
            if k not in ex or len(case[1]) < len(ex[k][0][1]):
                ex[k] = (case, f)
    print('recognised findings:', dict(known))
    print(len(cl), 'unrecognised failure clusters')
    mx = int(argv[1]) if len(argv) > 1 else 60
    dump = []
    for k, (case, f) in sorted(ex.items(), key=lambda kv: -cl[kv[0]])[:mx]:
        print('==', cl[k], k, '|', f['mode'], case[0], case[2])
        print('     T:', repr(case[1])[:400])
        print('     D:', f['detail'][:300])
        print('     P:', f.get('printed', '')[:300].replace('\n', '\\n'))
        dump.append({'n': cl[k], 'key': k, 'case': case, 'f': f})
    os.makedirs(SCRATCH, exist_ok=True)
    json.dump(dump, open(os.path.join(SCRATCH, 'triage.json'), 'w'), indent=1)


if __name__ == '__main__':
    if len(sys.argv) > 1 and sys.argv[1] == 'triage':
        triage(sys.argv[2:])
    elif len(sys.argv) > 1 and sys.argv[1] == 'findings':
        print(json.dumps([fd.entry() for fd in FINDINGS], indent=1))
    elif len(sys.argv) > 1 and sys.argv[1] == 'replays':
        load_grammar()
        cases = [(REPLAYS[k][0], REPLAYS[k][1], k) for k in REPLAYS]
        outs = explore(cases)
        for c, r in zip(cases, outs):
            got = set()
            for f in r.get('fail', []):
                if f['mode'].startswith('info:'):
                    continue
                for fd in FINDINGS:
                    if fd.matches(c, r, f):
                        got.add(fd.id)
                        break
                else:
                    got.add('UNRECOGNISED:' + f['kind'] + ':' + str(f.get('sig')))
            print('ok ' if c[2] in got else 'BAD', c[2], 'acc=%s' % r.get('acc'), r.get('rej', ''), sorted(got - {c[2]}))
