"""C08 case generator: typed expression trees -> (EdgeQL text for the real compiler, erased term for the model).

Sorts:  I = set of int64,  O = set of objects (some subtype of default::Base).
Every DML / SELECT-from-type node gets its own object type (T0..T15 in statements, F<j>_0..3 in the body of
function j) so that no statement is rejected for reasons the model does not know (self-referencing INSERT,
correlated sets); the positions of sub-expressions are what the check is about.

I nodes   ('L', v)  v in 0 1 2          literal / stable read / volatile           -> L<v>
          ('P',)                        the function parameter `a`                 -> L0
          ('cnt', O) ('grp', O)         count((O)), count((group (O) by .k))       -> N(pO)
          ('op', I, I) ('coal', I, I)   +, ??                                      -> N(pI pI)
          ('if', Ic, It, Ie)            It if Ic > 0 else Ie                       -> N(pIt pIc pIe)
          ('set', [I])                  {I, I}                                     -> N(pI...)
          ('sel', W, I, f, o, off, lim) with W select I filter/order by/offset/limit -> N(pW.. pI fF oO pOff pLim)
          ('for', Ii, Ib)               for v in Ii union (Ib + v)                 -> N(pIi pIb)
          ('call', fid, [I])            f<fid>(I)   (function of sort I)           -> C<fid>(pI...)
          ('withuse', X)                with v := (X) select count(v) / select v   (a USED binding) -> N(pX)
O nodes   ('ins', W, [I], [O], conf)    insert T {ns := I.., kids := O..} [unless conflict ...]
                                        conf: None | 'uc' | ('else_sel',) | ('else_upd', [I])
                                                                                   -> I(pW.. mI.. mO.. [pN()|pU(mI..)])
          ('upd', W, f, [I], [O])       update T filter f set {...}                -> U(pW.. fF mI.. mO..)
          ('del', W, f, o, off, lim)    delete T filter/order by/offset/limit      -> D(pW.. fF oO pOff pLim)
          ('selO', W, [I], [O], f, o, off, lim)  select T {c := I, l := O} ...     -> N(pL1 pW.. sI.. sO.. fF oO pOff pLim)
          ('free', [I], [O])            {a := I, b := O}   (exposed position only) -> N(rI.. rO..)
          ('callO', fid, [I])           f<fid>(I)   (function of sort O)           -> C<fid>(pI...)
          ('forO', Ii, Ob)              for v in Ii union (Ob)                     -> N(pIi pOb)
          ('delof', O) ('updof', O, [I])  delete (O) / update (O) set {ns := I}    -> D(pO) / U(pO mI..)
          ('selof', O, f, o)            select (O) filter f order by o             -> N(pO fF oO)
          ('ifO', Ic, Ot, Oe) ('coalO', O, O) ('setO', [O])                        -> N(...)
"""
from __future__ import annotations

I_KINDS = ('L', 'P', 'cnt', 'grp', 'op', 'coal', 'if', 'set', 'sel', 'for', 'call', 'withuse')
O_KINDS = ('ins', 'upd', 'del', 'selO', 'free', 'callO', 'forO', 'delof', 'updof', 'selof', 'ifO', 'coalO', 'setO',
           'sel_same', 'upd_same')
VOLNAME = ['Immutable', 'Stable', 'Volatile', 'Modifying']


class TooManyTypes(Exception):
    pass


class Env:
    def __init__(self, pool):
        self.pool = list(pool)
        self.ti = 0
        self.vi = 0
        self.ki = 0
        self.same = None

    def fresh_type(self):
        if self.ti >= len(self.pool):
            raise TooManyTypes()
        t = self.pool[self.ti]
        self.ti += 1
        return t

    def fresh_var(self):
        self.vi += 1
        return f'v{self.vi}'

    def fresh_key(self):
        self.ki += 1
        return self.ki


def stmt_env():
    return Env([f'T{i}' for i in range(16)])


def fn_env(fid):
    return Env([f'F{fid}_{i}' for i in range(4)])


def is_O(n):
    return n[0] in O_KINDS


# ------------------------------------------------------------------ rendering
def _withs(W, env):
    if not W:
        return ''
    return 'with ' + ', '.join(f'{env.fresh_var()} := ({render(w, env)})' for w in W) + ' '


def _clauses(f, o, off, lim, env):
    s = ''
    if f is not None:
        s += f' filter (({render(f, env)}) > 0)'
    if o is not None:
        s += f' order by (sum(({render(o, env)})))'
    if off is not None:
        s += f' offset sum(({render(off, env)}))'
    if lim is not None:
        s += f' limit sum(({render(lim, env)}))'
    return s


def _setof(xs, env):
    if len(xs) == 1:
        return f'({render(xs[0], env)})'
    return '{' + ', '.join(f'({render(x, env)})' for x in xs) + '}'


def _mut_shape(Is, Os, env, key=None):
    el = []
    if key is not None:
        el.append(f'k := {key}')
    if Is:
        el.append('ns := ' + _setof(Is, env))
    if Os:
        el.append('kids := (distinct ' + _setof(Os, env) + ')')
    if not el:
        el.append('k := 0')
    return '{ ' + ', '.join(el) + ' }'


def render(n, env, toplevel=False):
    """EdgeQL text of node n (parenthesised by the caller where needed)"""
    k = n[0]
    if k == 'L':
        return ['7', 'count(Aux)', '<int64>round(random())'][n[1]]
    if k == 'P':
        return 'a'
    if k == 'cnt':
        return f'count(({render(n[1], env)}))'
    if k == 'grp':
        return f'count((group ({render(n[1], env)}) by .k))'
    if k == 'op':
        # operands are made singletons ("can not take cross product of volatile operation" otherwise)
        return f'(sum(({render(n[1], env)})) + sum(({render(n[2], env)})))'
    if k == 'coal':
        return f'(({render(n[1], env)}) ?? ({render(n[2], env)}))'
    if k == 'if':
        return f'(({render(n[2], env)}) if (sum(({render(n[1], env)})) > 0) else ({render(n[3], env)}))'
    if k == 'set':
        return '{' + ', '.join(f'({render(x, env)})' for x in n[1]) + '}'
    if k == 'sel':
        _, W, r, f, o, off, lim = n
        w = _withs(W, env)
        return f'{w}select ({render(r, env)})' + _clauses(f, o, off, lim, env)
    if k == 'for':
        it = render(n[1], env)
        v = env.fresh_var()
        return f'for {v} in ({it}) union (({render(n[2], env)}) + {v})'
    if k == 'withuse':
        x = render(n[1], env)
        v = env.fresh_var()
        return f'with {v} := ({x}) select (' + (f'count({v})' if is_O(n[1]) else v) + ')'
    if k in ('call', 'callO'):
        # arguments are made singletons (a Modifying function refuses possibly-multi arguments); an object
        # result is made DISTINCT so that it can be assigned to a link
        args = ', '.join(f'sum(({render(x, env)}))' for x in n[2])
        return f'f{n[1]}({args})' if k == 'call' else f'(distinct f{n[1]}({args}))'
    if k == 'ins':
        _, W, Is, Os, conf = n
        w = _withs(W, env)
        t = env.fresh_type()
        key = env.fresh_key()
        s = f'{w}insert {t} ' + _mut_shape(Is, Os, env, key)
        if conf == 'uc':
            s += ' unless conflict'
        elif conf is not None:
            old, env.same = env.same, t
            s += f' unless conflict on .k else ({render(conf[1], env)})'
            env.same = old
        return s
    if k == 'sel_same':
        return f'select {env.same}'
    if k == 'upd_same':
        return f'update {env.same} set ' + _mut_shape(n[1], [], env)
    if k == 'upd':
        _, W, f, Is, Os = n
        w = _withs(W, env)
        t = env.fresh_type()
        s = f'{w}update {t}'
        if f is not None:
            s += f' filter (({render(f, env)}) > 0)'
        return s + ' set ' + _mut_shape(Is, Os, env)
    if k == 'del':
        _, W, f, o, off, lim = n
        w = _withs(W, env)
        t = env.fresh_type()
        return f'{w}delete {t}' + _clauses(f, o, off, lim, env)
    if k == 'selO':
        _, W, Is, Os, f, o, off, lim = n
        w = _withs(W, env)
        t = env.fresh_type()
        # names are unique per type so that unions of shaped selects stay legal
        el = [f'c{t}_{i} := ({render(x, env)})' for i, x in enumerate(Is)]
        el += [f'l{t}_{i} := (distinct ({render(x, env)}))[is Base]' for i, x in enumerate(Os)]   # never a union type
        shape = (' { ' + ', '.join(el) + ' }') if el else ''
        return f'{w}select {t}{shape}' + _clauses(f, o, off, lim, env)
    if k == 'free':
        el = [f'a{i} := ({render(x, env)})' for i, x in enumerate(n[1])]
        el += [f'b{i} := (distinct ({render(x, env)}))[is Base]' for i, x in enumerate(n[2])]
        return '{ ' + ', '.join(el) + ' }'
    if k == 'forO':
        it = render(n[1], env)
        v = env.fresh_var()
        return f'for {v} in ({it}) union ({render(n[2], env)})'
    if k == 'delof':
        return f'delete ({render(n[1], env)})'
    if k == 'updof':
        return f'update ({render(n[1], env)}) set ' + _mut_shape(n[2], [], env)
    if k == 'selof':
        s = f'select ({render(n[1], env)})'
        if n[2] is not None:
            s += f' filter (({render(n[2], env)}) > 0)'
        if n[3] is not None:
            s += f' order by (sum(({render(n[3], env)})))'
        return s
    if k == 'ifO':
        return f'(({render(n[2], env)}) if (sum(({render(n[1], env)})) > 0) else ({render(n[3], env)}))'
    if k == 'coalO':
        return f'(({render(n[1], env)}) ?? ({render(n[2], env)}))'
    if k == 'setO':
        return '{' + ', '.join(f'({render(x, env)})' for x in n[1]) + '}'
    raise ValueError(k)


RAW_ROOTS = ('ins', 'upd', 'del', 'selO', 'sel', 'for', 'forO', 'delof', 'updof', 'selof', 'withuse')


def render_query(n, env=None):
    env = env or stmt_env()
    if n[0] in RAW_ROOTS:
        return render(n, env)
    return f'select ({render(n, env)})'


# ------------------------------------------------------------------ erasure (model term)
def _kids(pairs):
    return '(' + ''.join(p + erase(x) for p, x in pairs if x is not None) + ')'


def erase(n):
    k = n[0]
    if k == 'L':
        return f'L{n[1]}'
    if k == 'P':
        return 'L0'
    if k in ('cnt', 'grp', 'withuse'):
        return 'N' + _kids([('p', n[1])])
    if k in ('op', 'coal', 'coalO'):
        return 'N' + _kids([('p', n[1]), ('p', n[2])])
    if k in ('if', 'ifO'):
        return 'N' + _kids([('p', n[2]), ('p', n[1]), ('p', n[3])])
    if k in ('set', 'setO'):
        return 'N' + _kids([('p', x) for x in n[1]])
    if k == 'sel':
        _, W, r, f, o, off, lim = n
        return 'N' + _kids([('p', w) for w in W] + [('p', r), ('f', f), ('o', o), ('p', off), ('p', lim)])
    if k in ('for', 'forO'):
        return 'N' + _kids([('p', n[1]), ('p', n[2])])
    if k in ('call', 'callO'):
        return f'C{n[1]}' + _kids([('p', x) for x in n[2]])
    if k == 'ins':
        _, W, Is, Os, conf = n
        tail = [('p', conf[1])] if (conf is not None and conf != 'uc') else []
        return 'I' + _kids([('p', w) for w in W] + [('m', x) for x in Is] + [('m', x) for x in Os] + tail)
    if k == 'sel_same':
        return 'N(pL1)'
    if k == 'upd_same':
        return 'U' + _kids([('m', x) for x in n[1]])
    if k == 'upd':
        _, W, f, Is, Os = n
        return 'U' + _kids([('p', w) for w in W] + [('f', f)] + [('m', x) for x in Is] + [('m', x) for x in Os])
    if k == 'del':
        _, W, f, o, off, lim = n
        return 'D' + _kids([('p', w) for w in W] + [('f', f), ('o', o), ('p', off), ('p', lim)])
    if k == 'selO':
        _, W, Is, Os, f, o, off, lim = n
        # reading the type's table is Stable: an explicit stable leaf stands for the subject
        return 'N' + _kids([('p', ('L', 1))] + [('p', w) for w in W] + [('s', x) for x in Is] + [('s', x) for x in Os] +
                           [('f', f), ('o', o), ('p', off), ('p', lim)])
    if k == 'free':
        return 'N' + _kids([('r', x) for x in n[1]] + [('r', x) for x in n[2]])
    if k == 'delof':
        return 'D' + _kids([('p', n[1])])
    if k == 'updof':
        return 'U' + _kids([('p', n[1])] + [('m', x) for x in n[2]])
    if k == 'selof':
        return 'N' + _kids([('p', n[1]), ('f', n[2]), ('o', n[3])])
    raise ValueError(k)


def erase_query(n):
    if n[0] in RAW_ROOTS:
        return erase(n)
    return 'N(p' + erase(n) + ')'


def children(n):
    """(position letter, child) pairs in model order"""
    k = n[0]
    if k in ('L', 'P', 'sel_same'):
        return []
    if k == 'upd_same':
        return [('m', x) for x in n[1]]
    if k in ('cnt', 'grp', 'delof', 'withuse'):
        return [('p', n[1])]
    if k in ('op', 'coal', 'coalO', 'for', 'forO'):
        return [('p', n[1]), ('p', n[2])]
    if k in ('if', 'ifO'):
        return [('p', n[2]), ('p', n[1]), ('p', n[3])]
    if k in ('set', 'setO'):
        return [('p', x) for x in n[1]]
    if k in ('call', 'callO'):
        return [('p', x) for x in n[2]]
    if k == 'sel':
        _, W, r, f, o, off, lim = n
        L = [('p', w) for w in W] + [('p', r), ('f', f), ('o', o), ('p', off), ('p', lim)]
    elif k == 'ins':
        _, W, Is, Os, conf = n
        L = [('p', w) for w in W] + [('m', x) for x in Is] + [('m', x) for x in Os]
        if conf is not None and conf != 'uc':
            L += [('p', conf[1])]
    elif k == 'upd':
        _, W, f, Is, Os = n
        L = [('p', w) for w in W] + [('f', f)] + [('m', x) for x in Is] + [('m', x) for x in Os]
    elif k == 'del':
        _, W, f, o, off, lim = n
        L = [('p', w) for w in W] + [('f', f), ('o', o), ('p', off), ('p', lim)]
    elif k == 'selO':
        _, W, Is, Os, f, o, off, lim = n
        L = ([('p', w) for w in W] + [('s', x) for x in Is] + [('s', x) for x in Os] +
             [('f', f), ('o', o), ('p', off), ('p', lim)])
    elif k == 'free':
        L = [('r', x) for x in n[1]] + [('r', x) for x in n[2]]
    elif k == 'updof':
        L = [('p', n[1])] + [('m', x) for x in n[2]]
    elif k == 'selof':
        L = [('p', n[1]), ('f', n[2]), ('o', n[3])]
    else:
        raise ValueError(k)
    return [(p, x) for p, x in L if x is not None]


def walk(n, path=()):
    yield path, n
    for p, c in children(n):
        yield from walk(c, path + ((n[0], p),))


def count_types(n):
    return sum(1 for _, x in walk(n) if x[0] in ('ins', 'upd', 'del', 'selO'))


def depth(n):
    cs = children(n)
    return 1 + (max(depth(c) for _, c in cs) if cs else 0)


# ------------------------------------------------------------------ functions
def render_create_fn(fid, decl, sort, body):
    ret = 'set of int64' if sort == 'I' else 'set of Base'
    b = render(body, fn_env(fid))
    vol = f" set volatility := '{VOLNAME[decl]}';" if decl is not None else ''
    return f'create function f{fid}(a: int64) -> {ret} {{{vol} using ({b}) }}'


def render_alter_body(fid, body):
    return f'alter function f{fid}(a: int64) using ({render(body, fn_env(fid))})'


def render_alter_vol(fid, decl):
    if decl is None:
        return f'alter function f{fid}(a: int64) reset volatility'
    return f"alter function f{fid}(a: int64) set volatility := '{VOLNAME[decl]}'"


def enc_decl(d):
    return '-' if d is None else str(d)


def enc_fdef(fid, decl, body):
    return f'{fid}:{enc_decl(decl)}:{erase(body)}'
